"""C09 — signature hashes equal the legacy, BIP143 and BIP341 definitions (DESIGN §3 C09)."""
from __future__ import annotations

import hashlib
import json
import os
from io import BytesIO

from btclib import var_bytes
from btclib.exceptions import BTClibValueError
from btclib.hashes import hash160, sha256, tagged_hash
from btclib.psbt import psbt as psbt_mod
from btclib.psbt.psbt import Psbt
from btclib.psbt.psbt_in import PsbtIn
from btclib.psbt.psbt_view import PsbtView
from btclib.script import sig_hash
from btclib.script.engine import script as engine_script
from btclib.script.script_pub_key import ScriptPubKey
from btclib.script.witness import Witness
from btclib.tx import OutPoint, Tx, TxIn, TxOut

from . import common, shared
from .common import hx, unhx

PROP = "C09"
EXE = "drv_c09"
GEN_MODULES = ["SigHash"]
RULE = ("op lines come from one seeded PRNG: transactions of 1..6 inputs and 0..6 outputs with 32-bit / 64-bit field "
        "extremes, script codes built from op-code chunks (OP_CODESEPARATOR inside and outside pushes, truncated "
        "pushes), every low hash-type byte with and without high bits, the seven taproot types x annex x key/script "
        "path, standard and malformed prevout scripts for from_tx (plus a deterministic dispatch table: taproot stacks "
        "of 0..4 elements whose last element does / does not start with 0x50, every previous-output type bare and "
        "P2SH-wrapped, codeseparator indices 0..3) and the PSBT dispatch (witness utxo / non-witness utxo / both, "
        "index outside the input maps, a map without utxo); plus Core's sighash.json, BIP143's and BIP341's published "
        "examples and one Core-made signed script path spend. "
        "A case is non-trivial when the implementation answered with a digest; distinct = distinct (stream, op line)")
TRUSTED = [
    "SHA-256 / RIPEMD-160 instances of the hash parameters: executable Lean models validated against hashlib each run",
    "Model/C09/Impl.lean (btclib-shaped functions incl. exceptions, from_tx, taproot_annex_and_ext, redeem_script, the "
    "PSBT maps: _prev_out, _assert_input_index, ecdsa_sig_hash / taproot_sig_hash, PsbtView.taproot_sig_hash) is tied "
    "to btclib by correspondence; that its legacy / segwit_v0 / taproot and the PSBT entry points compute the digests "
    "of the proved specification Model/C09/Sighash.lean is a theorem (Props/C09.lean: layer tie, T5) and re-checked by "
    "the driver on every accepted line (`specdiff`)",
    "PSBT parsing/serialization (Psbt, PsbtView maps) and Psbt.assert_valid are C05/C11's: here a psbt is built from "
    "the fields on the line and the model starts past assert_valid",
    "the reference routines of the dispatch oracles (ref_dispatch, ref_annex_and_ext, ref_ops, ref_bip341) are the "
    "harness's own transcriptions of BIP16/141/143/341/342 over hashlib; the signed script path spend is verified "
    "with btclib's ssa (property C03's)",
    "find_and_delete / calculate_script_code (script/engine/script.py) are modelled and proved equal to Core's "
    "FindAndDelete (T4c); the script engine that calls them with the executed codeseparator offset and the "
    "signatures under check is C08's",
]
ASSUMPTIONS = ["collision resistance of SHA-256 is not assumed by any theorem: the commitment theorems construct the "
               "colliding pair explicitly"]

SEVEN = sorted(sig_hash.SIG_HASH_TYPES)


# ------------------------------------------------------------------ tokens
def tok_out(o) -> str:
    return f"{o[0]}:{hx(o[1])}"


def tok_outs(outs) -> str:
    return ",".join(tok_out(o) for o in outs) if outs else "."


def tok_tx(t) -> str:
    """t = dict(version, lock_time, vin=[(txid_wire, vout, script_sig, sequence, [wit…])], vout=[(value, spk)])"""
    ins = ",".join(f"{hx(i[0])}:{i[1]}:{hx(i[2])}:{i[3]}:" + ("/".join(hx(w) for w in i[4]) if i[4] else ".")
                   for i in t["vin"]) if t["vin"] else "."
    return f"{t['version']};{t['lock_time']};{ins};{tok_outs(t['vout'])}"


def un_out(s):
    v, spk = s.split(":")
    return int(v), unhx(spk)


def un_outs(s):
    return [] if s == "." else [un_out(x) for x in s.split(",")]


def un_tx(s):
    v, l, ins, outs = s.split(";")
    vin = []
    if ins != ".":
        for x in ins.split(","):
            txid, vout, ss, seq, wit = x.split(":")
            vin.append((unhx(txid), int(vout), unhx(ss), int(seq), [] if wit == "." else [unhx(w) for w in wit.split("/")]))
    return {"version": int(v), "lock_time": int(l), "vin": vin, "vout": un_outs(outs)}


def opt_int(s):
    return None if s == "." else int(s)


# ------------------------------------------------------------------ btclib objects
def mk_out(o) -> TxOut:
    return TxOut(o[0], ScriptPubKey(o[1], check_validity=False), check_validity=False)


def mk_tx(t) -> Tx:
    vin = [TxIn(OutPoint(i[0][::-1], i[1], check_validity=False), i[2], i[3],
                Witness(i[4], check_validity=False), check_validity=False) for i in t["vin"]]
    return Tx(t["version"], t["lock_time"], vin, [mk_out(o) for o in t["vout"]], check_validity=False)


def _digest(fn, *a, **kw) -> str:
    return common.call_impl(fn, *a, **kw)


def _pre(flag, tx, outs):
    return sig_hash.PrecomputedTxData(tx, outs) if flag == "1" else None


# ------------------------------------------------------------------ PSBT construction from the fields on a line
def prev_tx_for(out, index: int) -> Tx:
    """The previous transaction a non-witness utxo is: `out` at position `index`, deterministic."""
    filler = TxOut(1, ScriptPubKey(b"\x51", check_validity=False), check_validity=False)
    vin = [TxIn(OutPoint(b"\x11" * 32, 0, check_validity=False), b"", 0xFFFFFFFF, check_validity=False)]
    return Tx(2, 0, vin, [filler] * index + [mk_out(out)], check_validity=False)


def _psbt_ecdsa_objects(t, i, out, redeem, wscript, nwu, sht):
    """nwu: 0 / False = witness utxo, 1 / True = non-witness utxo, 2 = both."""
    tx = mk_tx(t)
    nwu = int(nwu)
    inputs = []
    for j in range(len(tx.vin)):
        if j != i:
            inputs.append(PsbtIn())
            continue
        kw = {}
        if out is not None:
            if nwu in (1, 2):
                kw["non_witness_utxo"] = prev_tx_for(out, t["vin"][i][1])
            if nwu in (0, 2):
                kw["witness_utxo"] = mk_out(out)
        inputs.append(PsbtIn(sig_hash_type=sht, redeem_script=redeem, witness_script=wscript, **kw))
    return Psbt.from_tx(tx, inputs)


def _same(results, what):
    """The whole psbt and the streamed views must give ONE answer (digest or error class): every route is
    evaluated, none is skipped because an earlier one refused."""
    canon = [("ok " + hx(r[1])) if r[0] == "ok" else "err " + (r[1] if not r[1].startswith("foreign") else r[1])
             for r in results]
    if len(set(canon)) != 1:
        return "crash routes disagree (" + what + "): " + " | ".join(canon)
    return canon[0]


def _psbt_ecdsa(out, redeem, wscript, nwu, sht, t, i, ht) -> str:
    built = _call(_psbt_ecdsa_objects, t, i, out, redeem, wscript, nwu, sht)
    if built[0] == "err":
        return "err " + built[1]
    p = built[1]
    raw = _call(p.serialize)
    a = _call(psbt_mod.ecdsa_sig_hash, p, i, hash_type=ht)
    if raw[0] == "err":   # a psbt that cannot be written has no streamed view
        return _same([a], "psbt")
    b = _call(lambda: PsbtView(raw[1]).ecdsa_sig_hash(i, hash_type=ht))
    c = _call(lambda: PsbtView(BytesIO(raw[1])).ecdsa_sig_hash(i, hash_type=ht))
    return _same([a, b, c], "psbt.ecdsa_sig_hash | PsbtView(bytes) | PsbtView(stream)")


def _psbt_taproot_objects(t, outs, i, sht):
    tx = mk_tx(t)
    inputs = [PsbtIn(witness_utxo=(mk_out(o) if o is not None else None), sig_hash_type=(sht if j == i else None))
              for j, o in enumerate(outs)]
    return Psbt.from_tx(tx, inputs)


def _psbt_taproot(sht, t, i, outs, leaf, ht, pre) -> str:
    built = _call(_psbt_taproot_objects, t, outs, i, sht)
    if built[0] == "err":
        return "err " + built[1]
    p = built[1]
    if pre == "1":
        raw = _call(p.serialize)
        if raw[0] == "err":
            return "err " + raw[1]
        v = PsbtView(raw[1])
        a = _call(v.taproot_sig_hash, i, leaf_hash=leaf, hash_type=ht)
        b = _call(v.taproot_sig_hash, i, leaf_hash=leaf, hash_type=ht)   # second call: the kept hashes
        c = _call(lambda: PsbtView(BytesIO(raw[1])).taproot_sig_hash(i, leaf_hash=leaf, hash_type=ht))
        return _same([a, b, c], "PsbtView first | second call | stream")
    return _same([_call(psbt_mod.taproot_sig_hash, p, i, leaf_hash=leaf, hash_type=ht)], "psbt")


# ------------------------------------------------------------------ implementation side
def _real_preimage(t) -> str:
    """The bytes the real code hands to its final hash (hash256 / the TapSighash tagged hash), observed by
    wrapping that hash for the duration of the call; `ok bug` when `legacy` answers its constant without hashing."""
    seen = []
    if t[0] == "spec.bip341":
        real = sig_hash.tagged_hash

        def spy(tag, msg):
            if tag == b"TapSighash":
                seen.append(bytes(msg))
            return real(tag, msg)
        sig_hash.tagged_hash = spy
    else:
        real = sig_hash.hash256

        def spy(msg):
            seen.append(bytes(msg))
            return real(msg)
        sig_hash.hash256 = spy
    try:
        if t[0] == "spec.legacy":
            r = sig_hash.legacy(unhx(t[1]), mk_tx(un_tx(t[2])), int(t[3]), int(t[4]))
            if not seen:
                return "ok bug" if r == b"\x01" + bytes(31) else "err no-hash"
        elif t[0] == "spec.bip143":
            sig_hash.segwit_v0(unhx(t[1]), mk_tx(un_tx(t[2])), int(t[3]), int(t[4]), int(t[5]))
        else:
            ext = unhx(t[6])
            sig_hash.taproot(mk_tx(un_tx(t[1])), int(t[2]), [mk_out(o) for o in un_outs(t[3])], int(t[4]),
                             int(bool(ext)), unhx(t[5]), ext)
    except Exception as e:  # noqa: BLE001
        c = common.err_class(e)
        return "err " + (c if not c.startswith("foreign") else "foreign")
    finally:
        if t[0] == "spec.bip341":
            sig_hash.tagged_hash = real
        else:
            sig_hash.hash256 = real
    return "ok " + hx(seen[-1])


def impl(line: str) -> str:  # noqa: PLR0911, PLR0912
    t = line.split(" ")
    op = t[0]
    if op == "legacy":
        return _digest(sig_hash.legacy, unhx(t[1]), mk_tx(un_tx(t[2])), int(t[3]), int(t[4]))
    if op == "segwit":
        tx = mk_tx(un_tx(t[2]))

        def f():
            pre = None if t[6] == "." else sig_hash.PrecomputedTxData(tx, [mk_out(o) for o in un_outs(t[6])])
            return sig_hash.segwit_v0(unhx(t[1]), tx, int(t[3]), int(t[4]), int(t[5]), pre)
        return _digest(f)
    if op == "taproot":
        tx = mk_tx(un_tx(t[1]))
        outs = [mk_out(o) for o in un_outs(t[3])]

        def f():
            return sig_hash.taproot(tx, int(t[2]), outs, int(t[4]), int(t[5]), unhx(t[6]), unhx(t[7]),
                                    _pre(t[8], tx, outs))
        return _digest(f)
    if op == "fromtx":
        tx = mk_tx(un_tx(t[2]))
        outs = [mk_out(o) for o in un_outs(t[1])]

        def f():
            return sig_hash.from_tx(outs, tx, int(t[3]), int(t[4]), _pre(t[5], tx, outs), codesep_index=int(t[6]))
        return _digest(f)
    if op in ("spec.legacy", "spec.bip143", "spec.bip341"):
        return _real_preimage(t)
    if op == "fad":
        return _digest(engine_script.find_and_delete, unhx(t[1]), unhx(t[2]), render=lambda r: f"{hx(r[0])} {r[1]}")
    if op == "calc":
        sigs = [] if t[3] == "." else [unhx(x) for x in t[3].split("/")]
        return _digest(engine_script.calculate_script_code, unhx(t[1]), int(t[2]), sigs, t[4] == "1", t[5] == "1")
    if op == "strip":
        return _digest(sig_hash._without_op_codeseparators, unhx(t[1]))
    if op == "codefrom":
        return _digest(sig_hash._script_code_from, unhx(t[1]), int(t[2]))
    if op == "annexext":
        stack = [] if t[1] == "." else [unhx(w) for w in t[1].split("/")]
        tx = Tx(2, 0, [TxIn(OutPoint(b"\x01" * 32, 0, check_validity=False), b"", 0,
                            Witness(stack, check_validity=False), check_validity=False)], [], check_validity=False)
        return _digest(sig_hash.taproot_annex_and_ext, tx, 0)
    if op == "redeem":
        return _digest(sig_hash.redeem_script, unhx(t[1]), unhx(t[2]))
    if op == "psbt.ecdsa":
        out = None if t[1] == "." else un_out(t[1])
        return _psbt_ecdsa(out, unhx(t[2]), unhx(t[3]), int(t[4]), opt_int(t[5]), un_tx(t[6]), int(t[7]), opt_int(t[8]))
    if op == "psbt.taproot":
        outs = [] if t[4] == "." else [None if x == "-" else un_out(x) for x in t[4].split(",")]
        return _psbt_taproot(opt_int(t[1]), un_tx(t[2]), int(t[3]), outs, unhx(t[5]), opt_int(t[6]), t[7])
    return "bad-op"


# ------------------------------------------------------------------ generators
U32 = [0, 1, 2, 0x7FFFFFFF, 0x80000000, 0xFFFFFFFE, 0xFFFFFFFF]
I64 = [0, 1, -1, 546, 2_100_000_000_000_000, 2**63 - 1, -(2**63), 2**32, 0xFFFFFFFF]
SEP = 0xAB


def g_u32(rng, bad=0.0):
    r = rng.random()
    if r < bad:
        return rng.choice([-1, 2**32, 2**32 + 5, -(2**31), 2**64])
    if r < 0.5:
        return rng.choice(U32)
    return rng.getrandbits(32)


def g_i64(rng, bad=0.0):
    r = rng.random()
    if r < bad:
        return rng.choice([2**63, -(2**63) - 1, 2**64, -(2**64)])
    if r < 0.5:
        return rng.choice(I64)
    return rng.getrandbits(51) if rng.random() < 0.8 else rng.getrandbits(64) - 2**63


def g_chunk(rng) -> bytes:
    """One whole script operation."""
    r = rng.random()
    if r < 0.3:
        return bytes([SEP])
    if r < 0.55:
        n = rng.choice([1, 2, 3, 5, 20, 32, 33, 75])
        body = bytes(rng.choice([SEP, SEP, rng.getrandbits(8)]) for _ in range(n))
        return bytes([n]) + body
    if r < 0.7:
        which = rng.choice([76, 77, 78])
        n = rng.choice([0, 1, 2, 3, 76, 255, 256, 300]) if which != 76 else rng.choice([0, 1, 2, 75, 76, 255])
        body = bytes(rng.choice([SEP, rng.getrandbits(8)]) for _ in range(n))
        return bytes([which]) + n.to_bytes(2 ** (which - 76), "little") + body
    return bytes([rng.choice([0, 0x4F, 0x51, 0x60, 0x61, 0x63, 0x68, 0x76, 0x87, 0x88, 0xA9, 0xAC, 0xAE, 0xBA, 0xFF,
                              rng.randrange(79, 256)])])


def g_script(rng, max_chunks=6) -> bytes:
    s = b"".join(g_chunk(rng) for _ in range(rng.randrange(max_chunks + 1)))
    r = rng.random()
    if r < 0.2:  # a truncated push at the end, bytes after it kept verbatim
        which = rng.choice([5, 0x4B, 76, 77, 78])
        tail = bytes([which]) + bytes(rng.choice([SEP, rng.getrandbits(8)]) for _ in range(rng.randrange(0, 4)))
        s += tail
    elif r < 0.25:
        s = common.rand_bytes(rng, rng.randrange(12))
    return s


def g_txid(rng) -> bytes:
    return rng.choice([bytes(32), b"\xff" * 32, common.rand_bytes(rng, 32), common.rand_bytes(rng, 32)])


def g_spk(rng) -> bytes:
    r = rng.random()
    if r < 0.15:
        return b""
    if r < 0.3:
        return b"\x00\x14" + common.rand_bytes(rng, 20)
    if r < 0.4:
        return b"\x51\x20" + common.rand_bytes(rng, 32)
    if r < 0.5:
        return common.rand_bytes(rng, rng.choice([1, 25, 252, 253, 254, 300]))
    return g_script(rng, 3)


def g_tx(rng, n_in=None, n_out=None, bad=0.0, wit=False):
    n_in = rng.randrange(1, 7) if n_in is None else n_in
    n_out = rng.randrange(0, 7) if n_out is None else n_out
    vin = []
    for _ in range(n_in):
        w = [common.rand_bytes(rng, rng.randrange(0, 5)) for _ in range(rng.randrange(0, 3))] if wit else []
        vin.append((g_txid(rng), g_u32(rng, bad), g_script(rng, 2) if rng.random() < 0.3 else b"", g_u32(rng, bad), w))
    vout = [(g_i64(rng, bad), g_spk(rng)) for _ in range(n_out)]
    return {"version": g_u32(rng, bad), "lock_time": g_u32(rng, bad), "vin": vin, "vout": vout}


def g_ht32(rng):
    """A legacy / segwit hash type: every low byte, with and without high bits, both spellings of the word."""
    low = rng.randrange(256)
    r = rng.random()
    if r < 0.5:
        return low
    hi = rng.getrandbits(24) << 8
    v = hi | low
    if r < 0.75:
        return v
    return v - 2**32 if v >= 2**31 else v


def g_index(rng, n, bad=0.05):
    if rng.random() < bad:
        return rng.choice([-1, n, n + 1, 2**32])
    return rng.randrange(n)


def g_prevouts(rng, n, bad=0.0):
    return [(g_i64(rng, bad), g_spk(rng)) for _ in range(n)]


# ------------------------------------------------------------------ property oracles (real code only)
def _call(fn, *a, **kw):
    try:
        return ("ok", fn(*a, **kw))
    except Exception as e:  # noqa: BLE001
        return ("err", common.err_class(e))


def _o_precomputed(w):
    """T1 on the real code: with PrecomputedTxData (when it can be built) = without."""
    t = un_tx(w["tx"])
    tx = mk_tx(t)
    outs = [mk_out(o) for o in un_outs(w["outs"])]
    built = _call(sig_hash.PrecomputedTxData, tx, outs)
    if built[0] == "err":
        return built[1] == "value", f"PrecomputedTxData raised {built[1]}"
    pre = built[1]
    i, ht = w["i"], w["ht"]
    if w["kind"] == "segwit":
        a = _call(sig_hash.segwit_v0, unhx(w["sc"]), tx, i, ht, w["amount"], None)
        b = _call(sig_hash.segwit_v0, unhx(w["sc"]), tx, i, ht, w["amount"], pre)
    else:
        args = (tx, i, outs, ht, w["ext_flag"], unhx(w["annex"]), unhx(w["ext"]))
        a = _call(sig_hash.taproot, *args, None)
        b = _call(sig_hash.taproot, *args, pre)
    return a == b, f"direct={a} precomputed={b}"


def _o_refused(w):
    """T3 on the real code: the inputs the BIPs / the module declare an error are refused, and with
    the library's exception (anything else leaves through no `except BTClibValueError`)."""
    t = un_tx(w["tx"])
    tx = mk_tx(t)
    outs = [mk_out(o) for o in un_outs(w.get("outs", "."))]
    k = w["kind"]
    if k == "legacy":
        r = _call(sig_hash.legacy, unhx(w["sc"]), tx, w["i"], w["ht"])
    elif k == "segwit":
        r = _call(sig_hash.segwit_v0, unhx(w["sc"]), tx, w["i"], w["ht"], w["amount"])
    else:
        r = _call(sig_hash.taproot, tx, w["i"], outs, w["ht"], w.get("ext_flag", 0), b"", unhx(w.get("ext", "_")))
    ok = r == ("err", "value")
    return ok, f"{k}({w.get('why', '')}) -> {r[0]} {r[1].hex() if isinstance(r[1], bytes) else r[1]}"


def _o_single_bug(w):
    tx = mk_tx(un_tx(w["tx"]))
    r = _call(sig_hash.legacy, unhx(w["sc"]), tx, w["i"], w["ht"])
    return r == ("ok", b"\x01" + bytes(31)), f"legacy SINGLE out of range -> {r}"


def _o_strip(w):
    """T4 on the real code: idempotent, removes only op codes, and nothing else changes."""
    s = unhx(w["s"])
    a = sig_hash._without_op_codeseparators(s)
    b = sig_hash._without_op_codeseparators(a)
    from btclib.script.script import op_code_spans
    ops_s = [(o, s[x:y]) for o, x, y in op_code_spans(s)]
    ops_a = [(o, a[x:y]) for o, x, y in op_code_spans(a)]
    tail_s = s[ops_s and sum(len(c) for _, c in ops_s) or 0:]
    tail_a = a[ops_a and sum(len(c) for _, c in ops_a) or 0:]
    ok = a == b and ops_a == [c for c in ops_s if c[0] != SEP] and tail_a == tail_s
    return ok, f"strip({s.hex()}) = {a.hex()}, again {b.hex()}"


def _o_psbt_direct(w):
    """PSBT digests are the direct ones: psbt.ecdsa_sig_hash / PsbtView on a psbt built from the fields
    equals sig_hash.legacy / segwit_v0 on the script code those fields name."""
    t = un_tx(w["tx"])
    i, ht = w["i"], w["ht"]
    out = un_out(w["out"])
    p = _psbt_ecdsa_objects(t, i, out, unhx(w["redeem"]), unhx(w["wscript"]), w["nwu"], None)
    a = _call(psbt_mod.ecdsa_sig_hash, p, i, hash_type=ht)
    v = _call(lambda: PsbtView(p.serialize()).ecdsa_sig_hash(i, hash_type=ht))
    tx = mk_tx(t)
    for x in tx.vin:
        x.script_sig = b""
        x.script_witness = Witness()
    if w["how"] == "segwit":
        d = _call(sig_hash.segwit_v0, unhx(w["sc"]), tx, i, ht, out[0])
    else:
        d = _call(sig_hash.legacy, unhx(w["sc"]), tx, i, ht)
    return a == d == v and a[0] == "ok", f"psbt={a} view={v} direct={d}"


def _o_psbt_taproot_direct(w):
    """psbt / PsbtView taproot digest = sig_hash.taproot with the type the rules name: the explicit hash_type
    when one is given (0 = SIGHASH_DEFAULT included), else the input's PSBT_IN_SIGHASH_TYPE, else DEFAULT."""
    t = un_tx(w["tx"])
    outs = un_outs(w["outs"])
    i, ht, sht = w["i"], w["ht"], w.get("sht")
    leaf = unhx(w["leaf"])
    p = _psbt_taproot_objects(t, outs, i, sht)
    a = _call(psbt_mod.taproot_sig_hash, p, i, leaf_hash=leaf, hash_type=ht)
    v = _call(lambda: PsbtView(p.serialize()).taproot_sig_hash(i, leaf_hash=leaf, hash_type=ht))
    tx = mk_tx(t)
    for x in tx.vin:
        x.script_sig = b""
        x.script_witness = Witness()
    ext = leaf + b"\x00\xff\xff\xff\xff" if leaf else b""
    eff = ht if ht is not None else (sht or 0)
    d = _call(sig_hash.taproot, tx, i, [mk_out(o) for o in outs], eff, int(bool(ext)), b"", ext)
    return a == d == v and a[0] == "ok", f"sht={sht} hash_type={ht}: psbt={a} view={v} direct({eff})={d}"


def committed(kind, ht, i, what, j, n_out):
    """Does hash type `ht` commit input `i`'s signature to field `what` of position `j`?  (the T2 table)"""
    if kind == "taproot":
        acp, base = ht & 0x80, ht & 3
        if what in ("seq", "outpoint"):
            return not acp
        if what in ("spent_amount", "spent_spk"):
            return j == i or not acp
    else:
        acp, base = ht & 0x80, ht & 0x1F
        if kind == "legacy" and base == 3 and i >= n_out:
            return False   # the SIGHASH_SINGLE bug: the constant commits to nothing
        if what == "seq":
            return not acp and base not in (2, 3)
        if what == "outpoint":
            return not acp
    if what == "out":
        return False if base == 2 else (j == i if base == 3 else True)
    raise ValueError(what)


def _o_commitment(w):
    """T2 on the real code: editing one field changes the digest exactly when the hash type commits to it
    (over-commitment is as much a failure as under-commitment)."""
    t = un_tx(w["tx"])
    outs = un_outs(w.get("outs", "."))
    kind, i, ht, what, j = w["kind"], w["i"], w["ht"], w["what"], w["j"]

    def digest(t, outs):
        tx = mk_tx(t)
        if kind == "legacy":
            return _call(sig_hash.legacy, unhx(w["sc"]), tx, i, ht)
        if kind == "segwit":
            return _call(sig_hash.segwit_v0, unhx(w["sc"]), tx, i, ht, w["amount"])
        return _call(sig_hash.taproot, tx, i, [mk_out(o) for o in outs], ht, w["ext_flag"], unhx(w["annex"]),
                     unhx(w["ext"]))
    a = digest(t, outs)
    t2 = {"version": t["version"], "lock_time": t["lock_time"], "vin": list(t["vin"]), "vout": list(t["vout"])}
    outs2 = list(outs)
    if what == "seq":
        x = t2["vin"][j]
        t2["vin"][j] = (x[0], x[1], x[2], x[3] ^ 1, x[4])
    elif what == "outpoint":
        x = t2["vin"][j]
        t2["vin"][j] = (x[0][:-1] + bytes([x[0][-1] ^ 1]), x[1], x[2], x[3], x[4]) if w.get("how") else \
            (x[0], x[1] ^ 1, x[2], x[3], x[4])
    elif what == "out":
        x = t2["vout"][j]
        t2["vout"][j] = (x[0] ^ 1, x[1]) if w.get("how") else (x[0], x[1] + b"\x51")
    elif what == "spent_amount":
        outs2[j] = (outs2[j][0] ^ 1, outs2[j][1])
    elif what == "spent_spk":
        outs2[j] = (outs2[j][0], outs2[j][1] + b"\x51")
    b = digest(t2, outs2)
    want = committed(kind, ht, i, what, j, len(t["vout"]))
    ok = a[0] == b[0] == "ok" and (a[1] != b[1]) == want
    return ok, (f"{kind} ht={hex(ht)} i={i}: editing {what}[{j}] "
                f"{'changed' if a[1] != b[1] else 'did not change'} the digest, the hash type "
                f"{'commits' if want else 'does not commit'} to it ({a[0]}/{b[0]})")


def _o_view_history(w):
    """A PsbtView answers from the stream, not from its history: what a caller does to `view.tx` /
    `view.prevouts` between two questions changes no digest, and a second `view.tx` is the first."""
    t = un_tx(w["tx"])
    outs = un_outs(w["outs"])
    i, ht, k = w["i"], w["ht"], w["k"]
    leaf = unhx(w["leaf"])
    p = _psbt_taproot_objects(t, outs, i, None)
    raw = p.serialize()

    def ask(v):
        if w["fn"] == "taproot":
            return v.taproot_sig_hash(i, leaf_hash=leaf, hash_type=ht)
        return v.ecdsa_sig_hash(i, hash_type=ht)
    want = _call(lambda: ask(PsbtView(raw)))
    want_tx = PsbtView(raw).tx.serialize(include_witness=True, check_validity=False)
    v = PsbtView(raw)
    got = []
    for step in w["steps"]:
        if step == "ask":
            got.append(_call(lambda: ask(v)))
        elif step == "edit-tx":
            x = v.tx
            x.vin[k].sequence ^= 1
            x.vin[k].prev_out = OutPoint(b"\x77" * 32, 7, check_validity=False)
            x.vin[k].script_sig = b"\x51"
            x.version ^= 1
            x.lock_time ^= 1
            if x.vout:
                x.vout[0] = TxOut(x.vout[0].value ^ 1, x.vout[0].script_pub_key, check_validity=False)
            x.vout.append(TxOut(1, b"\x51", check_validity=False))
            x.vin.append(x.vin[0])
        elif step == "edit-prevouts":
            x = v.prevouts
            x[k] = TxOut(x[k].value ^ 1, b"\x51", check_validity=False)
            x.pop()
    now_tx = v.tx.serialize(include_witness=True, check_validity=False)
    ok = all(g == want for g in got) and now_tx == want_tx and want[0] == "ok"
    return ok, f"{w['fn']} steps={w['steps']}: fresh view {want}, this view {got}, tx unchanged={now_tx == want_tx}"


def _o_core_vector(w):
    tx = Tx.parse(w["raw"])
    r = _call(sig_hash.legacy, w["script"], tx, w["i"], w["ht"])
    return r == ("ok", bytes.fromhex(w["exp"])[::-1]), f"legacy -> {r}, Core says {w['exp']}"


def _o_bip_vector(w):
    """The real code on the published BIP143 / BIP341 examples."""
    tx = mk_tx(un_tx(w["tx"]))
    outs = [mk_out(o) for o in un_outs(w["outs"])]
    r = _call(sig_hash.from_tx, outs, tx, w["i"], w["ht"], codesep_index=w.get("codesep", 0))
    return r == ("ok", bytes.fromhex(w["exp"])), f"{w['name']}: from_tx -> {r}, the BIP says {w['exp']}"


# ------------------------------------------------------------------ reference dispatch (BIP16 / BIP141 / BIP143 / BIP341 texts)
# Written from the BIPs with hashlib alone: no btclib parser, predicate or hash is called to DECIDE anything here.
# The oracles below call the real `from_tx` and the real single-algorithm function the reference names, so a
# wrong dispatch decision of from_tx (which algorithm, which script code, which annex / extension) is exhibited
# as a concrete failing input even when model and code agree with each other.
def _sha256(b: bytes) -> bytes:
    return hashlib.sha256(b).digest()


def _ref_hash160(b: bytes) -> bytes:
    return hashlib.new("ripemd160", _sha256(b)).digest()


def _ref_tagged(tag: bytes, msg: bytes) -> bytes:
    t = _sha256(tag)
    return _sha256(t + t + msg)


def _ref_compact(n: int) -> bytes:
    if n < 253:
        return bytes([n])
    if n <= 0xFFFF:
        return b"\xfd" + n.to_bytes(2, "little")
    if n <= 0xFFFFFFFF:
        return b"\xfe" + n.to_bytes(4, "little")
    return b"\xff" + n.to_bytes(8, "little")


def ref_annex_and_ext(stack):
    """BIP341: "If there are at least two witness elements, and the first byte of the last element is 0x50, this
    last element is called annex and is removed from the witness stack"; "if there is exactly one element left
    [...] key path spending"; "at least two witness elements left, script path spending": the last is the control
    block c, the second-to-last the script s, leaf version c[0] & 0xfe, tapleaf hash = hash_TapLeaf(v || compact_size(s) || s);
    BIP342 extension: tapleaf_hash || key_version 0 || codesep_pos 0xffffffff.  None = nothing to sign (no element)."""
    stack = list(stack)
    if not stack:
        return None
    annex = b""
    if len(stack) >= 2 and stack[-1][:1] == b"\x50":
        annex = stack.pop()
    if len(stack) == 1:
        return annex, b""
    cb, script = stack[-1], stack[-2]
    if not cb:
        return None
    leaf = _ref_tagged(b"TapLeaf", bytes([cb[0] & 0xFE]) + _ref_compact(len(script)) + script)
    return annex, leaf + b"\x00" + b"\xff\xff\xff\xff"


def ref_ops(script: bytes):
    """Core's GetOp walk: [(opcode, pushed data or None, end offset)], and whether the whole script was readable."""
    out, i, n = [], 0, len(script)
    while i < n:
        op = script[i]
        i += 1
        data = None
        if 1 <= op <= 78:
            if op <= 75:
                size = op
            else:
                w = {76: 1, 77: 2, 78: 4}[op]
                if n - i < w:
                    return out, False
                size = int.from_bytes(script[i:i + w], "little")
                i += w
            if n - i < size:
                return out, False
            data = script[i:i + size]
            i += size
        out.append((op, data, i))
    return out, True


def ref_after_codesep(script: bytes, k: int):
    """The script's bytes after the k-th OP_CODESEPARATOR operation (k = 0: the whole script); None: there is none."""
    if k < 0:
        return None
    if k == 0:
        return script
    found = 0
    for op, _, end in ref_ops(script)[0]:
        if op == 0xAB:
            found += 1
            if found == k:
                return script[end:]
    return None


def ref_bip341(t, i, outs, ht, annex: bytes, ext: bytes):
    """BIP341 "Common signature message" + BIP342's extension, transcribed from the BIP text with hashlib alone;
    None where the BIP says the signature validation fails (undefined hash_type, SIGHASH_SINGLE without a
    corresponding output).  `i` names an input, one spent output per input."""
    if ht not in (0, 1, 2, 3, 0x81, 0x82, 0x83):
        return None
    le = lambda x, n: (x % (1 << (8 * n))).to_bytes(n, "little")  # noqa: E731
    ser_out = lambda o: le(o[0], 8) + _ref_compact(len(o[1])) + o[1]  # noqa: E731
    acp, base = ht & 0x80, ht & 3
    m = bytes([ht]) + le(t["version"], 4) + le(t["lock_time"], 4)
    if acp != 0x80:
        m += _sha256(b"".join(v[0] + le(v[1], 4) for v in t["vin"]))
        m += _sha256(b"".join(le(o[0], 8) for o in outs))
        m += _sha256(b"".join(_ref_compact(len(o[1])) + o[1] for o in outs))
        m += _sha256(b"".join(le(v[3], 4) for v in t["vin"]))
    if base not in (2, 3):
        m += _sha256(b"".join(ser_out(o) for o in t["vout"]))
    m += bytes([(2 if ext else 0) + (1 if annex else 0)])
    if acp == 0x80:
        v = t["vin"][i]
        m += v[0] + le(v[1], 4) + le(outs[i][0], 8) + _ref_compact(len(outs[i][1])) + outs[i][1] + le(v[3], 4)
    else:
        m += le(i, 4)
    if annex:
        m += _sha256(_ref_compact(len(annex)) + annex)
    if base == 3:
        if i >= len(t["vout"]):
            return None
        m += _sha256(ser_out(t["vout"][i]))
    return _ref_tagged(b"TapSighash", b"\x00" + m + ext)


def _o_bip341_reference(w):
    """sig_hash.taproot against the harness's own transcription of BIP341/342 (script path and annex included:
    no published vector covers them in this sandbox)."""
    t = un_tx(w["tx"])
    outs = un_outs(w["outs"])
    annex, ext = unhx(w["annex"]), unhx(w["ext"])
    got = _call(sig_hash.taproot, mk_tx(t), w["i"], [mk_out(o) for o in outs], w["ht"], int(bool(ext)), annex, ext)
    want = ref_bip341(t, w["i"], outs, w["ht"], annex, ext)
    ok = got == ("err", "value") if want is None else got == ("ok", want)
    return ok, f"taproot ht={hex(w['ht'])} annex={w['annex']} ext={w['ext'][:16]}: {got}, BIP341 reference {want.hex() if want else 'refuse'}"


def _is(spk: bytes, kind: str) -> bool:
    if kind == "p2sh":
        return len(spk) == 23 and spk[:2] == b"\xa9\x14" and spk[22:] == b"\x87"
    if kind == "p2wpkh":
        return len(spk) == 22 and spk[:2] == b"\x00\x14"
    if kind == "p2wsh":
        return len(spk) == 34 and spk[:2] == b"\x00\x20"
    return len(spk) == 34 and spk[:2] == b"\x51\x20"   # p2tr


def ref_dispatch(t, outs, i, codesep):
    """What from_tx must do for input `i` (in range, one prevout per input): ("taproot", annex, ext) |
    ("segwit", script_code, amount) | ("legacy", script_code) | ("refuse", why)."""
    amount, spk = outs[i]
    _, _, script_sig, _, stack = t["vin"][i]
    if _is(spk, "p2tr"):
        if codesep:
            return ("refuse", "codeseparator index for a taproot input")
        ae = ref_annex_and_ext(stack)
        return ("refuse", "empty stack / empty control block") if ae is None else ("taproot", ae[0], ae[1])
    script = spk
    if _is(spk, "p2sh"):
        # BIP16: the redeem script is the data of the LAST operation of the scriptSig, which must be a push
        ops, whole = ref_ops(script_sig)
        if not whole or not ops or ops[-1][1] is None:
            return ("refuse", "no redeem script push at the end of the scriptSig")
        script = ops[-1][1]
        if _ref_hash160(script) != spk[2:22]:
            return ("refuse", "redeem script hash")
    if _is(script, "p2wpkh"):
        if codesep:
            return ("refuse", "codeseparator index for p2wpkh")
        # BIP143: "For P2WPKH witness program, the scriptCode is 0x1976a914{20-byte-pubkey-hash}88ac"
        return ("segwit", b"\x76\xa9\x14" + script[2:] + b"\x88\xac", amount)
    if _is(script, "p2wsh"):
        if not stack:
            return ("refuse", "empty p2wsh stack")
        sc = ref_after_codesep(stack[-1], codesep)
        return ("refuse", "no such codeseparator") if sc is None else ("segwit", sc, amount)
    if _is(script, "p2tr"):
        return ("refuse", "taproot wrapped in p2sh")
    sc = ref_after_codesep(script, codesep)
    return ("refuse", "no such codeseparator") if sc is None else ("legacy", sc)


def _o_from_tx_dispatch(w):
    """Every dispatch decision of from_tx, on the real code alone: from_tx(prevouts, tx, i, ht) must be the
    single-algorithm function the reference dispatch names, called DIRECTLY with the script code / amount /
    annex / extension the reference derives from the prevout script, scriptSig and witness stack -- and a
    refusal where the reference refuses."""
    t = un_tx(w["tx"])
    outs_l = un_outs(w["outs"])
    i, ht, k = w["i"], w["ht"], w.get("codesep", 0)
    tx = mk_tx(t)
    outs = [mk_out(o) for o in outs_l]
    got = _call(sig_hash.from_tx, outs, tx, i, ht, codesep_index=k)
    d = ref_dispatch(t, outs_l, i, k)
    if d[0] == "refuse":
        return got == ("err", "value"), f"reference refuses ({d[1]}); from_tx -> {got}"
    if d[0] == "taproot":
        want = _call(sig_hash.taproot, tx, i, outs, ht, int(bool(d[2])), d[1], d[2])
        how = f"taproot(annex={d[1].hex() or '_'}, ext={'script path' if d[2] else 'key path'})"
    elif d[0] == "segwit":
        want = _call(sig_hash.segwit_v0, d[1], tx, i, ht, d[2])
        how = f"segwit_v0(script_code={d[1].hex()}, amount={d[2]})"
    else:
        want = _call(sig_hash.legacy, d[1], tx, i, ht)
        how = f"legacy(script_code={d[1].hex()})"
    ok = got == want and (got[0] == "ok" or got[1] == "value")
    return ok, (f"{w.get('kind', '')}: stack {[x.hex() for x in t['vin'][i][4]]}: from_tx -> {got}, "
                f"direct {how} -> {want}")


def _o_annex_ext(w):
    """taproot_annex_and_ext against BIP341's text (reference routine), stack by stack."""
    stack = [unhx(x) for x in w["stack"]]
    tx = Tx(2, 0, [TxIn(OutPoint(b"\x01" * 32, 0, check_validity=False), b"", 0,
                        Witness(stack, check_validity=False), check_validity=False)], [], check_validity=False)
    got = _call(sig_hash.taproot_annex_and_ext, tx, 0)
    want = ref_annex_and_ext(stack)
    ok = got == ("err", "value") if want is None else got == ("ok", want)
    return ok, f"stack {w['stack']}: taproot_annex_and_ext -> {got}, BIP341 says {want}"


def _o_redeem(w):
    """redeem_script against BIP16's text (reference routine)."""
    ss, spk = unhx(w["ss"]), unhx(w["spk"])
    got = _call(sig_hash.redeem_script, ss, spk)
    ops, whole = ref_ops(ss)
    want = None
    if whole and ops and ops[-1][1] is not None and _ref_hash160(ops[-1][1]) == spk[2:22]:
        want = ops[-1][1]
    ok = got == ("err", "value") if want is None else got == ("ok", want)
    return ok, f"redeem_script({w['ss']}, {w['spk']}) -> {got}, BIP16 says {want.hex() if want is not None else 'refuse'}"


def _o_psbt_index(w):
    """An input index outside the psbt's input maps is refused with BTClibValueError by psbt.ecdsa_sig_hash /
    taproot_sig_hash and both PsbtView methods (regression of psbt.sig_hash.vin_i_out_of_range: past the inputs
    it was an IndexError, and a negative index hashed an input counted from the end), and a non-integer index
    with BTClibTypeError."""
    t = un_tx(w["tx"])
    i, ht = w["i"], w["ht"]
    if w["fn"] == "ecdsa":
        p = _psbt_ecdsa_objects(t, w["real_i"], un_out(w["out"]), unhx(w["redeem"]), unhx(w["wscript"]), w["nwu"], None)
        calls = [lambda j: psbt_mod.ecdsa_sig_hash(p, j, hash_type=ht),
                 lambda j: PsbtView(p.serialize()).ecdsa_sig_hash(j, hash_type=ht)]
    else:
        p = _psbt_taproot_objects(t, un_outs(w["outs"]), 0, None)
        leaf = unhx(w["leaf"])
        calls = [lambda j: psbt_mod.taproot_sig_hash(p, j, leaf_hash=leaf, hash_type=ht),
                 lambda j: PsbtView(p.serialize()).taproot_sig_hash(j, leaf_hash=leaf, hash_type=ht)]
    got = [_call(c, i) for c in calls]
    typed = [_call(calls[0], "0"), _call(calls[0], 0.0)]
    ok = all(g == ("err", "value") for g in got) and all(g == ("err", "type") for g in typed)
    return ok, f"{w['fn']} index {i} of {len(t['vin'])} inputs: psbt / view -> {got}; index '0' / 0.0 -> {typed}"


def ref_find_and_delete(script: bytes, b: bytes):
    """Core's FindAndDelete, transcribed from interpreter.cpp on the REST of the script (no offsets): skip the
    copies of b standing here, keep one whole operation, go on; (result, nFound)."""
    if not b:
        return script, 0
    out, found, rest = b"", 0, script
    while True:
        while len(rest) >= len(b) and rest[:len(b)] == b:
            rest = rest[len(b):]
            found += 1
        n = _one_op_len(rest)
        if n == 0:
            break
        out += rest[:n]
        rest = rest[n:]
    return (out + rest, found) if found else (script, 0)


def _one_op_len(s: bytes) -> int:
    """Length of the operation GetOp reads at the head of s; 0 where it reads none."""
    if not s:
        return 0
    op = s[0]
    if not 1 <= op <= 78:
        return 1
    if op <= 75:
        n = 1 + op
    else:
        w = {76: 1, 77: 2, 78: 4}[op]
        if len(s) < 1 + w:
            return 0
        n = 1 + w + int.from_bytes(s[1:1 + w], "little")
    return n if n <= len(s) else 0


def _o_find_and_delete(w):
    """find_and_delete / calculate_script_code + legacy on the real code against Core's definition: the digest of a
    pre-segwit signature check is legacy over the script (from the offset) with each signature's push removed."""
    s, sigs, off = unhx(w["s"]), [unhx(x) for x in w["sigs"]], w["off"]
    want = s[off:]
    any_found = False
    for sig in sigs:
        needle = (bytes([len(sig)]) if len(sig) < 76 else b"\x4c" + bytes([len(sig)])) + sig
        got1 = _call(engine_script.find_and_delete, want, needle)
        ref1 = ref_find_and_delete(want, needle)
        if got1 != ("ok", ref1):
            return False, f"find_and_delete({want.hex()}, {needle.hex()}) -> {got1}, Core's definition {ref1}"
        any_found = any_found or ref1[1] > 0
        want = ref1[0]
    lax = _call(engine_script.calculate_script_code, s, off, sigs, False, False)
    strict = _call(engine_script.calculate_script_code, s, off, sigs, True, False)
    seg = _call(engine_script.calculate_script_code, s, off, sigs, True, True)
    ok = lax == ("ok", want) and strict == (("err", "value") if any_found else ("ok", want)) and seg == ("ok", s[off:])
    return ok, f"calculate_script_code({w['s']}, {off}, {w['sigs']}): lax {lax} strict {strict} segwit {seg}; Core: {want.hex()} found={any_found}"


ORACLES = {
    "bip.vectors": _o_bip_vector,
    "precomputed=direct": _o_precomputed,
    "declared-error.refused": _o_refused,
    "legacy.single-bug": _o_single_bug,
    "codesep.strip": _o_strip,
    "psbt=direct": _o_psbt_direct,
    "psbt.taproot=direct": _o_psbt_taproot_direct,
    "core.sighash.json": _o_core_vector,
    "commitment": _o_commitment,
    "psbtview.history": _o_view_history,
    "from_tx.dispatch": _o_from_tx_dispatch,
    "annex_and_ext.bip341": _o_annex_ext,
    "redeem_script.bip16": _o_redeem,
    "bip341.reference": _o_bip341_reference,
    "psbt.index.refused": _o_psbt_index,
    "find_and_delete.core": _o_find_and_delete,
}


# ------------------------------------------------------------------ streams
def wire_tx_tok(tx: Tx) -> str:
    """A parsed btclib Tx as a protocol token."""
    return tok_tx({"version": tx.version, "lock_time": tx.lock_time,
                   "vin": [(i.prev_out.tx_id[::-1], i.prev_out.vout, i.script_sig, i.sequence,
                            list(i.script_witness.stack)) for i in tx.vin],
                   "vout": [(o.value, o.script_pub_key.script) for o in tx.vout]})


def s_core_vectors(ctx):
    path = "/repo/tests/script/_data/sig_hash_legacy_test_vectors.json"
    if not os.path.exists(path):
        ctx.note("Core sighash.json not found under /repo/tests")
        return
    rows = json.load(open(path))[1:]
    if ctx.tier != "thorough":
        rows = rows[:: max(1, len(rows) // 120)]
    lines, published = [], []
    for raw, script, i, ht, exp in rows:
        ctx.check("core.sighash.json", {"raw": raw, "script": script, "i": i, "ht": ht, "exp": exp})
        lines.append(f"legacy {hx(bytes.fromhex(script))} {wire_tx_tok(Tx.parse(raw))} {i} {ht}")
        # Core's number straight at the SPECIFICATION (no btclib-shaped function on the line)
        published.append((f"spec.legacy.digest {hx(bytes.fromhex(script))} {wire_tx_tok(Tx.parse(raw))} {i} {ht}",
                          "ok " + bytes.fromhex(exp)[::-1].hex()))
    ctx.stream("legacy.core-vectors", lines)
    ctx.correspond("core-vectors.spec=published", EXE, published)


def s_bip_vectors(ctx):
    """BIP143's examples and BIP341's key path wallet vectors (corpus/C09): real code = published digest (oracle),
    btclib-shaped model = real code (stream), SPECIFICATION preimage / digest = the published bytes (stream whose
    expected side is the BIP's number, not btclib's)."""
    d = os.path.join(common.ROOT, "corpus", "C09")
    lines, published, direct = [], [], []
    for v in json.load(open(os.path.join(d, "bip143_vectors.json")))["vectors"]:
        tx = Tx.parse(v["tx"])
        for k, x in v["script_sigs"].items():
            tx.vin[int(k)].script_sig = bytes.fromhex(x)
        for k, x in v["witnesses"].items():
            tx.vin[int(k)].script_witness = Witness(x)
        outs = tok_outs([(a, bytes.fromhex(x)) for a, x in v["utxos"]])
        ctx.check("bip.vectors", {"name": "BIP143 " + v["name"], "tx": wire_tx_tok(tx), "outs": outs, "i": v["i"],
                                  "ht": v["ht"], "codesep": v["codesep"], "exp": v["expected"]})
        line = f"fromtx {outs} {wire_tx_tok(tx)} {v['i']} {v['ht']} 0 {v['codesep']}"
        lines.append(line)
        published.append((line, "ok " + v["expected"]))
        # the published digest straight at the SPECIFICATION: script code and amount by the reference dispatch
        # (BIP16/141/143 texts), no btclib-shaped function on the line
        rd = ref_dispatch(un_tx(wire_tx_tok(tx)), [(a, bytes.fromhex(x)) for a, x in v["utxos"]], v["i"], v["codesep"])
        if rd[0] != "segwit":
            raise common.HarnessError(f"BIP143 vector {v['name']}: reference dispatch says {rd[0]}")
        direct.append((f"spec.bip143.digest {hx(rd[1])} {wire_tx_tok(tx)} {v['i']} {v['ht']} {rd[2]}", "ok " + v["expected"]))
    k = json.load(open(os.path.join(d, "bip341_keypath_vectors.json")))
    tx = Tx.parse(k["rawUnsignedTx"])
    for x in tx.vin:
        x.script_witness = Witness([b"\x00" * 64])   # a key path stack: one element, no annex
    outs_l = [(u["amountSats"], bytes.fromhex(u["scriptPubKey"])) for u in k["utxosSpent"]]
    outs = tok_outs(outs_l)
    for sp in k["inputSpending"]:
        i, ht = sp["txinIndex"], sp["hashType"]
        ctx.check("bip.vectors", {"name": f"BIP341 key path input {i} type {ht}", "tx": wire_tx_tok(tx), "outs": outs,
                                  "i": i, "ht": ht, "exp": sp["sigHash"]})
        line = f"fromtx {outs} {wire_tx_tok(tx)} {i} {ht} 0 0"
        lines.append(line)
        published.append((line, "ok " + sp["sigHash"]))
        published.append((f"spec.bip341 {wire_tx_tok(tx)} {i} {outs} {ht} _ _", "ok " + sp["sigMsg"]))
        direct.append((f"spec.bip341.digest {wire_tx_tok(tx)} {i} {outs} {ht} _ _", "ok " + sp["sigHash"]))
    # BIP143 prints the preimage of its SIGHASH_SINGLE-past-the-last-output example
    v = json.load(open(os.path.join(d, "bip143_vectors.json")))
    if "preimages" in v:
        for p in v["preimages"]:
            published.append((f"spec.bip143 {p['sc']} {wire_tx_tok(Tx.parse(p['tx']))} {p['i']} {p['ht']} {p['amount']}",
                              "ok " + p["preimage"]))
    ctx.stream("bip-vectors.from_tx", lines)
    ctx.correspond("bip-vectors.model=published", EXE, published)
    ctx.correspond("bip-vectors.spec=published", EXE, direct)
    s_signed_script_path(ctx)


def s_signed_script_path(ctx):
    """A script path spend made by Bitcoin Core (corpus/C09/bip341_scriptpath_signed.json): no digest is published
    for it, but its witness carries a BIP340 signature, so the SPECIFICATION's digest (extension by the reference
    routine, no btclib sig_hash function involved) is the right one iff the signature verifies against it under
    the leaf's key.  The verifier is btclib's ssa (property C03's)."""
    from btclib.ecc import ssa
    v = json.load(open(os.path.join(common.ROOT, "corpus", "C09", "bip341_scriptpath_signed.json")))
    tx = Tx.parse(v["tx"])
    i = v["index"]
    stack = [bytes.fromhex(x) for x in v["witness"]]
    tx.vin[i].script_witness = Witness(stack)
    pouts = [TxOut.parse(x) for x in v["prevouts"]]
    outs = tok_outs([(o.value, o.script_pub_key.script) for o in pouts])
    sig, ht = stack[0][:64], stack[0][64]
    annex, ext = ref_annex_and_ext(stack)
    script = stack[-2]
    ops, whole = ref_ops(script)
    key = ops[1][1]   # OP_DROP <key> OP_CHECKSIG
    line = f"spec.bip341.digest {wire_tx_tok(tx)} {i} {outs} {ht} {hx(annex)} {hx(ext)}"
    out = ctx.model(EXE, [line])
    real = _call(sig_hash.from_tx, pouts, tx, i, ht)
    if out is None:
        return
    ok, detail = False, f"specification answered {out[0]}"
    if out[0].startswith("ok "):
        digest = bytes.fromhex(out[0][3:])
        try:
            ssa.assert_as_valid_(digest, key, sig)
            ok = real == ("ok", digest)
            detail = f"signature verifies against the specification's digest {digest.hex()}; from_tx -> {real}"
        except Exception as e:  # noqa: BLE001
            detail = f"signature does NOT verify against the specification's digest {digest.hex()}: {e}"
    ctx.oracle("bip341.scriptpath.signed", ok and whole, detail, witness={"line": line[:200]})


def s_spec_preimages(ctx):
    """The specification's PREIMAGE BYTES against the bytes the real code hashes (observed at its final hash)."""
    rng = ctx.rng
    lines, ref = [], []
    for _ in range(ctx.n(600)):
        t = g_tx(rng)
        n = len(t["vin"])
        i = rng.randrange(n)
        r = rng.random()
        if r < 0.35:
            ht = g_ht32(rng)
            if rng.random() < 0.5:
                ht = (ht & ~0x9F) | rng.choice([1, 2, 3, 0x81, 0x82, 0x83])
            lines.append(f"spec.legacy {hx(g_script(rng))} {tok_tx(t)} {i} {ht}")
        elif r < 0.65:
            ht = g_ht32(rng)
            lines.append(f"spec.bip143 {hx(g_script(rng))} {tok_tx(t)} {i} {ht} {g_i64(rng)}")
        else:
            ht = rng.choice(SEVEN)
            if (ht & 3) == 3 and i >= len(t["vout"]):
                ht = 0x81
            ext = rng.choice([b"", common.rand_bytes(rng, 32) + bytes([rng.choice([0, 1])]) +
                              rng.getrandbits(32).to_bytes(4, "little")])
            annex = rng.choice([b"", b"\x50", b"\x50" + common.rand_bytes(rng, 300)])
            outs = g_prevouts(rng, n)
            lines.append(f"spec.bip341 {tok_tx(t)} {i} {tok_outs(outs)} {ht} {hx(annex)} {hx(ext)}")
            # the specification's digest against the harness's own transcription of BIP341/342 (script path and
            # annex included), and the real code against the same
            want = ref_bip341(t, i, outs, ht, annex, ext)
            ref.append((f"spec.bip341.digest {tok_tx(t)} {i} {tok_outs(outs)} {ht} {hx(annex)} {hx(ext)}", "ok " + want.hex()))
            ctx.count("bip341.reference", f"{hex(ht)}.{'annex' if annex else 'noannex'}.{'script' if ext else 'key'}")
            ctx.check("bip341.reference", {"tx": tok_tx(t), "i": i, "outs": tok_outs(outs), "ht": ht, "annex": hx(annex),
                                           "ext": hx(ext)})
    ctx.stream("spec.preimage", lines)
    ctx.correspond("spec.bip341=reference", EXE, ref)


def s_scripts(ctx):
    rng = ctx.rng
    strip, code = [], []
    for _ in range(ctx.n(1500)):
        s = g_script(rng, 8)
        strip.append(f"strip {hx(s)}")
        ctx.check("codesep.strip", {"s": hx(s)})
        code.append(f"codefrom {hx(s)} {rng.choice([-1, 0, 1, 1, 2, 2, 3, 5])}")
    # exhaustive small scripts over an alphabet that exercises every branch of the walker
    alpha = [0x00, 0x01, 0x02, 0x4C, 0x4D, 0x4E, SEP, 0x51]
    small = []

    def rec(p, n):
        small.append(bytes(p))
        if n:
            for a in alpha:
                rec(p + [a], n - 1)
    rec([], 4 if ctx.tier != "thorough" else 5)
    strip += [f"strip {hx(s)}" for s in small]
    code += [f"codefrom {hx(s)} {k}" for s in small for k in (1, 2)]
    ctx.exhaustive_streams.append(f"codesep.strip/codefrom: all scripts of length ≤ {4 if ctx.tier != 'thorough' else 5} over {alpha}")
    ctx.stream("codesep.strip", strip, nontrivial=lambda ln, out: SEP in unhx(ln.split(" ")[1]))
    ctx.stream("codesep.codefrom", code)


def s_legacy(ctx):
    rng = ctx.rng
    lines = []
    # every low byte x {0, high bits} on one mid-size transaction shape per byte
    for low in range(256):
        for hi in (0, rng.getrandbits(24) << 8, 0xFFFFFF00):
            t = g_tx(rng)
            v = hi | low
            if rng.random() < 0.5 and v >= 2**31:
                v -= 2**32
            lines.append(f"legacy {hx(g_script(rng))} {tok_tx(t)} {rng.randrange(len(t['vin']))} {v}")
    for _ in range(ctx.n(1200)):
        bad = 0.04 if rng.random() < 0.3 else 0.0
        t = g_tx(rng, bad=bad)
        ht = g_ht32(rng) if rng.random() < 0.9 else rng.choice([2**32, -(2**31) - 1, 2**31, -(2**31), 2**32 - 1, -1])
        i = g_index(rng, len(t["vin"]))
        if rng.random() < 0.4:   # steer towards SINGLE / NONE / ACP boundaries
            ht = (ht & ~0x9F) | rng.choice([1, 2, 3, 0x81, 0x82, 0x83, 0, 4, 0x1F])
        sc = g_script(rng)
        lines.append(f"legacy {hx(sc)} {tok_tx(t)} {i} {ht}")
        if (ht & 0x1F) == 3 and 0 <= i < len(t["vin"]) and i >= len(t["vout"]) and -(2**31) <= ht < 2**32:
            ctx.check("legacy.single-bug", {"sc": hx(sc), "tx": tok_tx(t), "i": i, "ht": ht})
        if not (0 <= i < len(t["vin"])) or not (-(2**31) <= ht < 2**32):
            ctx.check("declared-error.refused", {"kind": "legacy", "sc": hx(sc), "tx": tok_tx(t), "i": i, "ht": ht,
                                                 "why": "index or hash type out of range"})
    ctx.stream("legacy", lines)


def s_segwit(ctx):
    rng = ctx.rng
    lines = []
    for low in range(256):
        for hi in (0, rng.getrandbits(24) << 8):
            t = g_tx(rng)
            pre = tok_outs(g_prevouts(rng, len(t["vin"]))) if rng.random() < 0.5 else "."
            lines.append(f"segwit {hx(g_script(rng))} {tok_tx(t)} {rng.randrange(len(t['vin']))} {hi | low} {g_i64(rng)} {pre}")
    for _ in range(ctx.n(1200)):
        bad = 0.04 if rng.random() < 0.3 else 0.0
        t = g_tx(rng, bad=bad)
        ht = g_ht32(rng) if rng.random() < 0.9 else rng.choice([2**32, -(2**31) - 1, -1])
        if rng.random() < 0.4:
            ht = (ht & ~0x9F) | rng.choice([1, 2, 3, 0x81, 0x82, 0x83, 0, 4, 0x1F])
        i = g_index(rng, len(t["vin"]))
        amount = g_i64(rng, 0.05)
        sc = g_script(rng)
        n_pre = len(t["vin"]) if rng.random() < 0.9 else rng.randrange(8)
        outs = g_prevouts(rng, n_pre, bad)
        pre = tok_outs(outs) if rng.random() < 0.5 else "."
        lines.append(f"segwit {hx(sc)} {tok_tx(t)} {i} {ht} {amount} {pre}")
        ctx.check("precomputed=direct", {"kind": "segwit", "sc": hx(sc), "tx": tok_tx(t), "outs": tok_outs(outs),
                                         "i": i, "ht": ht, "amount": amount})
        if not (0 <= i < len(t["vin"])) or not (-(2**31) <= ht < 2**32) or not (-(2**63) <= amount < 2**63):
            ctx.check("declared-error.refused", {"kind": "segwit", "sc": hx(sc), "tx": tok_tx(t), "i": i, "ht": ht,
                                                 "amount": amount, "why": "index, hash type or amount out of range"})
    ctx.stream("segwit_v0", lines)


def g_ext(rng):
    r = rng.random()
    if r < 0.45:
        return 0, b""
    if r < 0.9:
        return 1, common.rand_bytes(rng, 32) + bytes([rng.choice([0, 0, 1, 0xFF])]) + \
            rng.choice([0xFFFFFFFF, 0, 1, rng.getrandbits(32)]).to_bytes(4, "little")
    return rng.choice([0, 1, 2, 0x7F, 0x80, -1]), common.rand_bytes(rng, rng.choice([0, 1, 37, 40]))


def s_taproot(ctx):
    rng = ctx.rng
    lines = []

    def one(ht, annex, ext_flag, ext, bad=0.0, i=None, short=False):
        t = g_tx(rng, bad=bad)
        n = len(t["vin"])
        i = g_index(rng, n) if i is None else i
        outs = g_prevouts(rng, n if not short else rng.randrange(0, 8), bad)
        pre = rng.choice(["0", "1"])
        w = {"kind": "taproot", "tx": tok_tx(t), "outs": tok_outs(outs), "i": i, "ht": ht, "ext_flag": ext_flag,
             "annex": hx(annex), "ext": hx(ext)}
        lines.append(f"taproot {w['tx']} {i} {w['outs']} {ht} {ext_flag} {w['annex']} {w['ext']} {pre}")
        ctx.check("precomputed=direct", w)
        if len(outs) != n and ht in (0x82, 0x83) and 0 <= i < n and i >= len(outs):
            # regression of the repaired defect (was an IndexError): ANYONECANPAY|NONE / |SINGLE with fewer
            # prevouts than the index
            ctx.check("declared-error.refused", dict(w, why="ANYONECANPAY with fewer prevouts than the index"),
                      key="taproot.acp.short-prevouts.IndexError")
        refused = (ht not in SEVEN or not 0 <= i < n or ((ht & 3) == 3 and i >= len(t["vout"])) or len(outs) != n)
        if refused:
            ctx.check("declared-error.refused", dict(w, why="undefined type, index out of range, SINGLE without output "
                                                           "or prevouts/inputs mismatch"))

    # the seven x annex x key/script path, several shapes each
    for ht in SEVEN:
        for annex in (b"", b"\x50", b"\x50" + common.rand_bytes(rng, 40)):
            for path in (0, 1):
                for _ in range(ctx.n(6, 40)):
                    ext = common.rand_bytes(rng, 32) + b"\x00\xff\xff\xff\xff" if path else b""
                    one(ht, annex, path, ext, i=None)
    for _ in range(ctx.n(900)):
        ht = rng.choice(SEVEN) if rng.random() < 0.8 else rng.choice([0x80, 4, 0x84, 0x1F, 0xFF, 0x100, -1, 0x101, 5])
        annex = rng.choice([b"", b"\x50", b"\x00", common.rand_bytes(rng, rng.randrange(1, 300))])
        ext_flag, ext = g_ext(rng)
        one(ht, annex, ext_flag, ext, bad=0.04 if rng.random() < 0.3 else 0.0, short=rng.random() < 0.12)
    # the repaired defect's class, deliberately (regression: must be refused with BTClibValueError)
    for ht in (0x82, 0x83):
        t = g_tx(rng, n_in=3, n_out=3)
        ctx.check("declared-error.refused",
                  {"kind": "taproot", "tx": tok_tx(t), "outs": tok_outs(g_prevouts(rng, 1)), "i": 2, "ht": ht,
                   "why": "ANYONECANPAY with fewer prevouts than the index"},
                  key="taproot.acp.short-prevouts.IndexError")
    ctx.stream("taproot", lines)


def p2sh(script: bytes) -> bytes:
    return b"\xa9\x14" + hash160(script) + b"\x87"


def p2wsh(script: bytes) -> bytes:
    return b"\x00\x20" + sha256(script)


def push(data: bytes) -> bytes:
    n = len(data)
    if n < 76 and n > 0:
        return bytes([n]) + data
    if n < 256:
        return b"\x4c" + bytes([n]) + data
    return b"\x4d" + n.to_bytes(2, "little") + data


def g_spend(rng):
    """(prevout script, script_sig, witness stack, label) of one input for from_tx."""
    kind = rng.choice(["legacy", "legacy", "p2sh", "p2wpkh", "p2wsh", "p2sh-p2wpkh", "p2sh-p2wsh", "p2tr-key",
                       "p2tr-script", "p2tr-annex"] * 3 + ["p2sh-bad", "p2sh-bad", "p2sh-p2tr", "p2wsh-empty", "p2tr-empty"])
    inner = g_script(rng, 5)
    if kind == "legacy":
        return inner if not sig_hash.is_p2tr(inner) else b"\x51", g_script(rng, 2), [], kind
    if kind == "p2sh":
        return p2sh(inner), push(b"\x01") + push(inner), [], kind
    if kind == "p2wpkh":
        return b"\x00\x14" + common.rand_bytes(rng, 20), b"", [b"\x30" * 71, b"\x02" * 33], kind
    if kind == "p2wsh":
        return p2wsh(inner), b"", [b"", inner], kind
    if kind == "p2sh-p2wpkh":
        r = b"\x00\x14" + common.rand_bytes(rng, 20)
        return p2sh(r), push(r), [b"\x30" * 8, b"\x02" * 33], kind
    if kind == "p2sh-p2wsh":
        r = p2wsh(inner)
        return p2sh(r), push(r), [b"\x01", inner], kind
    if kind == "p2tr-key":
        return b"\x51\x20" + common.rand_bytes(rng, 32), b"", [common.rand_bytes(rng, 64)], kind
    if kind == "p2tr-script":
        cb = bytes([rng.choice([0xC0, 0xC1, 0xFE, 0x50, 0x00])]) + common.rand_bytes(rng, 32)
        stack = [common.rand_bytes(rng, 3), inner, cb if rng.random() < 0.9 else b""]
        return b"\x51\x20" + common.rand_bytes(rng, 32), b"", stack, kind
    if kind == "p2tr-annex":
        cb = b"\xc0" + common.rand_bytes(rng, 32)
        annex = rng.choice([b"\x50", b"\x50" + common.rand_bytes(rng, 9), b"", b"\x51"])
        stack = rng.choice([[common.rand_bytes(rng, 64), annex], [b"\x01", inner, cb, annex], [annex]])
        return b"\x51\x20" + common.rand_bytes(rng, 32), b"", stack, kind
    if kind == "p2sh-bad":
        ss = rng.choice([b"", b"\x51", push(inner) + b"\x51", push(inner)[:-1] if inner else b"\x05\x01",
                         push(inner + b"\x00"), b"\x00", b"\x4c\x00"])
        return p2sh(inner), ss, [], kind
    if kind == "p2sh-p2tr":
        r = b"\x51\x20" + common.rand_bytes(rng, 32)
        return p2sh(r), push(r), [common.rand_bytes(rng, 64)], kind
    if kind == "p2wsh-empty":
        return p2wsh(inner), b"", [], kind
    return b"\x51\x20" + common.rand_bytes(rng, 32), b"", [], kind


def s_from_tx(ctx):
    rng = ctx.rng
    lines, redeem, annex, lines2 = [], [], [], []
    for _ in range(ctx.n(1200)):
        bad = 0.02 if rng.random() < 0.2 else 0.0
        t = g_tx(rng, bad=bad)
        n = len(t["vin"])
        outs, kinds = [], []
        for j in range(n):
            spk, ss, stack, kind = g_spend(rng)
            a = t["vin"][j]
            t["vin"][j] = (a[0], a[1], ss, a[3], stack)
            outs.append((g_i64(rng), spk))
            kinds.append(kind)
            ctx.count("from_tx.kinds", kind)
            if kind.startswith("p2sh"):
                redeem.append(f"redeem {hx(ss)} {hx(spk)}")
                ctx.check("redeem_script.bip16", {"ss": hx(ss), "spk": hx(spk)})
            if kind.startswith("p2tr"):
                annex.append("annexext " + ("/".join(hx(w) for w in stack) if stack else "."))
                ctx.check("annex_and_ext.bip341", {"stack": [hx(w) for w in stack]})
        if rng.random() < 0.05:
            outs = outs[:-1] if rng.random() < 0.5 else outs + [(1, b"")]
        i = g_index(rng, n)
        ht = rng.choice(SEVEN) if rng.random() < 0.7 else g_ht32(rng)
        k = 0 if rng.random() < 0.7 else rng.choice([1, 1, 2, 3, -1])
        lines.append(f"fromtx {tok_outs(outs)} {tok_tx(t)} {i} {ht} {rng.choice(['0', '1'])} {k}")
        if bad == 0.0 and 0 <= i < n and len(outs) == n:
            ctx.count("from_tx.dispatch", kinds[i] + (".codesep" if k else ""))
            ctx.check("from_tx.dispatch", {"kind": kinds[i], "tx": tok_tx(t), "outs": tok_outs(outs), "i": i, "ht": ht,
                                           "codesep": k})
    # every dispatch decision, deliberately: taproot stacks of 0..4 elements whose last element does / does not
    # start with 0x50 (annex) x the seven types; each previous-output type bare and P2SH-wrapped, with and
    # without a codeseparator index
    inner = b"\x51\xab\x01\xab\xab\x52"
    cb = b"\xc0" + bytes(range(32))
    elems = [bytes(range(64)), inner, cb, b"\x07"]
    for depth in range(5):
        for last in (None, b"\x50", b"\x50\x01\x02", b"\x51\x50", b""):
            stack = elems[:depth]
            if last is not None:
                if not stack:
                    continue
                stack = stack[:-1] + [last]
            for ht in SEVEN:
                t = g_tx(rng, n_in=rng.randrange(1, 4), n_out=3)
                n = len(t["vin"])
                i = rng.randrange(n)
                a = t["vin"][i]
                t["vin"][i] = (a[0], a[1], b"", a[3], stack)
                outs = g_prevouts(rng, n)
                outs[i] = (outs[i][0], b"\x51\x20" + common.rand_bytes(rng, 32))
                ctx.count("from_tx.dispatch", f"p2tr.depth{depth}." + ("plain" if last is None else "last=" + (hx(last[:1]))))
                ctx.check("from_tx.dispatch", {"kind": f"p2tr depth {depth}", "tx": tok_tx(t), "outs": tok_outs(outs),
                                               "i": i, "ht": ht, "codesep": 0})
                ctx.check("annex_and_ext.bip341", {"stack": [hx(x) for x in stack]})
                lines2.append(f"fromtx {tok_outs(outs)} {tok_tx(t)} {i} {ht} 0 0")
    h20 = bytes(range(20))
    table = [
        ("p2pkh", b"\x76\xa9\x14" + h20 + b"\x88\xac", b"", []),
        ("bare+codesep", inner, b"", []),
        ("p2sh", p2sh(inner), push(b"\x01") + push(inner), []),
        ("p2sh.nonminimal-push", p2sh(inner), b"\x4d" + len(inner).to_bytes(2, "little") + inner, []),
        ("p2wpkh", b"\x00\x14" + h20, b"", [b"\x30" * 71, b"\x02" * 33]),
        ("p2wsh", p2wsh(inner), b"", [b"", inner]),
        ("p2wsh.empty-stack", p2wsh(inner), b"", []),
        ("p2sh-p2wpkh", p2sh(b"\x00\x14" + h20), push(b"\x00\x14" + h20), [b"\x30" * 71, b"\x02" * 33]),
        ("p2sh-p2wsh", p2sh(p2wsh(inner)), push(p2wsh(inner)), [b"", inner]),
        ("p2sh-p2tr", p2sh(b"\x51\x20" + bytes(32)), push(b"\x51\x20" + bytes(32)), [bytes(64)]),
        ("p2sh.wrong-hash", p2sh(inner), push(inner + b"\x00"), []),
        ("p2sh.op-at-end", p2sh(inner), push(inner) + b"\x51", []),
        ("p2sh.truncated", p2sh(inner), push(inner)[:-1], []),
        ("p2sh.empty", p2sh(inner), b"", []),
        ("p2wpkh.21-byte-program", b"\x00\x15" + h20 + b"\x00", b"", [b"\x30", b"\x02"]),
        ("witness-v1.20-byte-program", b"\x51\x14" + h20, b"", [bytes(64)]),
    ]
    for name, spk, ss, stack in table:
        for k in (0, 1, 2, 3):
            for ht in (1, 2, 3, 0x81, 0x82, 0x83, 0, 0x1F, 0xFFFFFF03):
                t = g_tx(rng, n_in=rng.randrange(1, 4), n_out=2)
                n = len(t["vin"])
                i = rng.randrange(n)
                a = t["vin"][i]
                t["vin"][i] = (a[0], a[1], ss, a[3], stack)
                outs = g_prevouts(rng, n)
                outs[i] = (outs[i][0], spk)
                ctx.count("from_tx.dispatch", name + (".codesep" if k else ""))
                ctx.check("from_tx.dispatch", {"kind": name, "tx": tok_tx(t), "outs": tok_outs(outs), "i": i, "ht": ht,
                                               "codesep": k})
                lines2.append(f"fromtx {tok_outs(outs)} {tok_tx(t)} {i} {ht} 0 {k}")
    ctx.stream("from_tx.dispatch-table", lines2)
    ctx.stream("from_tx", lines)
    ctx.stream("redeem_script", redeem)
    ctx.stream("taproot_annex_and_ext", annex)


def valid_tx(rng):
    """A transaction Psbt.assert_valid accepts: money-range amounts, distinct outpoints."""
    n_in, n_out = rng.randrange(1, 7), rng.randrange(1, 7)
    vin = [(common.rand_bytes(rng, 31) + bytes([j]), rng.choice([0, 1, 2, 5]), b"", g_u32(rng), []) for j in range(n_in)]
    vout = [(rng.choice([0, 546, 10**8, rng.getrandbits(40)]), g_spk(rng)) for _ in range(n_out)]
    return {"version": rng.choice([1, 2, 3, 0xFFFFFFFF, 0]), "lock_time": g_u32(rng), "vin": vin, "vout": vout}


def g_psbt_case(rng):
    """One PSBT input description: (out, redeem, wscript, nwu, script code the digest should be over, how)."""
    inner = g_script(rng, 5) or b"\x51"
    kind = rng.choice(["legacy", "p2sh", "p2wpkh", "p2wsh", "p2sh-p2wpkh", "p2sh-p2wsh"])
    value = rng.choice([0, 546, 10**8, rng.getrandbits(40)])
    if kind == "legacy":
        spk = inner
        if any(f(spk) for f in (sig_hash.is_p2sh, sig_hash.is_p2wpkh, sig_hash.is_p2wsh, sig_hash.is_p2tr)):
            spk = b"\x51"
        return (value, spk), b"", b"", True, spk, "legacy", kind
    if kind == "p2sh":
        if any(f(inner) for f in (sig_hash.is_p2wpkh, sig_hash.is_p2wsh, sig_hash.is_p2tr)):
            inner = b"\x51"
        return (value, p2sh(inner)), inner, b"", True, inner, "legacy", kind
    h = common.rand_bytes(rng, 20)
    pkh = b"\x76\xa9\x14" + h + b"\x88\xac"
    if kind == "p2wpkh":
        return (value, b"\x00\x14" + h), b"", b"", rng.random() < 0.3, pkh, "segwit", kind
    if kind == "p2wsh":
        return (value, p2wsh(inner)), b"", inner, rng.random() < 0.3, inner, "segwit", kind
    if kind == "p2sh-p2wpkh":
        r = b"\x00\x14" + h
        return (value, p2sh(r)), r, b"", rng.random() < 0.3, pkh, "segwit", kind
    r = p2wsh(inner)
    return (value, p2sh(r)), r, inner, rng.random() < 0.3, inner, "segwit", kind


def s_psbt(ctx):
    rng = ctx.rng
    lines = []
    for _ in range(ctx.n(260, 3000)):
        t = valid_tx(rng)
        i = rng.randrange(len(t["vin"]))
        out, redeem, wscript, nwu, sc, how, kind = g_psbt_case(rng)
        if nwu:  # the outpoint must name the previous transaction
            ptx = prev_tx_for(out, t["vin"][i][1])
            a = t["vin"][i]
            t["vin"][i] = (ptx.id[::-1], a[1], a[2], a[3], a[4])
        ht = rng.choice(SEVEN[1:])
        ctx.count("psbt.kinds", kind)
        ctx.check("psbt=direct", {"tx": tok_tx(t), "i": i, "ht": ht, "out": tok_out(out), "redeem": hx(redeem),
                                  "wscript": hx(wscript), "nwu": nwu, "sc": hx(sc), "how": how})
        # the line: defaults and refusals too
        r = rng.random()
        sht = rng.choice([None, None, 1, 2, 3, 0x81, 0x82, 0x83])
        htl = rng.choice([None, None, ht, ht, ht]) if rng.random() < 0.88 else rng.choice([0, 4, 0x80, 0x84])
        if htl is None and rng.random() < 0.5:
            sht = rng.choice([None, 1, 0x83])
        o, rd, ws, nw = out, redeem, wscript, (1 if nwu else 0)
        if nw == 1 and rng.random() < 0.3:
            nw = 2   # both utxo fields, agreeing: the witness utxo is the one read
        if r < 0.08:
            o = None
        elif r < 0.16:
            rd = b""
        elif r < 0.24:
            ws = b""
        elif r < 0.30 and how == "legacy":
            nw = 0   # a non-witness spend described by a witness utxo alone
        elif r < 0.34:
            o = (out[0], b"\x51\x20" + common.rand_bytes(rng, 32))
            nw = 0
        il = i
        if rng.random() < 0.07:   # an index naming no input map (regression of psbt.sig_hash.vin_i_out_of_range)
            il = rng.choice([-1, -len(t["vin"]), len(t["vin"]), len(t["vin"]) + 1, 2**32])
            ctx.check("psbt.index.refused", {"fn": "ecdsa", "tx": tok_tx(t), "i": il, "ht": ht, "out": tok_out(out),
                                             "redeem": hx(redeem), "wscript": hx(wscript), "nwu": nwu, "real_i": i},
                      key="psbt.sig_hash.vin_i_out_of_range")
        ctx.count("psbt.ecdsa.utxo", ["witness_utxo", "non_witness_utxo", "both"][nw] if o else "none")
        lines.append(f"psbt.ecdsa {tok_out(o) if o else '.'} {hx(rd)} {hx(ws)} {nw} "
                     f"{'.' if sht is None else sht} {tok_tx(t)} {il} {'.' if htl is None else htl}")
    ctx.stream("psbt.ecdsa_sig_hash", lines)
    lines = []
    for _ in range(ctx.n(200, 2500)):
        t = valid_tx(rng)
        n = len(t["vin"])
        i = rng.randrange(n)
        outs = [(rng.choice([0, 546, rng.getrandbits(40)]), rng.choice([b"\x51\x20" + common.rand_bytes(rng, 32),
                                                                          b"\x00\x14" + common.rand_bytes(rng, 20)]))
                for _ in range(n)]
        leaf = rng.choice([b"", common.rand_bytes(rng, 32)])
        ht = rng.choice(SEVEN)
        sht = rng.choice([None, None, 0, 1, 2, 3, 0x81, 0x82, 0x83])
        oht = rng.choice([None, 0, 0, ht])   # explicit SIGHASH_DEFAULT must win over the input's own type
        eff = oht if oht is not None else (sht or 0)
        if (eff & 3) != 3 or i < len(t["vout"]):
            ctx.check("psbt.taproot=direct", {"tx": tok_tx(t), "outs": tok_outs(outs), "i": i, "ht": oht, "sht": sht,
                                              "leaf": hx(leaf)})
        htl = rng.choice([None, None, ht, ht]) if rng.random() < 0.9 else rng.choice([4, 0x80])
        il, outs_tok = i, tok_outs(outs)
        r = rng.random()
        if r < 0.07:
            il = rng.choice([-1, -n, n, n + 1, 2**32])
            ctx.check("psbt.index.refused", {"fn": "taproot", "tx": tok_tx(t), "i": il, "ht": ht, "outs": tok_outs(outs),
                                             "leaf": hx(leaf)}, key="psbt.sig_hash.vin_i_out_of_range")
        elif r < 0.14:   # one input map without a utxo: a taproot digest commits to every spent output
            k = rng.randrange(n)
            outs_tok = ",".join("-" if j == k else tok_out(o) for j, o in enumerate(outs))
        lines.append(f"psbt.taproot {'.' if sht is None else sht} {tok_tx(t)} {il} {outs_tok} {hx(leaf)} "
                     f"{'.' if htl is None else htl} {rng.choice(['0', '1'])}")
    ctx.stream("psbt.taproot_sig_hash", lines)


def s_commitment(ctx):
    rng = ctx.rng
    for _ in range(ctx.n(700)):
        kind = rng.choice(["legacy", "segwit", "segwit", "taproot"])
        t = g_tx(rng, n_in=rng.randrange(2, 6), n_out=rng.randrange(1, 6))
        n, m = len(t["vin"]), len(t["vout"])
        i = rng.randrange(n)
        w = {"kind": kind, "tx": tok_tx(t), "i": i, "sc": hx(g_script(rng)), "amount": g_i64(rng)}
        if kind == "taproot":
            ht = rng.choice(SEVEN)
            if (ht & 3) == 3 and i >= m:
                i = w["i"] = rng.randrange(min(n, m))
            path, ext = g_ext(rng)[0] & 1, b""
            if path:
                ext = common.rand_bytes(rng, 32) + b"\x00\xff\xff\xff\xff"
            w.update(outs=tok_outs(g_prevouts(rng, n)), ext_flag=path, ext=hx(ext),
                     annex=hx(rng.choice([b"", b"\x50\x01"])))
            whats = ["seq", "outpoint", "out", "spent_amount", "spent_spk"]
        else:
            # every value of the low five bits (the undefined ones too), with and without ANYONECANPAY / high bits
            ht = rng.randrange(32) | rng.choice([0, 0x80]) | rng.choice([0, 0, 0x20, 0x40, 0x60]) | \
                rng.choice([0, 0, rng.getrandbits(24) << 8])
            whats = ["seq", "seq", "outpoint", "out"]
        what = rng.choice(whats)
        others = [x for x in range(n) if x != i]
        j = rng.randrange(m) if what == "out" else (rng.randrange(n) if what.startswith("spent") else rng.choice(others))
        if what == "out" and rng.random() < 0.4 and i < m:
            j = i
        w.update(ht=ht, what=what, j=j, how=rng.choice([0, 1]))
        ctx.count("commitment", f"{kind}.{what}")
        ctx.check("commitment", w)


def s_view_history(ctx):
    rng = ctx.rng
    orders = [["ask", "edit-tx", "ask"], ["edit-tx", "ask"], ["ask", "edit-prevouts", "ask"], ["edit-prevouts", "ask"],
              ["edit-tx", "edit-prevouts", "ask", "edit-tx", "ask"]]
    for _ in range(ctx.n(60, 600)):
        t = valid_tx(rng)
        n = len(t["vin"])
        i = rng.randrange(n)
        fn = rng.choice(["taproot", "ecdsa"])
        outs = [(rng.choice([546, rng.getrandbits(40)]),
                 (b"\x51\x20" + common.rand_bytes(rng, 32)) if fn == "taproot" else (b"\x00\x14" + common.rand_bytes(rng, 20)))
                for _ in range(n)]
        ht = rng.choice(SEVEN if fn == "taproot" else SEVEN[1:])
        if (ht & 3) == 3 and i >= len(t["vout"]):
            ht = 1
        ctx.check("psbtview.history", {"tx": tok_tx(t), "outs": tok_outs(outs), "i": i, "ht": ht, "fn": fn,
                                       "leaf": hx(rng.choice([b"", common.rand_bytes(rng, 32)])) if fn == "taproot" else "_",
                                       "k": rng.randrange(n), "steps": rng.choice(orders)})


def s_find_and_delete(ctx):
    """FindAndDelete and the pre-segwit script code: scripts built around copies of the needle at operation
    boundaries, inside pushes, adjacent, overlapping what a deletion joins, truncated tails."""
    rng = ctx.rng
    fad, calc = [], []
    fixed = [(b"", b""), (b"\x00", b"\x00"), (b"\x02\x00\x00", b"\x00"), (b"\x01\x01\x01\x01", b"\x01\x01"),
             (b"\x03\x02\xff\x03\x02\xff\x03", b"\x02\xff\x03"), (b"\x02\xfe\xed\x51", b"\xfe\xed\x51"),
             (b"\x00\x02\xfe\xed\x51\x00", b"\x00"), (b"\x4c\x01\x01\x01\x01", b"\x01\x01"), (b"\x51", b"")]
    for sc, t in fixed:
        fad.append(f"fad {hx(sc)} {hx(t)}")
    for _ in range(ctx.n(500)):
        sigs = [common.rand_bytes(rng, rng.choice([0, 1, 1, 2, 3, 9, 71, 76])) for _ in range(rng.choice([1, 1, 1, 2, 3]))]
        needles = [push(x) if x else b"\x00" for x in sigs]
        needle = rng.choice(needles) if rng.random() < 0.85 else common.rand_bytes(rng, rng.randrange(0, 4))
        parts = []
        for _ in range(rng.randrange(1, 9)):
            r = rng.random()
            if r < 0.35:
                parts.append(rng.choice(needles))
            elif r < 0.5:
                parts.append(push(rng.choice(needles) + common.rand_bytes(rng, rng.randrange(3))))
            elif r < 0.6:
                parts.append(bytes([SEP]))
            else:
                parts.append(g_chunk(rng))
        sc = b"".join(parts)
        if rng.random() < 0.2 and sc:
            sc = sc[: rng.randrange(len(sc))]
        fad.append(f"fad {hx(sc)} {hx(needle)}")
        off = 0 if rng.random() < 0.6 else rng.randrange(len(sc) + 2)
        calc.append(f"calc {hx(sc)} {off} {'/'.join(hx(x) for x in sigs)} {rng.choice('01')} {rng.choice('0001')}")
        ctx.check("find_and_delete.core", {"s": hx(sc), "sigs": [hx(x) for x in sigs], "off": off})
    ctx.stream("find_and_delete", fad, nontrivial=lambda ln, out: not out.endswith(" 0"))
    ctx.stream("calculate_script_code", calc)


def run(ctx):
    shared.validate_hashes(ctx, EXE)
    s_core_vectors(ctx)
    s_bip_vectors(ctx)
    s_spec_preimages(ctx)
    s_scripts(ctx)
    s_find_and_delete(ctx)
    s_legacy(ctx)
    s_segwit(ctx)
    s_taproot(ctx)
    s_from_tx(ctx)
    s_psbt(ctx)
    s_commitment(ctx)
    s_view_history(ctx)
