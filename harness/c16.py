"""C16 — interactive / multi-party schemes (DESIGN §3 C16).

Section `musig2` (this file, below): BIP327 MuSig2 with btclib's adaptor extension, `btclib/ecc/musig2.py`.

Correspondence streams (model `lean/Model/C16/Musig2.lean` through `drv_c16` vs the real btclib, same op lines).
Every stream is evaluated twice on the real code, once with the libsecp256k1 bindings serving and once with the
pure-Python arithmetic (`btclib.curves.curve.set_libsecp256k1_serving`), names `<stream>@bindings` / `<stream>@python`;
the op lines are identical, so the (deterministic) model output is computed once and compared with both.
  musig.<op>         one stream per op, fed by full honest sessions (1..6 signers, duplicates, every order of small
                     sets, tweak sequences 0..4 over {plain, x-only}, messages of 32 and 0/1/31/33/38/100 bytes,
                     adaptor sessions) -- individual_pub_key, key_sort, key_agg, key_agg_and_tweak, nonce_gen,
                     nonce_agg, session_values, sign, det_sign, psig_verify, psig_agg, psig_agg_adaptor, adapt, extract
  bip340.verify      the aggregate / pre-signature / adapted signature under the aggregate x-only key
  musig.malformed    hand-built refusals and one-token mutations of valid lines
  musig.vectors      the BIP327 vector files of /repo/tests/ecc/_data replayed as op lines
  musig.corpus       corpus/C16/musig.json: minimised past disagreements (the error class of
                     InvalidContributionError, adapt on an r that is no x-coordinate), replayed first
Property oracles on the real code alone: musig.honest_session, musig.adaptor_session, musig.refusal.

Line protocol (mirror of lean/Driver/C16Main.lean): bytes = hex (`_` empty); list = comma-joined (`-` empty);
optional = `None`; tweak element `<hex>:<0|1>`; session context = `<aggnonce> <pks> <tweaks> <msg> <adaptor|None>`.
"""
from __future__ import annotations

import contextlib
import itertools
import json
import os

from btclib import _libsecp256k1
from btclib.curves import curve as _curve
from btclib.curves import mult, secp256k1
from btclib.curves.sec_point import bytes_from_point, point_from_octets
from btclib.ecc import musig2, ssa

from . import common, shared
from .common import hx, unhx

PROP = "C16"
EXE = "drv_c16"
GEN_MODULES = ["Interactive"]
RULE = ("op lines from one seeded PRNG: full honest MuSig2 sessions built with the real code (1..6 signers incl. "
        "duplicate keys, permutations of small sets, 0..4 plain/x-only tweaks, 32-byte and odd-size messages, adaptor "
        "sessions), hand-built refusals, one-token mutations of valid lines, and the vendored BIP327 vectors; every "
        "line is evaluated under both arithmetic backends; a case is non-trivial when the implementation did not "
        "refuse it; distinct = distinct (stream, op line)")
TRUSTED = ["Model/C16/Musig2.lean is a hand transcription of btclib/ecc/musig2.py tied by correspondence only "
           "(constants/tags regenerated: Generated/Interactive.lean)",
           "the model output of a `@python` stream is the one computed for the identical `@bindings` op lines",
           "SHA-256 / tagged hash of the driver are modelled, validated against hashlib each run (hash.* streams)",
           "libsecp256k1 (partial_sig_verify_'s delegated arm, point arithmetic) is compared, not verified"]
ASSUMPTIONS = []

ORACLES: dict = {}

N = secp256k1.n
P = secp256k1.p
_DATA = "/repo/tests/ecc/_data"


# ---- backends ----------------------------------------------------------------------------------------
def backends():
    """[(tag, serving)] available in this interpreter."""
    out = [("python", False)]
    if _libsecp256k1.INSTALLED:
        out.insert(0, ("bindings", True))
    return out


@contextlib.contextmanager
def backend(serving: bool):
    """Run the real code with the bindings serving / not serving; the previous state is restored."""
    prev = _curve.is_libsecp256k1_serving()
    _curve.set_libsecp256k1_serving(serving=bool(serving))
    try:
        yield
    finally:
        _curve.set_libsecp256k1_serving(serving=prev)


# ---- tokens ------------------------------------------------------------------------------------------
def t_list(items) -> str:
    items = list(items)
    return ",".join(hx(bytes(b)) for b in items) if items else "-"


def t_tweaks(tweaks) -> str:
    """tweaks: [(bytes, bool)]"""
    return ",".join(f"{hx(t)}:{1 if x else 0}" for t, x in tweaks) if tweaks else "-"


def t_opt(b) -> str:
    return "None" if b is None else hx(bytes(b))


def t_ctx(aggnonce, pks, tweaks, msg, adaptor=None) -> str:
    return f"{hx(aggnonce)} {t_list(pks)} {t_tweaks(tweaks)} {hx(msg)} {t_opt(adaptor)}"


def p_list(tok):
    return [] if tok == "-" else [unhx(x) for x in tok.split(",")]


def p_tweaks(tok):
    if tok == "-":
        return [], []
    ts, xs = [], []
    for el in tok.split(","):
        h, f = el.split(":")
        if f not in ("0", "1"):
            raise ValueError("flag")
        ts.append(unhx(h))
        xs.append(f == "1")
    return ts, xs


def p_opt(tok):
    return None if tok == "None" else unhx(tok)


def p_optint(tok):
    return None if tok == "None" else int(tok)


# ---- musig2: impl --------------------------------------------------------------------------------------
def _err(e: BaseException) -> str:
    c = common.err_class(e)
    return "err " + (c if not c.startswith("foreign") else "foreign")


def _r_kc(c) -> str:
    return f"{c.Q[0]} {c.Q[1]} {c.gacc} {c.tacc}"


def _mk_ctx(t5):
    an, pks, tws, msg, ad = t5
    ts, xs = p_tweaks(tws)
    return musig2.SessionContext(unhx(an), p_list(pks), ts, xs, unhx(msg), p_opt(ad))


def _with_ctx(t5, k):
    """a context SessionContext.__init__ refuses answers before anything else (driver: withCtx)"""
    try:
        c = _mk_ctx(t5)
    except Exception as e:  # noqa: BLE001
        if isinstance(e, ValueError) and common.err_class(e).startswith("foreign"):
            return "bad-op"  # token that is not hex
        return _err(e)
    try:
        return "ok " + k(c)
    except Exception as e:  # noqa: BLE001 - the class is the observation
        return _err(e)


def _call(f) -> str:
    try:
        return "ok " + f()
    except Exception as e:  # noqa: BLE001
        return _err(e)


def _bip340_verify(xq: int, msg: bytes, r: int, s: int) -> str:
    sig = ssa.Sig(r, s, check_validity=False)
    return "True" if ssa.verify_(msg, xq, sig) else "False"


def _impl_musig(t) -> str:  # noqa: PLR0911, PLR0912
    op, a = t[0], t[1:]
    try:
        if op == "musig.individual_pub_key" and len(a) == 1:
            d = int(a[0])
            return _call(lambda: hx(musig2.individual_pub_key(d)))
        if op == "musig.key_sort" and len(a) == 1:
            pks = p_list(a[0])
            return _call(lambda: t_list(musig2.key_sort(pks)))
        if op == "musig.key_agg" and len(a) == 1:
            pks = p_list(a[0])
            return _call(lambda: _r_kc(musig2.key_agg(pks)))
        if op == "musig.key_agg_and_tweak" and len(a) == 2:
            pks = p_list(a[0])
            ts, xs = p_tweaks(a[1])
            return _call(lambda: _r_kc(musig2.key_agg_and_tweak(pks, ts, xs)))
        if op == "musig.nonce_gen" and len(a) == 6:
            rand, prv, pk = unhx(a[0]), p_optint(a[1]), unhx(a[2])
            aggpk, msg, extra = p_opt(a[3]), p_opt(a[4]), p_opt(a[5])

            def f():
                sn, pn = musig2.nonce_gen_(rand, prv, pk, aggpk, msg, extra)
                return f"{hx(bytes(sn))} {hx(pn)}"
            return _call(f)
        if op == "musig.nonce_agg" and len(a) == 1:
            pns = p_list(a[0])
            return _call(lambda: hx(musig2.nonce_agg(pns)))
        if op == "musig.session_values" and len(a) == 5:
            def f(c):
                v = musig2.session_values(c)
                return f"{v.Q[0]} {v.Q[1]} {v.gacc} {v.tacc} {v.b} {v.R[0]} {v.R[1]} {v.e}"
            return _with_ctx(a, f)
        if op == "musig.sign" and len(a) == 7:
            sn, prv = unhx(a[0]), int(a[1])
            if len(sn) != 97:
                return "bad-op"
            # a fresh bytearray each time: sign consumes (zeroes) the one it is given
            return _with_ctx(a[2:], lambda c: hx(musig2.sign(bytearray(sn), prv, c)))
        if op == "musig.det_sign" and len(a) == 6:
            prv, ao, pks = int(a[0]), unhx(a[1]), p_list(a[2])
            ts, xs = p_tweaks(a[3])
            msg, rand = unhx(a[4]), p_opt(a[5])

            def f():
                pn, ps = musig2.deterministic_sign(prv, ao, pks, ts, xs, msg, rand)
                return f"{hx(pn)} {hx(ps)}"
            return _call(f)
        if op == "musig.psig_verify" and len(a) == 8:
            psig, pn, pk = unhx(a[0]), unhx(a[1]), unhx(a[2])
            return _with_ctx(a[3:], lambda c: "True" if musig2.partial_sig_verify_(psig, pn, pk, c) else "False")
        if op == "musig.psig_agg" and len(a) == 6:
            psigs = p_list(a[0])

            def f(c):
                sig = musig2.partial_sig_agg(psigs, c)
                return f"{sig.r} {sig.s}"
            return _with_ctx(a[1:], f)
        if op == "musig.psig_agg_adaptor" and len(a) == 6:
            psigs = p_list(a[0])

            def f(c):
                pre = musig2.partial_sig_agg_adaptor(psigs, c)
                return f"{pre.r} {pre.s}"
            return _with_ctx(a[1:], f)
        if op == "musig.adapt" and len(a) == 8:
            pre = musig2.PreSignature(int(a[0]), int(a[1]))
            tt = int(a[2])

            def f(c):
                sig = musig2.adapt(pre, tt, c)
                return f"{sig.r} {sig.s}"
            return _with_ctx(a[3:], f)
        if op == "musig.extract" and len(a) == 9:
            sig = ssa.Sig(int(a[0]), int(a[1]), check_validity=False)
            pre = musig2.PreSignature(int(a[2]), int(a[3]))
            return _with_ctx(a[4:], lambda c: hx(musig2.extract_adaptor(sig, pre, c)))
        if op == "bip340.verify" and len(a) == 4:
            xq, msg, r, s = int(a[0]), unhx(a[1]), int(a[2]), int(a[3])
            return _call(lambda: _bip340_verify(xq, msg, r, s))
    except ValueError:  # a token that does not parse (the driver answers bad-op as well)
        return "bad-op"
    return "bad-op"


def impl(line: str) -> str:
    t = line.split(" ")
    if t[0].startswith("musig.") or t[0].startswith("bip340."):
        return _impl_musig(t)
    return "bad-op"


# ---- musig2: oracles -----------------------------------------------------------------------------------
def _w_tweaks(w):
    return [bytes.fromhex(t) for t, _ in w["tweaks"]], [bool(x) for _, x in w["tweaks"]]


class _Honest:
    """An honest session re-run from a witness, on the real code alone."""

    def __init__(self, w, adaptor_t=None):
        self.prvs = [w["prvs"][i] for i in w["order"]]
        self.pks = [musig2.individual_pub_key(d) for d in self.prvs]
        self.tweaks, self.xonly = _w_tweaks(w)
        self.msg = bytes.fromhex(w["msg"])
        self.rands = [bytes.fromhex(r) for r in w["rands"]]
        self.kctx = musig2.key_agg_and_tweak(self.pks, self.tweaks, self.xonly)
        self.aggpk = self.kctx.x_only_pub_key
        self.adaptor = None if adaptor_t is None else bytes_from_point(mult(adaptor_t, ec=secp256k1), secp256k1)
        self.gen_nonces()
        self.aggnonce = musig2.nonce_agg(self.pubnonces)
        self.ctx = self.context(self.aggnonce)
        self.psigs = [musig2.sign(self.secnonces[i], self.prvs[i], self.ctx) for i in range(len(self.prvs))]

    def gen_nonces(self):
        self.secnonces, self.pubnonces = [], []
        for i, (d, pk) in enumerate(zip(self.prvs, self.pks)):
            sn, pn = musig2.nonce_gen_(self.rands[i], d, pk, self.aggpk, self.msg, i.to_bytes(4, "big"))
            self.secnonces.append(sn)
            self.pubnonces.append(pn)

    def context(self, aggnonce, msg=None):
        return musig2.SessionContext(aggnonce, self.pks, self.tweaks, self.xonly,
                                     self.msg if msg is None else msg, self.adaptor)


def _o_honest_session(w):
    with backend(w["serving"]):
        try:
            s = _Honest(w)
            k = len(s.prvs)
            for i in range(k):
                if not musig2.partial_sig_verify_(s.psigs[i], s.pubnonces[i], s.pks[i], s.ctx):
                    return False, f"partial_sig_verify_ refuses the honest partial signature of signer {i}"
                if not musig2.partial_sig_verify(s.psigs[i], s.pubnonces, s.pks, s.tweaks, s.xonly, s.msg, i):
                    return False, f"partial_sig_verify refuses the honest partial signature of signer {i}"
            sig = musig2.partial_sig_agg(s.psigs, s.ctx)
            if not ssa.verify_(s.msg, s.aggpk, sig):
                return False, "aggregate of honest partial signatures fails ssa.verify_ under the aggregate key"
            ssa.assert_as_valid_(s.msg, s.aggpk, sig)
            if any(bytes(sn[:64]) != bytes(64) for sn in s.secnonces):
                return False, "sign left a secnonce unspent"
            if k >= 2:  # the last signer acts deterministically on the aggregate of the others' nonces
                others = musig2.nonce_agg(s.pubnonces[:-1])
                rand = None if w.get("det_rand") is None else bytes.fromhex(w["det_rand"])
                pn, ps = musig2.deterministic_sign(s.prvs[-1], others, s.pks, s.tweaks, s.xonly, s.msg, rand)
                s.gen_nonces()
                pubnonces = s.pubnonces[:-1] + [pn]
                c2 = s.context(musig2.nonce_agg(pubnonces))
                psigs = [musig2.sign(s.secnonces[i], s.prvs[i], c2) for i in range(k - 1)] + [ps]
                if not musig2.partial_sig_verify_(ps, pn, s.pks[-1], c2):
                    return False, "deterministic_sign's partial signature is refused"
                if not ssa.verify_(s.msg, s.aggpk, musig2.partial_sig_agg(psigs, c2)):
                    return False, "aggregate with a deterministic last signer fails ssa.verify_"
        except Exception as e:  # noqa: BLE001
            return False, f"honest session raised {type(e).__name__}: {str(e)[:120]}"
    return True, f"{len(w['order'])} signers, {len(w['tweaks'])} tweaks"


def _o_adaptor_session(w):
    t = w["t"]
    with backend(w["serving"]):
        try:
            s = _Honest(w, adaptor_t=t)
            for i in range(len(s.prvs)):
                if not musig2.partial_sig_verify_(s.psigs[i], s.pubnonces[i], s.pks[i], s.ctx):
                    return False, f"adaptor session: honest partial signature of signer {i} refused"
            pre = musig2.partial_sig_agg_adaptor(s.psigs, s.ctx)
            if ssa.verify_(s.msg, s.aggpk, ssa.Sig(pre.r, pre.s, check_validity=False)):
                return False, "the pre-signature verifies as a signature"
            sig = musig2.adapt(pre, t, s.ctx)
            if not ssa.verify_(s.msg, s.aggpk, sig):
                return False, "adapt(pre, t) fails ssa.verify_"
            got = musig2.extract_adaptor(sig, pre, s.ctx)
            if got != t.to_bytes(32, "big"):
                return False, f"extract_adaptor answers {got.hex()} for t={t}"
            t2 = t % (N - 1) + 1  # another secret
            if ssa.verify_(s.msg, s.aggpk, musig2.adapt(pre, t2, s.ctx)):
                return False, "adapt with another secret verifies"
            try:
                musig2.partial_sig_agg(s.psigs, s.ctx)
                return False, "partial_sig_agg accepted a session carrying an adaptor"
            except Exception as e:  # noqa: BLE001
                if common.err_class(e) != "value":
                    return False, f"partial_sig_agg on an adaptor session raised {type(e).__name__}"
        except Exception as e:  # noqa: BLE001
            return False, f"adaptor session raised {type(e).__name__}: {str(e)[:120]}"
    return True, "pre-signature refused, adapted accepted, secret extracted"


def _flip(b: bytes, bit: int) -> bytes:
    v = int.from_bytes(b, "big") ^ (1 << (bit % (8 * len(b))))
    return v.to_bytes(len(b), "big")


def _o_refusal(w):  # noqa: PLR0911, PLR0912
    with backend(w["serving"]):
        try:
            s = _Honest(w)
            k = len(s.prvs)
            i = w["i"] % k
            bad = _flip(s.psigs[i], w["bit"])
            if musig2.partial_sig_verify_(bad, s.pubnonces[i], s.pks[i], s.ctx):
                return False, f"a partial signature with bit {w['bit'] % 256} flipped is accepted"
            if musig2.partial_sig_verify(bad, s.pubnonces, s.pks, s.tweaks, s.xonly, s.msg, i):
                return False, "partial_sig_verify accepts a partial signature with one bit flipped"
            neg = ((N - int.from_bytes(s.psigs[i], "big")) % N).to_bytes(32, "big")
            if neg != s.psigs[i] and musig2.partial_sig_verify_(neg, s.pubnonces[i], s.pks[i], s.ctx):
                return False, "the negation of a partial signature is accepted"
            msg2 = bytes.fromhex(w["msg2"])
            if msg2 != s.msg and musig2.partial_sig_verify_(s.psigs[i], s.pubnonces[i], s.pks[i],
                                                            s.context(s.aggnonce, msg2)):
                return False, "a partial signature is accepted under another session message"
            if k >= 2:
                j = (i + 1 + w["j"] % (k - 1)) % k
                if musig2.partial_sig_verify_(s.psigs[i], s.pubnonces[j], s.pks[i], s.ctx):
                    return False, f"partial signature of signer {i} accepted against the pubnonce of signer {j}"
                if s.pks[j] != s.pks[i] and musig2.partial_sig_verify_(s.psigs[i], s.pubnonces[i], s.pks[j], s.ctx):
                    return False, f"partial signature of signer {i} accepted under the key of signer {j}"
            # a key that is not in the session is refused (raises), whatever the signature
            out_pk = musig2.individual_pub_key(w["outsider"])
            if out_pk not in s.pks:
                try:
                    musig2.partial_sig_verify_(s.psigs[i], s.pubnonces[i], out_pk, s.ctx)
                    return False, "a public key that is not in the session is answered, not refused"
                except Exception as e:  # noqa: BLE001
                    if common.err_class(e) != "value":
                        return False, f"foreign key raised {type(e).__name__}"
            sig = musig2.partial_sig_agg(s.psigs[:i] + [bad] + s.psigs[i + 1:], s.ctx) \
                if int.from_bytes(bad, "big") < N else None
            if sig is not None and ssa.verify_(s.msg, s.aggpk, sig):
                return False, "an aggregate containing an altered partial signature verifies"
            good = musig2.partial_sig_agg(s.psigs, s.ctx)
            if msg2 != s.msg and ssa.verify_(msg2, s.aggpk, good):
                return False, "the aggregate verifies for another message"
            other_pk = musig2.key_agg_and_tweak(s.pks + [out_pk], s.tweaks, s.xonly).x_only_pub_key
            if other_pk != s.aggpk and ssa.verify_(s.msg, other_pk, good):
                return False, "the aggregate verifies under another group's key"
            # a signer whose key is not in the list cannot sign; a secnonce made for another key is refused
            sn, _pn = musig2.nonce_gen_(s.rands[0], w["outsider"], out_pk, s.aggpk, s.msg, None)
            if out_pk not in s.pks:
                try:
                    musig2.sign(sn, w["outsider"], s.ctx)
                    return False, "sign accepted a signer that is not in the session"
                except Exception as e:  # noqa: BLE001
                    if common.err_class(e) != "value":
                        return False, f"sign by an outsider raised {type(e).__name__}"
                s.gen_nonces()
                try:
                    musig2.sign(s.secnonces[i], w["outsider"], s.ctx)
                    return False, "sign accepted a secnonce generated for another key"
                except Exception as e:  # noqa: BLE001
                    if common.err_class(e) != "value":
                        return False, f"sign with a wrong key raised {type(e).__name__}"
        except Exception as e:  # noqa: BLE001
            return False, f"refusal session raised {type(e).__name__}: {str(e)[:120]}"
    return True, "altered / misattributed partial signatures refused"


ORACLES.update({"musig.honest_session": _o_honest_session, "musig.adaptor_session": _o_adaptor_session,
                "musig.refusal": _o_refusal})


# ---- musig2: generators/run ----------------------------------------------------------------------------
MSG_ODD = [0, 1, 31, 33, 38, 100]


def g_prv(rng) -> int:
    r = rng.random()
    if r < 0.04:
        return rng.choice([1, 2, 3, N - 1, N - 2])
    return 1 + rng.getrandbits(256) % (N - 1)


def g_msg(rng) -> bytes:
    if rng.random() < 0.72:
        return common.rand_bytes(rng, 32)
    return common.rand_bytes(rng, rng.choice(MSG_ODD))


def g_tweak(rng):
    r = rng.random()
    t = rng.choice([0, 1, N - 1]) if r < 0.08 else rng.getrandbits(256) % N
    return t.to_bytes(32, "big"), rng.random() < 0.5


def g_tweaks(rng):
    return [g_tweak(rng) for _ in range(rng.choice([0, 0, 1, 1, 1, 2, 2, 3, 4]))]


def g_party(rng, k=None):
    """private keys of a party of k signers, sometimes with a duplicated key / all keys equal"""
    if k is None:
        k = rng.choice([1, 2, 2, 2, 3, 3, 3, 4, 4, 5, 6])
    prvs = [g_prv(rng) for _ in range(k)]
    r = rng.random()
    if k >= 2 and r < 0.25:
        i, j = rng.sample(range(k), 2)
        prvs[j] = prvs[i]
    elif k >= 2 and r < 0.32:
        prvs = [prvs[0]] * k
    return prvs


def bad_x(rng) -> bytes:
    """32 bytes that are no x-coordinate of secp256k1"""
    while True:
        x = common.rand_bytes(rng, 32)
        try:
            point_from_octets(b"\x02" + x, secp256k1)
        except Exception:  # noqa: BLE001
            return x


class Lines:
    """op lines collected per stream"""

    def __init__(self):
        self.by: dict[str, list[str]] = {}

    def add(self, op_line, stream=None):
        name = stream or op_line.split(" ", 1)[0]
        self.by.setdefault(name, []).append(op_line)


class Session:
    """A session built with the real code (the generator's working copy of an honest run)."""

    def __init__(self, rng, prvs, tweaks, msg, t=None, nonce_variant=0):
        self.prvs, self.tweaks, self.msg, self.t = list(prvs), list(tweaks), msg, t
        self.pks = [musig2.individual_pub_key(d) for d in prvs]
        self.ts = [x for x, _ in tweaks]
        self.xs = [f for _, f in tweaks]
        self.kctx = musig2.key_agg_and_tweak(self.pks, self.ts, self.xs)
        self.aggpk = self.kctx.x_only_pub_key
        self.adaptor = None if t is None else bytes_from_point(mult(t, ec=secp256k1), secp256k1)
        self.rands = [common.rand_bytes(rng, 32) for _ in prvs]
        self.nonce_args = []
        for i, (d, pk) in enumerate(zip(self.prvs, self.pks)):
            v = nonce_variant if nonce_variant else rng.choice([1, 1, 1, 2, 3, 4, 5])
            args = {1: (d, self.aggpk, msg, i.to_bytes(4, "big")), 2: (None, None, None, None),
                    3: (d, None, msg, None), 4: (None, self.aggpk, b"", b""),
                    5: (d, self.aggpk, None, common.rand_bytes(rng, rng.choice([1, 8, 70])))}[v]
            self.nonce_args.append(args)
        self.secnonces, self.pubnonces = [], []
        for i, pk in enumerate(self.pks):
            d, ap, m, ex = self.nonce_args[i]
            sn, pn = musig2.nonce_gen_(self.rands[i], d, pk, ap, m, ex)
            self.secnonces.append(bytes(sn))
            self.pubnonces.append(pn)
        self.aggnonce = musig2.nonce_agg(self.pubnonces)
        self.ctx = musig2.SessionContext(self.aggnonce, self.pks, self.ts, self.xs, msg, self.adaptor)
        self.values = musig2.session_values(self.ctx)
        self.psigs = [musig2.sign(bytearray(self.secnonces[i]), self.prvs[i], self.ctx) for i in range(len(prvs))]

    def c5(self, **kw):
        return t_ctx(kw.get("aggnonce", self.aggnonce), kw.get("pks", self.pks), kw.get("tweaks", self.tweaks),
                     kw.get("msg", self.msg), kw.get("adaptor", self.adaptor))


def emit_session(ctx, L: Lines, s: Session, rng, full=True):  # noqa: PLR0912
    """op lines of every round of one honest session"""
    k = len(s.prvs)
    ctx.count("musig.signers", str(k))
    ctx.count("musig.tweaks", "".join("x" if f else "p" for f in s.xs) or "none")
    ctx.count("musig.msg_len", str(len(s.msg)))
    ctx.count("musig.parity", f"Q{'odd' if s.values.Q[1] % 2 else 'even'} R{'odd' if s.values.R[1] % 2 else 'even'} "
              f"g{'-' if s.values.gacc != 1 else '+'}{' adaptor' if s.t is not None else ''}")
    ctx.count("musig.distinct_keys", f"{len(set(s.pks))}/{k}")
    c5 = s.c5()
    if full:
        for d in s.prvs:
            L.add(f"musig.individual_pub_key {d}")
        L.add(f"musig.key_sort {t_list(s.pks)}")
        L.add(f"musig.key_agg {t_list(s.pks)}")
        L.add(f"musig.key_agg_and_tweak {t_list(s.pks)} {t_tweaks(s.tweaks)}")
        for i in range(k):
            d, ap, m, ex = s.nonce_args[i]
            L.add(f"musig.nonce_gen {hx(s.rands[i])} {'None' if d is None else d} {hx(s.pks[i])} {t_opt(ap)} "
                  f"{t_opt(m)} {t_opt(ex)}")
        L.add(f"musig.nonce_agg {t_list(s.pubnonces)}")
    L.add(f"musig.session_values {c5}")
    for i in range(k):
        L.add(f"musig.sign {hx(s.secnonces[i])} {s.prvs[i]} {c5}")
        L.add(f"musig.psig_verify {hx(s.psigs[i])} {hx(s.pubnonces[i])} {hx(s.pks[i])} {c5}")
    xq = s.values.Q[0]
    if s.t is None:
        sig = musig2.partial_sig_agg(s.psigs, s.ctx)
        L.add(f"musig.psig_agg {t_list(s.psigs)} {c5}")
        L.add(f"bip340.verify {xq} {hx(s.msg)} {sig.r} {sig.s}")
        if rng.random() < 0.3:
            L.add(f"bip340.verify {xq} {hx(s.msg)} {sig.r} {sig.s ^ (1 << rng.randrange(255))}")
    else:
        pre = musig2.partial_sig_agg_adaptor(s.psigs, s.ctx)
        sig = musig2.adapt(pre, s.t, s.ctx)
        L.add(f"musig.psig_agg_adaptor {t_list(s.psigs)} {c5}")
        L.add(f"bip340.verify {xq} {hx(s.msg)} {pre.r} {pre.s}")
        L.add(f"musig.adapt {pre.r} {pre.s} {s.t} {c5}")
        L.add(f"musig.extract {sig.r} {sig.s} {pre.r} {pre.s} {c5}")
        L.add(f"bip340.verify {xq} {hx(s.msg)} {sig.r} {sig.s}")
    if full and s.t is None and k >= 2 and rng.random() < 0.5:
        # the last signer signs deterministically over the aggregate of the others' nonces
        others = musig2.nonce_agg(s.pubnonces[:-1])
        rand = rng.choice([None, b"", common.rand_bytes(rng, 32), common.rand_bytes(rng, rng.choice([1, 31, 33]))])
        L.add(f"musig.nonce_agg {t_list(s.pubnonces[:-1])}")
        L.add(f"musig.det_sign {s.prvs[-1]} {hx(others)} {t_list(s.pks)} {t_tweaks(s.tweaks)} {hx(s.msg)} {t_opt(rand)}")
        pn, ps = musig2.deterministic_sign(s.prvs[-1], others, s.pks, s.ts, s.xs, s.msg, rand)
        an = musig2.nonce_agg(s.pubnonces[:-1] + [pn])
        L.add(f"musig.psig_verify {hx(ps)} {hx(pn)} {hx(s.pks[-1])} {s.c5(aggnonce=an)}")


def gen_sessions(ctx, L: Lines, rng, n_plain, n_adaptor):
    for idx in range(n_plain + n_adaptor):
        prvs = g_party(rng)
        rng.shuffle(prvs)
        t = None if idx < n_plain else g_prv(rng)
        s = Session(rng, prvs, g_tweaks(rng), g_msg(rng), t=t)
        emit_session(ctx, L, s, rng)


def gen_orders(ctx, L: Lines, rng, n_sets, sample):
    """every order (or a sample of the orders) of small key sets: the aggregate key depends on the order,
    the aggregate nonce does not"""
    for _ in range(n_sets):
        k = rng.choice([2, 3, 3, 4, 4])
        prvs = g_party(rng, k)
        tweaks, msg = g_tweaks(rng), g_msg(rng)
        base = Session(rng, prvs, tweaks, msg, nonce_variant=2)
        perms = sorted(set(itertools.permutations(range(k))))
        if sample is not None and len(perms) > sample:
            perms = [perms[0]] + rng.sample(perms[1:], sample - 1)
        for perm in perms:
            pks = [base.pks[i] for i in perm]
            pns = [base.pubnonces[i] for i in perm]
            ctx.count("musig.orders", str(k))
            L.add(f"musig.key_agg {t_list(pks)}")
            L.add(f"musig.nonce_agg {t_list(pns)}")
            c5 = base.c5(pks=pks)
            L.add(f"musig.session_values {c5}")
            i = rng.randrange(k)
            pctx = musig2.SessionContext(base.aggnonce, pks, base.ts, base.xs, msg)
            psig = musig2.sign(bytearray(base.secnonces[i]), base.prvs[i], pctx)
            L.add(f"musig.sign {hx(base.secnonces[i])} {base.prvs[i]} {c5}")
            L.add(f"musig.psig_verify {hx(psig)} {hx(base.pubnonces[i])} {hx(base.pks[i])} {c5}")


# which argument positions of an op are integers (everything else is hex / list / optional hex)
INT_POS = {"musig.individual_pub_key": {1}, "musig.nonce_gen": {2}, "musig.sign": {2}, "musig.det_sign": {1},
           "musig.adapt": {1, 2, 3}, "musig.extract": {1, 2, 3, 4}, "bip340.verify": {1, 3, 4}}


def _mut_hex(rng, tok: str) -> str:
    if tok == "_":
        return rng.choice(["00", "ff"])
    b = bytearray(bytes.fromhex(tok))
    r = rng.random()
    if r < 0.70:
        i = rng.randrange(len(b))
        b[i] ^= 1 << rng.randrange(8)
    elif r < 0.80:
        b[0] = rng.choice([0, 1, 2, 3, 4, 5, 6, 7, 0xFF])
    elif r < 0.88:
        b = b[:-1]
    elif r < 0.95:
        b.append(rng.getrandbits(8))
    else:
        b = bytearray(len(b)) if rng.random() < 0.5 else bytearray(b"\xff" * len(b))
    return hx(bytes(b))


def mutate_line(rng, line: str) -> str:
    """one token of a valid line altered, every token still of its syntactic type"""
    t = line.split(" ")
    cand = [i for i in range(1, len(t)) if t[i] not in ("None", "-")]
    if not cand:
        return line
    i = rng.choice(cand)
    tok = t[i]
    if i in INT_POS.get(t[0], ()):
        v = int(tok)
        t[i] = str(rng.choice([v + 1, v - 1, v ^ (1 << rng.randrange(256)), N - v, 0, N, -v]))
    elif "," in tok or ":" in tok:
        els = tok.split(",")
        j = rng.randrange(len(els))
        r = rng.random()
        if r < 0.6:
            if ":" in els[j]:
                h, f = els[j].split(":")
                els[j] = f"{_mut_hex(rng, h)}:{f}" if rng.random() < 0.7 else f"{h}:{1 - int(f)}"
            else:
                els[j] = _mut_hex(rng, els[j])
        elif r < 0.75 and len(els) > 1:
            del els[j]
        elif r < 0.9:
            els.insert(j, els[rng.randrange(len(els))])
        else:
            rng.shuffle(els)
        t[i] = ",".join(els)
    else:
        t[i] = _mut_hex(rng, tok)
    return " ".join(t)


def gen_malformed(ctx, rng, valid_lines, n_mut):  # noqa: PLR0915
    """hand-built refusals around two honest sessions, then one-token mutations of valid lines"""
    out = []

    def add(cls, line):
        ctx.count("musig.malformed_class", cls)
        out.append(line)

    prvs = [g_prv(rng) for _ in range(3)]
    s = Session(rng, prvs, [g_tweak(rng)], common.rand_bytes(rng, 32), nonce_variant=1)
    sa = Session(rng, prvs[:2], [], common.rand_bytes(rng, 32), t=g_prv(rng), nonce_variant=1)
    outsider = g_prv(rng)
    out_pk = musig2.individual_pub_key(outsider)
    pk0, pk1 = s.pks[0], s.pks[1]
    nx = bad_x(rng)
    bad_keys = {"short": pk0[:32], "long": pk0 + b"\x00", "empty": b"", "uncompressed65": bytes_from_point(
        mult(prvs[0], ec=secp256k1), secp256k1, compressed=False), "prefix04": b"\x04" + pk0[1:],
        "prefix05": b"\x05" + pk0[1:], "prefix00": b"\x00" + pk0[1:], "notoncurve02": b"\x02" + nx,
        "notoncurve03": b"\x03" + nx, "x=p": b"\x02" + P.to_bytes(32, "big"), "x>=p": b"\x03" + b"\xff" * 32,
        "inf33": bytes(33), "x=0": b"\x02" + bytes(32)}
    zero = bytes(32)
    bad_tweaks = {"short": zero[:31], "long": zero + b"\x01", "empty": b"", "n": N.to_bytes(32, "big"),
                  "n+1": (N + 1).to_bytes(32, "big"), "max": b"\xff" * 32}
    ok_tweaks = {"0": zero, "1": (1).to_bytes(32, "big"), "n-1": (N - 1).to_bytes(32, "big")}

    # -- keys
    for v in (0, 1, N - 1, N, N + 1, -1, -N, 2**256 - 1, 2**256, 2**300):
        add("prv_range", f"musig.individual_pub_key {v}")
    add("empty_keys", "musig.key_agg -")
    add("empty_keys", "musig.key_sort -")
    add("empty_keys", f"musig.key_agg_and_tweak - {t_tweaks([(zero, True)])}")
    for name, bk in bad_keys.items():
        for pos in (0, 1, 2):
            pks = list(s.pks)
            pks[pos] = bk
            add("key:" + name, f"musig.key_agg {t_list(pks)}")
        add("key:" + name, f"musig.key_agg {t_list([bk])}")
        add("key:" + name, f"musig.key_sort {t_list([pk1, bk, pk0])}")
        add("key:" + name, f"musig.key_agg_and_tweak {t_list([pk0, bk])} {t_tweaks(s.tweaks)}")
        add("key:" + name, f"musig.session_values {s.c5(pks=[pk0, pk1, bk])}")
        add("key:" + name, f"musig.psig_verify {hx(s.psigs[0])} {hx(s.pubnonces[0])} {hx(bk)} {s.c5()}")
        add("key:" + name, f"musig.psig_agg {t_list(s.psigs)} {s.c5(pks=[bk, pk1, s.pks[2]])}")
        add("key:" + name, f"musig.det_sign {prvs[0]} {hx(s.pubnonces[1])} {t_list([pk0, bk])} - {hx(s.msg)} None")
    # a wrong-length key AND an unparsable one: the length check of the whole list comes first
    add("key:order", f"musig.key_agg {t_list([bad_keys['notoncurve02'], bad_keys['short']])}")
    add("key:order", f"musig.key_agg {t_list([bad_keys['short'], bad_keys['notoncurve02']])}")
    # negated keys cancel only with equal coefficients: P, -P is an ordinary (valid) party
    neg0 = bytes([pk0[0] ^ 1]) + pk0[1:]
    add("key:negated", f"musig.key_agg {t_list([pk0, neg0])}")
    add("key:negated", f"musig.key_agg {t_list([pk0, neg0, pk0, neg0])}")

    # -- tweaks
    for name, bt in {**bad_tweaks, **ok_tweaks}.items():
        for x in (False, True):
            add("tweak:" + name, f"musig.key_agg_and_tweak {t_list(s.pks)} {t_tweaks([(bt, x)])}")
            add("tweak:" + name, f"musig.key_agg_and_tweak {t_list(s.pks)} {t_tweaks([s.tweaks[0], (bt, x)])}")
        add("tweak:" + name, f"musig.session_values {s.c5(tweaks=[(bt, True)])}")
        add("tweak:" + name, f"musig.sign {hx(s.secnonces[0])} {prvs[0]} {s.c5(tweaks=[(bt, False)])}")
        add("tweak:" + name, f"musig.det_sign {prvs[0]} {hx(s.pubnonces[1])} {t_list(s.pks)} {t_tweaks([(bt, True)])} "
            f"{hx(s.msg)} None")
    # a bad tweak after a bad key, a bad key after a bad tweak: the key is looked at first
    add("tweak:order", f"musig.key_agg_and_tweak {t_list([bad_keys['notoncurve02']])} {t_tweaks([(bad_tweaks['n'], True)])}")
    add("tweak:order", f"musig.key_agg_and_tweak {t_list([pk0])} {t_tweaks([(bad_tweaks['n'], True), (bad_tweaks['short'], False)])}")

    # -- public nonces
    pn0, pn1 = s.pubnonces[0], s.pubnonces[1]
    negpn0 = bytes([pn0[0] ^ 1]) + pn0[1:33] + bytes([pn0[33] ^ 1]) + pn0[34:]
    bad_nonces = {"short": pn0[:65], "long": pn0 + b"\x02", "empty": b"", "half": pn0[:33],
                  "first_notoncurve": b"\x02" + nx + pn0[33:], "second_notoncurve": pn0[:33] + b"\x03" + nx,
                  "first_04": b"\x04" + pn0[1:], "second_04": pn0[:33] + b"\x04" + pn0[34:],
                  "first_inf": bytes(33) + pn0[33:], "second_inf": pn0[:33] + bytes(33), "zero66": bytes(66),
                  "second_x>=p": pn0[:33] + b"\x02" + b"\xff" * 32}
    add("nonce_agg", "musig.nonce_agg -")
    add("nonce_agg:cancel", f"musig.nonce_agg {t_list([pn0, negpn0])}")
    add("nonce_agg:cancel", f"musig.nonce_agg {t_list([pn0, pn1, negpn0])}")
    add("nonce_agg:cancel", f"musig.nonce_agg {t_list([pn0, bytes([pn0[0] ^ 1]) + pn0[1:]])}")
    add("nonce_agg:cancel", f"musig.nonce_agg {t_list([pn0, pn0[:33] + bytes([pn0[33] ^ 1]) + pn0[34:]])}")
    add("nonce_agg:double", f"musig.nonce_agg {t_list([pn0, pn0])}")
    for name, bn in bad_nonces.items():
        add("nonce:" + name, f"musig.nonce_agg {t_list([bn])}")
        add("nonce:" + name, f"musig.nonce_agg {t_list([pn1, bn])}")
        add("nonce:" + name, f"musig.nonce_agg {t_list([bn, pn1])}")
        add("nonce:" + name, f"musig.psig_verify {hx(s.psigs[0])} {hx(bn)} {hx(pk0)} {s.c5()}")
        add("nonce:" + name, f"musig.psig_verify {hx(s.psigs[0])} {hx(bn)} {hx(pk0)} {s.c5(msg=b'odd size')}")
        # as aggregate nonce of a session (the infinity placeholder is legal there, in either half or both)
        add("aggnonce:" + name, f"musig.session_values {s.c5(aggnonce=bn)}")
        add("aggnonce:" + name, f"musig.sign {hx(s.secnonces[0])} {prvs[0]} {s.c5(aggnonce=bn)}")
        add("aggnonce:" + name, f"musig.psig_verify {hx(s.psigs[0])} {hx(pn0)} {hx(pk0)} {s.c5(aggnonce=bn)}")
        add("aggnonce:" + name, f"musig.psig_agg {t_list(s.psigs)} {s.c5(aggnonce=bn)}")
        add("aggnonce:" + name, f"musig.det_sign {prvs[0]} {hx(bn)} {t_list(s.pks)} - {hx(s.msg)} None")
        add("aggnonce:" + name, f"musig.adapt 1 1 1 {sa.c5(aggnonce=bn)}")
    # a session whose final nonce is infinity (G stands in): honest signing on the all-infinity aggregate nonce
    for an in (bytes(66), bytes(33) + pn0[33:], pn0[:33] + bytes(33)):
        c = musig2.SessionContext(an, s.pks, s.ts, s.xs, s.msg)
        ps = musig2.sign(bytearray(s.secnonces[0]), prvs[0], c)
        add("aggnonce:infinity", f"musig.psig_verify {hx(ps)} {hx(pn0)} {hx(pk0)} {s.c5(aggnonce=an)}")
        add("aggnonce:infinity", f"musig.psig_agg {t_list([ps])} {s.c5(aggnonce=an)}")
        add("aggnonce:infinity", f"musig.session_values {s.c5(aggnonce=an, msg=b'')}")
        add("aggnonce:infinity", f"musig.session_values {sa.c5(aggnonce=an)}")

    # -- adaptor
    for name, bk in bad_keys.items():
        add("adaptor:" + name, f"musig.session_values {sa.c5(adaptor=bk)}")
        add("adaptor:" + name, f"musig.sign {hx(sa.secnonces[0])} {sa.prvs[0]} {sa.c5(adaptor=bk)}")
        add("adaptor:" + name, f"musig.psig_agg_adaptor {t_list(sa.psigs)} {sa.c5(adaptor=bk)}")
        add("adaptor:" + name, f"musig.psig_agg {t_list(sa.psigs)} {sa.c5(adaptor=bk)}")
        add("adaptor:" + name, f"musig.adapt 1 1 1 {sa.c5(adaptor=bk)}")
        add("adaptor:" + name, f"musig.extract 1 1 1 1 {sa.c5(adaptor=bk)}")
    pre = musig2.partial_sig_agg_adaptor(sa.psigs, sa.ctx)
    sig = musig2.adapt(pre, sa.t, sa.ctx)
    add("adaptor:wrong_agg", f"musig.psig_agg {t_list(sa.psigs)} {sa.c5()}")
    add("adaptor:wrong_agg", f"musig.psig_agg_adaptor {t_list(s.psigs)} {s.c5()}")
    add("adaptor:wrong_agg", f"musig.psig_agg - {sa.c5()}")
    add("adaptor:none", f"musig.adapt {pre.r} {pre.s} {sa.t} {sa.c5(adaptor=None)}")
    add("adaptor:none", f"musig.extract {sig.r} {sig.s} {pre.r} {pre.s} {sa.c5(adaptor=None)}")
    # adaptor T = -R1: R1 + T is infinity (legal), T = the aggregate nonce's own first half
    an = sa.aggnonce
    add("adaptor:cancels_R1", f"musig.session_values {sa.c5(adaptor=bytes([an[0] ^ 1]) + an[1:33])}")
    add("adaptor:doubles_R1", f"musig.session_values {sa.c5(adaptor=an[:33])}")
    for tv in (0, N, N + 1, -1, 2**256, 1, N - 1, sa.t + 1):
        add("adapt:t", f"musig.adapt {pre.r} {pre.s} {tv} {sa.c5()}")
    nxi = int.from_bytes(nx, "big")
    for rv in (nxi, 0, P, P - 1, 2**256 - 1, pre.r ^ 1):
        add("adapt:r", f"musig.adapt {rv} {pre.s} {sa.t} {sa.c5()}")
    for sv in (0, N - 1, N, 2**256 - 1):
        add("adapt:s", f"musig.adapt {pre.r} {sv} {sa.t} {sa.c5()}")
    for a, b in ((sig.s, pre.s), (pre.s, sig.s), (0, 0), (N - 1, 0), (0, N - 1), (N, 0), (sig.s, sig.s),
                 (2**256 - 1, 1), (5, 2**256 - 1)):
        add("extract", f"musig.extract {sig.r} {a} {pre.r} {b} {sa.c5()}")
        add("extract", f"musig.extract {nxi} {a} 0 {b} {s.c5()}")

    # -- partial signatures
    ps0 = s.psigs[0]
    bad_psigs = {"n": N.to_bytes(32, "big"), "n+1": (N + 1).to_bytes(32, "big"), "max": b"\xff" * 32,
                 "short": ps0[:31], "long": ps0 + b"\x00", "empty": b""}
    odd_psigs = {"0": zero, "n-1": (N - 1).to_bytes(32, "big"),
                 "negated": ((N - int.from_bytes(ps0, "big")) % N).to_bytes(32, "big")}
    for bit in sorted({0, 1, 7, 8, 127, 128, 254, 255, rng.randrange(256), rng.randrange(256)}):
        odd_psigs[f"bit{bit}"] = _flip(ps0, bit)
    for name, bp in {**bad_psigs, **odd_psigs}.items():
        cls = "psig:" + ("bitflip" if name.startswith("bit") else name)
        add(cls, f"musig.psig_verify {hx(bp)} {hx(pn0)} {hx(pk0)} {s.c5()}")
        add(cls, f"musig.psig_agg {t_list([bp] + s.psigs[1:])} {s.c5()}")
        add(cls, f"musig.psig_agg {t_list(s.psigs[:2] + [bp])} {s.c5()}")
        add(cls, f"musig.psig_agg_adaptor {t_list([sa.psigs[0], bp])} {sa.c5()}")
        if len(bp) == 32 and int.from_bytes(bp, "big") < N:
            a = musig2.partial_sig_agg([bp] + s.psigs[1:], s.ctx)
            add(cls, f"bip340.verify {s.values.Q[0]} {hx(s.msg)} {a.r} {a.s}")
    # bad psig in a session that also has a bad length elsewhere / more or fewer psigs than signers
    add("psig:count", f"musig.psig_agg - {s.c5()}")
    add("psig:count", f"musig.psig_agg {t_list(s.psigs[:2])} {s.c5()}")
    add("psig:count", f"musig.psig_agg {t_list(s.psigs + s.psigs)} {s.c5()}")
    add("psig:order", f"musig.psig_agg {t_list([bad_psigs['n'], bad_psigs['short']])} {s.c5()}")
    add("psig:order", f"musig.psig_agg {t_list([bad_psigs['short'], bad_psigs['n']])} {s.c5()}")
    # misattribution: other signer's nonce / key, other message, other tweak, other order
    add("psig:other_nonce", f"musig.psig_verify {hx(ps0)} {hx(pn1)} {hx(pk0)} {s.c5()}")
    add("psig:other_key", f"musig.psig_verify {hx(ps0)} {hx(pn0)} {hx(pk1)} {s.c5()}")
    add("psig:other_msg", f"musig.psig_verify {hx(ps0)} {hx(pn0)} {hx(pk0)} {s.c5(msg=s.msg[:-1] + bytes([s.msg[-1] ^ 1]))}")
    add("psig:other_msg", f"musig.psig_verify {hx(ps0)} {hx(pn0)} {hx(pk0)} {s.c5(msg=s.msg + b'!')}")
    add("psig:other_tweak", f"musig.psig_verify {hx(ps0)} {hx(pn0)} {hx(pk0)} {s.c5(tweaks=[])}")
    add("psig:other_order", f"musig.psig_verify {hx(ps0)} {hx(pn0)} {hx(pk0)} {s.c5(pks=s.pks[::-1])}")
    add("psig:outsider", f"musig.psig_verify {hx(ps0)} {hx(pn0)} {hx(out_pk)} {s.c5()}")
    add("psig:outsider", f"musig.psig_verify {hx(ps0)} {hx(pn0)} {hx(out_pk)} {s.c5(msg=b'')}")
    add("psig:outsider", f"musig.psig_verify {hx(bad_psigs['n'])} {hx(pn0)} {hx(out_pk)} {s.c5()}")
    add("psig:outsider", f"musig.psig_verify {hx(ps0)} {hx(bad_nonces['first_notoncurve'])} {hx(out_pk)} {s.c5()}")
    add("psig:outsider", f"musig.psig_verify {hx(ps0)} {hx(pn0)} {hx(pk0)} {s.c5(pks=[])}")

    # -- secret nonces and signing keys
    sn0 = s.secnonces[0]
    k1, k2, tail = sn0[:32], sn0[32:64], sn0[64:]
    nb, mx = N.to_bytes(32, "big"), b"\xff" * 32
    bad_sn = {"k1=0": zero + k2 + tail, "k2=0": k1 + zero + tail, "k1=n": nb + k2 + tail, "k2=n": k1 + nb + tail,
              "k1=max": mx + k2 + tail, "k2=max": k1 + mx + tail, "both0": bytes(64) + tail, "all0": bytes(97),
              "k1=1": (1).to_bytes(32, "big") + k2 + tail, "k2=n-1": k1 + (N - 1).to_bytes(32, "big") + tail,
              "other_pk": k1 + k2 + pk1, "pk_notoncurve": k1 + k2 + bad_keys["notoncurve02"],
              "swapped": k2 + k1 + tail}
    for name, sn in bad_sn.items():
        add("secnonce:" + name, f"musig.sign {hx(sn)} {prvs[0]} {s.c5()}")
        add("secnonce:" + name, f"musig.sign {hx(sn)} {prvs[0]} {s.c5(msg=b'')}")
    add("secnonce:order", f"musig.sign {hx(bad_sn['k1=0'])} 0 {s.c5()}")
    add("secnonce:order", f"musig.sign {hx(bad_sn['k2=0'])} {prvs[0]} {s.c5(aggnonce=bad_nonces['first_notoncurve'])}")
    for pv in (prvs[1], outsider, 0, N, -1, N - prvs[0], prvs[0] + N, 2**256):
        add("sign:prv", f"musig.sign {hx(sn0)} {pv} {s.c5()}")
    sn_out = bytes(musig2.nonce_gen_(s.rands[0], outsider, out_pk, None, None, None)[0])
    add("sign:outsider", f"musig.sign {hx(sn_out)} {outsider} {s.c5()}")
    add("sign:outsider", f"musig.sign {hx(sn0)} {prvs[0]} {s.c5(pks=s.pks[1:])}")
    add("sign:outsider", f"musig.sign {hx(sn0)} {prvs[0]} {s.c5(pks=[])}")
    add("sign:outsider", f"musig.det_sign {outsider} {hx(pn0)} {t_list(s.pks)} - {hx(s.msg)} None")
    for pv in (0, N, -1):
        add("det_sign:prv", f"musig.det_sign {pv} {hx(pn0)} {t_list(s.pks)} - {hx(s.msg)} None")
        add("det_sign:prv", f"musig.det_sign {pv} {hx(pn0[:65])} {t_list(s.pks)} - {hx(s.msg)} {zero.hex()}")
    add("det_sign:cancel", f"musig.det_sign {prvs[0]} {hx(negpn0)} {t_list(s.pks)} - {hx(s.msg)} None")

    # -- nonce generation
    for name, rnd in {"short": zero[:31], "long": zero + b"\x00", "empty": b"", "zero": zero, "max": mx}.items():
        add("nonce_gen:rand_" + name, f"musig.nonce_gen {hx(rnd)} {prvs[0]} {hx(pk0)} {hx(s.aggpk)} {hx(s.msg)} None")
        add("nonce_gen:rand_" + name, f"musig.nonce_gen {hx(rnd)} None {hx(pk0)} None None None")
    r0 = s.rands[0]
    for pv in (0, N, -1, 1, N - 1, 2**256):
        add("nonce_gen:prv", f"musig.nonce_gen {hx(r0)} {pv} {hx(pk0)} None None None")
    for name in ("short", "long", "empty", "prefix04", "notoncurve02", "inf33", "uncompressed65"):
        add("nonce_gen:pk_" + name, f"musig.nonce_gen {hx(r0)} {prvs[0]} {hx(bad_keys[name])} None None None")
        add("nonce_gen:pk_" + name, f"musig.nonce_gen {hx(r0[:5])} 0 {hx(bad_keys[name])} {hx(zero[:3])} None None")
    for ap in (b"", zero[:31], zero + b"\x00", zero, mx, pk0):
        add("nonce_gen:aggpk", f"musig.nonce_gen {hx(r0)} {prvs[0]} {hx(pk0)} {hx(ap)} None None")
    for m in (None, b"", b"\x00", bytes(255), bytes(256), common.rand_bytes(rng, 300)):
        for ex in (None, b"", b"\x00", common.rand_bytes(rng, 257)):
            add("nonce_gen:msg_extra", f"musig.nonce_gen {hx(r0)} None {hx(pk0)} None {t_opt(m)} {t_opt(ex)}")

    # -- BIP340 verification
    good = musig2.partial_sig_agg(s.psigs, s.ctx)
    xq, m = s.values.Q[0], s.msg
    for r_, s_, q_, m_ in ((good.r, good.s, xq, m), (good.r, N - good.s, xq, m), (good.r, good.s + N, xq, m),
                           (good.r, good.s, xq, m + b"\x00"), (good.r, good.s, xq, b""), (nxi, good.s, xq, m),
                           (good.r, good.s, nxi, m), (good.r + P, good.s, xq, m), (good.r, good.s, xq + P, m),
                           (P, good.s, xq, m), (good.r, N, xq, m), (good.r, 0, xq, m), (0, 0, 0, m), (1, 1, 1, b""),
                           (good.r, -1, xq, m), (-1, good.s, xq, m), (good.r, good.s, -1, m),
                           (2**256, good.s, xq, m), (good.r, 2**256, xq, m), (good.r, good.s, 2**256, m),
                           (good.r, good.s, s.kctx.Q[0] ^ 1, m), (xq, good.s, good.r, m)):
        add("bip340", f"bip340.verify {q_} {hx(m_)} {r_} {s_}")

    # -- one-token mutations of valid lines
    if valid_lines:
        for _ in range(n_mut):
            base = rng.choice(valid_lines)
            add("mutated:" + base.split(" ", 1)[0], mutate_line(rng, base))
    return out


def _vec(name):
    with open(os.path.join(_DATA, name + ".json"), encoding="utf8") as f:
        return json.load(f)


def _vb(h):
    return None if h is None else bytes.fromhex(h)


def gen_vectors(ctx):  # noqa: PLR0912, PLR0915
    """the BIP327 vector files as op lines (valid and error cases)"""
    out = []

    def add(f, line):
        ctx.count("musig.vectors", f)
        out.append(line)

    def tw(ts, xs):
        return list(zip(ts, xs))

    try:
        d = _vec("key_sort_vectors")
        add("key_sort", f"musig.key_sort {t_list(map(_vb, d['pubkeys']))}")
        add("key_sort", f"musig.key_sort {t_list(map(_vb, d['sorted_pubkeys']))}")

        d = _vec("key_agg_vectors")
        pks, tws = [_vb(x) for x in d["pubkeys"]], [_vb(x) for x in d["tweaks"]]
        for c in d["valid_test_cases"]:
            add("key_agg", f"musig.key_agg {t_list(pks[i] for i in c['key_indices'])}")
        for c in d["error_test_cases"]:
            add("key_agg", f"musig.key_agg_and_tweak {t_list(pks[i] for i in c['key_indices'])} "
                f"{t_tweaks(tw([tws[i] for i in c['tweak_indices']], c['is_xonly']))}")

        d = _vec("nonce_gen_vectors")
        for c in d["test_cases"]:
            sk = None if c["sk"] is None else int(c["sk"], 16)
            add("nonce_gen", f"musig.nonce_gen {hx(_vb(c['rand_']))} {'None' if sk is None else sk} {hx(_vb(c['pk']))} "
                f"{t_opt(_vb(c['aggpk']))} {t_opt(_vb(c['msg']))} {t_opt(_vb(c['extra_in']))}")

        d = _vec("nonce_agg_vectors")
        pns = [_vb(x) for x in d["pnonces"]]
        for c in d["valid_test_cases"] + d["error_test_cases"]:
            add("nonce_agg", f"musig.nonce_agg {t_list(pns[i] for i in c['pnonce_indices'])}")

        d = _vec("sign_verify_vectors")
        sk = int(d["sk"], 16)
        pks, sns, pns = ([_vb(x) for x in d[k]] for k in ("pubkeys", "secnonces", "pnonces"))
        ans, msgs = [_vb(x) for x in d["aggnonces"]], [_vb(x) for x in d["msgs"]]
        add("sign_verify", f"musig.individual_pub_key {sk}")
        for c in d["valid_test_cases"]:
            kp, np_ = [pks[i] for i in c["key_indices"]], [pns[i] for i in c["nonce_indices"]]
            c5 = t_ctx(ans[c["aggnonce_index"]], kp, [], msgs[c["msg_index"]])
            si = c["signer_index"]
            add("sign_verify", f"musig.nonce_agg {t_list(np_)}")
            add("sign_verify", f"musig.session_values {c5}")
            add("sign_verify", f"musig.sign {hx(sns[0])} {sk} {c5}")
            add("sign_verify", f"musig.psig_verify {hx(_vb(c['expected']))} {hx(np_[si])} {hx(kp[si])} {c5}")
        for c in d["sign_error_test_cases"]:
            kp = [pks[i] for i in c["key_indices"]]
            c5 = t_ctx(ans[c["aggnonce_index"]], kp, [], msgs[c["msg_index"]])
            add("sign_verify", f"musig.sign {hx(sns[c['secnonce_index']])} {sk} {c5}")
        for c in d["verify_fail_test_cases"] + d["verify_error_test_cases"]:
            kp, np_ = [pks[i] for i in c["key_indices"]], [pns[i] for i in c["nonce_indices"]]
            si = c["signer_index"]
            add("sign_verify", f"musig.nonce_agg {t_list(np_)}")
            try:
                an = musig2.nonce_agg(np_)
            except Exception:  # noqa: BLE001 - the case's error is nonce_agg's
                continue
            c5 = t_ctx(an, kp, [], msgs[c["msg_index"]])
            add("sign_verify", f"musig.psig_verify {hx(_vb(c['sig']))} {hx(np_[si])} {hx(kp[si])} {c5}")

        d = _vec("tweak_vectors")
        sk = int(d["sk"], 16)
        pks, pns, tws = ([_vb(x) for x in d[k]] for k in ("pubkeys", "pnonces", "tweaks"))
        sn, an, msg = _vb(d["secnonce"]), _vb(d["aggnonce"]), _vb(d["msg"])
        for c in d["valid_test_cases"] + d["error_test_cases"]:
            kp, np_ = [pks[i] for i in c["key_indices"]], [pns[i] for i in c["nonce_indices"]]
            tt = tw([tws[i] for i in c["tweak_indices"]], c["is_xonly"])
            c5 = t_ctx(an, kp, tt, msg)
            add("tweak", f"musig.key_agg_and_tweak {t_list(kp)} {t_tweaks(tt)}")
            add("tweak", f"musig.sign {hx(sn)} {sk} {c5}")
            if "expected" in c:
                si = c["signer_index"]
                add("tweak", f"musig.psig_verify {hx(_vb(c['expected']))} {hx(np_[si])} {hx(kp[si])} {c5}")

        d = _vec("det_sign_vectors")
        sk = int(d["sk"], 16)
        pks, msgs = [_vb(x) for x in d["pubkeys"]], [_vb(x) for x in d["msgs"]]
        for c in d["valid_test_cases"] + d["error_test_cases"]:
            kp = [pks[i] for i in c["key_indices"]]
            tt = tw([_vb(x) for x in c["tweaks"]], c["is_xonly"])
            add("det_sign", f"musig.det_sign {sk} {hx(_vb(c['aggothernonce']))} {t_list(kp)} {t_tweaks(tt)} "
                f"{hx(msgs[c['msg_index']])} {t_opt(_vb(c['rand']))}")
            if "expected" in c:
                pn, ps = (_vb(x) for x in c["expected"])
                an = musig2.nonce_agg([_vb(c["aggothernonce"]), pn])
                c5 = t_ctx(an, kp, tt, msgs[c["msg_index"]])
                add("det_sign", f"musig.psig_verify {hx(ps)} {hx(pn)} {hx(kp[c['signer_index']])} {c5}")

        d = _vec("sig_agg_vectors")
        pks, pns, tws, pss = ([_vb(x) for x in d[k]] for k in ("pubkeys", "pnonces", "tweaks", "psigs"))
        msg = _vb(d["msg"])
        for c in d["valid_test_cases"] + d["error_test_cases"]:
            kp, np_ = [pks[i] for i in c["key_indices"]], [pns[i] for i in c["nonce_indices"]]
            tt = tw([tws[i] for i in c["tweak_indices"]], c["is_xonly"])
            ps = [pss[i] for i in c["psig_indices"]]
            an = _vb(c["aggnonce"])
            c5 = t_ctx(an, kp, tt, msg)
            add("sig_agg", f"musig.nonce_agg {t_list(np_)}")
            add("sig_agg", f"musig.psig_agg {t_list(ps)} {c5}")
            if "expected" in c:
                e = _vb(c["expected"])
                xq = musig2.key_agg_and_tweak(kp, [t for t, _ in tt], [x for _, x in tt]).Q[0]
                add("sig_agg", f"bip340.verify {xq} {hx(msg)} {int.from_bytes(e[:32], 'big')} "
                    f"{int.from_bytes(e[32:], 'big')}")
    except (OSError, KeyError, ValueError) as e:
        ctx.note(f"musig.vectors: vendored BIP327 vector files not (fully) replayed: {type(e).__name__}: {e}")
    return out


def _stream_both(ctx, name, lines):
    """`lines` on the real code under each backend against ONE evaluation of the model"""
    if not lines:
        return
    cached = None
    for tag, serving in backends():
        with backend(serving):
            cases = [(ln, impl(ln)) for ln in lines]
        if cached is not None:
            ctx.model = lambda exe, ls, _c=cached: _c  # same op lines: reuse the model's (deterministic) answers
        try:
            outs = ctx.correspond(f"{name}@{tag}", EXE, cases, key=f"{name}@{tag}")
        finally:
            if "model" in ctx.__dict__:
                del ctx.__dict__["model"]
        if outs is not None and cached is None:
            cached = outs


def _witness(rng, serving, k=None):
    prvs = g_party(rng, k)
    order = list(range(len(prvs)))
    rng.shuffle(order)
    return {"prvs": prvs, "order": order, "tweaks": [[t.hex(), x] for t, x in g_tweaks(rng)],
            "msg": g_msg(rng).hex(), "rands": [common.rand_bytes(rng, 32).hex() for _ in prvs],
            "det_rand": rng.choice([None, common.rand_bytes(rng, 32).hex()]), "serving": serving}


def run_oracles(ctx, rng):
    bs = backends()
    if len(bs) < 2:
        ctx.note("musig: libsecp256k1 bindings not installed, only the pure-Python backend was exercised")
    n_h, n_a, n_r = ctx.n(40, 400), ctx.n(24, 240), ctx.n(30, 300)
    for tag, serving in bs:
        slow = 1 if serving else 2  # the Python arithmetic costs ~20x: fewer and smaller parties there
        for _ in range(max(2, n_h // slow)):
            ctx.check("musig.honest_session", _witness(rng, serving, None if serving else rng.choice([1, 2, 2, 3, 4])))
        for _ in range(max(2, n_a // slow)):
            w = _witness(rng, serving, None if serving else rng.choice([1, 2, 3]))
            w["t"] = g_prv(rng)
            ctx.check("musig.adaptor_session", w)
        for _ in range(max(2, n_r // slow)):
            w = _witness(rng, serving, None if serving else rng.choice([1, 2, 3]))
            w.update({"i": rng.randrange(6), "j": rng.randrange(6), "bit": rng.randrange(256),
                      "msg2": g_msg(rng).hex(), "outsider": g_prv(rng)})
            ctx.check("musig.refusal", w)
    # every order of one small party, on the real code: each order is its own (valid) group
    for tag, serving in bs:
        prvs = g_party(rng, 3)
        base = _witness(rng, serving, 3)
        base["prvs"] = prvs
        perms = list(itertools.permutations(range(3)))
        for perm in (perms if ctx.tier == "thorough" else rng.sample(perms, 2)):
            ctx.check("musig.honest_session", {**base, "order": list(perm)})


def corpus_lines(ctx):
    """minimised past model/implementation disagreements (corpus/C16/musig.json), replayed first"""
    path = os.path.join(common.ROOT, "corpus", "C16", "musig.json")
    try:
        with open(path, encoding="utf8") as f:
            return [c["op"] for c in json.load(f)]
    except (OSError, ValueError, KeyError, TypeError) as e:
        ctx.note(f"musig.corpus not replayed: {type(e).__name__}: {e}")
        return []


def run_musig(ctx):
    rng = ctx.rng
    _stream_both(ctx, "musig.corpus", corpus_lines(ctx))
    prev = _curve.is_libsecp256k1_serving()
    try:
        # generation uses the real code: the fast backend where there is one (answers do not depend on it,
        # which is what the two streams per op check)
        _curve.set_libsecp256k1_serving(serving=_libsecp256k1.INSTALLED)
        L = Lines()
        gen_sessions(ctx, L, rng, ctx.n(20, 500), ctx.n(8, 200))
        gen_orders(ctx, L, rng, ctx.n(2, 30), None if ctx.tier == "thorough" else 3)
        valid = [ln for lines in L.by.values() for ln in lines]
        malformed = gen_malformed(ctx, rng, valid, ctx.n(150, 6000))
        vectors = gen_vectors(ctx)
    finally:
        _curve.set_libsecp256k1_serving(serving=prev)
    for op in sorted(L.by):
        _stream_both(ctx, op, L.by[op])
    _stream_both(ctx, "musig.malformed", malformed)
    _stream_both(ctx, "musig.vectors", vectors)
    run_oracles(ctx, rng)


def run(ctx):
    shared.validate_hashes(ctx, EXE)
    run_musig(ctx)
