"""C16 — interactive / multi-party schemes (DESIGN §3 C16).

Sections of this file, each `impl` / `oracles` / `generators/run` (their own headers say more):
  musig2     BIP327 MuSig2 with btclib's adaptor extension (correspondence + oracles)          run_musig
  twoparty   ECDH, ANSI-X9.63 / HKDF, BIP374 DLEQ (correspondence with Model/C16/Dleq.lean)     run_twoparty
  realcode   property oracles on the real code alone: ECDH, DLEQ, ECIES, ElligatorSwift, Pedersen,
             Borromean, silent payments sender -> scanner, BIP352 / BIP324 vectors            run_realcode
  sp         BIP352 silent payments (correspondence with Model/C16/SilentPayments.lean)        run_sp
  psbt       BIP373 / BIP375 roles over a PSBT, on the real code                               run_psbt

Section `musig2` (this file, below): BIP327 MuSig2 with btclib's adaptor extension, `btclib/ecc/musig2.py`.

Correspondence streams (model `lean/Model/C16/Musig2.lean` through `drv_c16` vs the real btclib, same op lines).
Every stream is evaluated twice on the real code, once with the libsecp256k1 bindings serving and once with the
pure-Python arithmetic (`btclib.curves.curve.set_libsecp256k1_serving`), names `<stream>@bindings` / `<stream>@python`;
the op lines are identical, so the (deterministic) model output is computed once and compared with both.
  musig.<op>         one stream per op, fed by full honest sessions (1..6 signers, duplicates, every order of small
                     sets, tweak sequences 0..4 over {plain, x-only}, messages of 32 and 0/1/31/33/38/100 bytes,
                     adaptor sessions) -- individual_pub_key, key_sort, key_agg, key_agg_and_tweak, nonce_gen,
                     nonce_agg, session_values, sign, det_sign, psig_verify, psig_agg, psig_agg_adaptor, adapt, extract
  bip340.verify      the aggregate / pre-signature / adapted signature under the aggregate x-only key
  musig.malformed    hand-built refusals and one-token mutations of valid lines
  musig.vectors      the BIP327 vector files of /repo/tests/ecc/_data replayed as op lines
  musig.corpus       corpus/C16/musig.json: minimised past disagreements (the error class of
                     InvalidContributionError, adapt on an r that is no x-coordinate), replayed first
Property oracles on the real code alone: musig.honest_session, musig.adaptor_session, musig.refusal.

Line protocol (mirror of lean/Driver/C16Main.lean): bytes = hex (`_` empty); list = comma-joined (`-` empty);
optional = `None`; tweak element `<hex>:<0|1>`; session context = `<aggnonce> <pks> <tweaks> <msg> <adaptor|None>`.
"""
from __future__ import annotations

import contextlib
import itertools
import json
import os

from btclib import _libsecp256k1
from btclib.curves import curve as _curve
from btclib.curves import mult, secp256k1
from btclib.curves.sec_point import bytes_from_point, point_from_octets
from btclib.ecc import musig2, ssa

from . import common, shared
from .common import hx, unhx

PROP = "C16"
EXE = "drv_c16"
GEN_MODULES = ["Interactive"]
RULE = ("op lines from one seeded PRNG: full honest MuSig2 sessions built with the real code (1..6 signers incl. "
        "duplicate keys, permutations of small sets, 0..4 plain/x-only tweaks, 32-byte and odd-size messages, adaptor "
        "sessions), hand-built refusals, one-token mutations of valid lines, and the vendored BIP327 vectors; every "
        "line is evaluated under both arithmetic backends; a case is non-trivial when the implementation did not "
        "refuse it; distinct = distinct (stream, op line)")
TRUSTED = ["Model/C16/Musig2.lean is a hand transcription of btclib/ecc/musig2.py tied by correspondence only "
           "(constants/tags regenerated: Generated/Interactive.lean)",
           "the model output of a `@python` stream is the one computed for the identical `@bindings` op lines",
           "SHA-256 / tagged hash of the driver are modelled, validated against hashlib each run (hash.* streams)",
           "libsecp256k1 (partial_sig_verify_'s delegated arm, point arithmetic) is compared, not verified"]
ASSUMPTIONS = [
    "no curve-level assumption is left on the secp256k1 statements: cofactor one (Btc.E2E.secpCofactorOne: n*g = 0 for "
    "every point of y^2 = x^3 + 7 over the secp256k1 field, i.e. #E = n) is PROVED (lean/Proofs/E2E/CofactorOne.lean), "
    "as are primality of p and n, CurveOk, p = 3 mod 4 and Delta != 0; the counted theorems musig2_{tweak_invariant,"
    "partial_sig_verifies,aggregate_verifies,adaptor_completes}_secp256k1_raw (MuSig2 T1-T4 over the raw "
    "Btc.EC.ops secp256k1) apply it and carry no hcof argument any more",
    "every other counted theorem is abstract: its hypothesis Btc.Lawful / Btc.LawfulGroup (the ops are those of a group "
    "of prime order with x / parity / lift_x maps) is proved by C01 for the carrier opsSub (EC.ops restricted to reduced "
    "valid n-torsion pairs), and the _ec / _secp256k1 forms instantiate it; the abstract DLEQ / ECIES / Pedersen / "
    "BIP352 scan and end-to-end theorems have no raw EC.ops form written out",
    "hypotheses the counted theorems carry besides Lawful: hp/hn (coordinates and scalars fit 32 bytes: decided for "
    "secp256k1), hH (32-byte digests) for DLEQ, hD (D(E(m)) = m) for the ECIES cipher parameter, hR (final nonce not "
    "infinity) for MuSig2 T3/T4, hnz (address scan points are not infinity) and hrec (the scanning recipient's "
    "payments all go to its one unlabelled address) for sp_end_to_end, LabelsOk for the scan soundness theorem",
]

ORACLES: dict = {}

N = secp256k1.n
P = secp256k1.p
_DATA = "/repo/tests/ecc/_data"


# ---- backends ----------------------------------------------------------------------------------------
def backends():
    """[(tag, serving)] available in this interpreter."""
    out = [("python", False)]
    if _libsecp256k1.INSTALLED:
        out.insert(0, ("bindings", True))
    return out


@contextlib.contextmanager
def backend(serving: bool):
    """Run the real code with the bindings serving / not serving; the previous state is restored."""
    prev = _curve.is_libsecp256k1_serving()
    _curve.set_libsecp256k1_serving(serving=bool(serving))
    try:
        yield
    finally:
        _curve.set_libsecp256k1_serving(serving=prev)


# ---- tokens ------------------------------------------------------------------------------------------
def t_list(items) -> str:
    items = list(items)
    return ",".join(hx(bytes(b)) for b in items) if items else "-"


def t_tweaks(tweaks) -> str:
    """tweaks: [(bytes, bool)]"""
    return ",".join(f"{hx(t)}:{1 if x else 0}" for t, x in tweaks) if tweaks else "-"


def t_opt(b) -> str:
    return "None" if b is None else hx(bytes(b))


def t_ctx(aggnonce, pks, tweaks, msg, adaptor=None) -> str:
    return f"{hx(aggnonce)} {t_list(pks)} {t_tweaks(tweaks)} {hx(msg)} {t_opt(adaptor)}"


def p_list(tok):
    return [] if tok == "-" else [unhx(x) for x in tok.split(",")]


def p_tweaks(tok):
    if tok == "-":
        return [], []
    ts, xs = [], []
    for el in tok.split(","):
        h, f = el.split(":")
        if f not in ("0", "1"):
            raise ValueError("flag")
        ts.append(unhx(h))
        xs.append(f == "1")
    return ts, xs


def p_opt(tok):
    return None if tok == "None" else unhx(tok)


def p_optint(tok):
    return None if tok == "None" else int(tok)


# ---- musig2: impl --------------------------------------------------------------------------------------
def _err(e: BaseException) -> str:
    c = common.err_class(e)
    return "err " + (c if not c.startswith("foreign") else "foreign")


def _r_kc(c) -> str:
    return f"{c.Q[0]} {c.Q[1]} {c.gacc} {c.tacc}"


def _mk_ctx(t5):
    an, pks, tws, msg, ad = t5
    ts, xs = p_tweaks(tws)
    return musig2.SessionContext(unhx(an), p_list(pks), ts, xs, unhx(msg), p_opt(ad))


def _with_ctx(t5, k):
    """a context SessionContext.__init__ refuses answers before anything else (driver: withCtx)"""
    try:
        c = _mk_ctx(t5)
    except Exception as e:  # noqa: BLE001
        if isinstance(e, ValueError) and common.err_class(e).startswith("foreign"):
            return "bad-op"  # token that is not hex
        return _err(e)
    try:
        return "ok " + k(c)
    except Exception as e:  # noqa: BLE001 - the class is the observation
        return _err(e)


def _call(f) -> str:
    try:
        return "ok " + f()
    except Exception as e:  # noqa: BLE001
        return _err(e)


def _bip340_verify(xq: int, msg: bytes, r: int, s: int) -> str:
    sig = ssa.Sig(r, s, check_validity=False)
    return "True" if ssa.verify_(msg, xq, sig) else "False"


def _impl_musig(t) -> str:  # noqa: PLR0911, PLR0912
    op, a = t[0], t[1:]
    try:
        if op == "musig.individual_pub_key" and len(a) == 1:
            d = int(a[0])
            return _call(lambda: hx(musig2.individual_pub_key(d)))
        if op == "musig.key_sort" and len(a) == 1:
            pks = p_list(a[0])
            return _call(lambda: t_list(musig2.key_sort(pks)))
        if op == "musig.key_agg" and len(a) == 1:
            pks = p_list(a[0])
            return _call(lambda: _r_kc(musig2.key_agg(pks)))
        if op == "musig.key_agg_and_tweak" and len(a) == 2:
            pks = p_list(a[0])
            ts, xs = p_tweaks(a[1])
            return _call(lambda: _r_kc(musig2.key_agg_and_tweak(pks, ts, xs)))
        if op == "musig.nonce_gen" and len(a) == 6:
            rand, prv, pk = unhx(a[0]), p_optint(a[1]), unhx(a[2])
            aggpk, msg, extra = p_opt(a[3]), p_opt(a[4]), p_opt(a[5])

            def f():
                sn, pn = musig2.nonce_gen_(rand, prv, pk, aggpk, msg, extra)
                return f"{hx(bytes(sn))} {hx(pn)}"
            return _call(f)
        if op == "musig.nonce_agg" and len(a) == 1:
            pns = p_list(a[0])
            return _call(lambda: hx(musig2.nonce_agg(pns)))
        if op == "musig.session_values" and len(a) == 5:
            def f(c):
                v = musig2.session_values(c)
                return f"{v.Q[0]} {v.Q[1]} {v.gacc} {v.tacc} {v.b} {v.R[0]} {v.R[1]} {v.e}"
            return _with_ctx(a, f)
        if op == "musig.sign" and len(a) == 7:
            sn, prv = unhx(a[0]), int(a[1])
            if len(sn) != 97:
                return "bad-op"
            # a fresh bytearray each time: sign consumes (zeroes) the one it is given
            return _with_ctx(a[2:], lambda c: hx(musig2.sign(bytearray(sn), prv, c)))
        if op == "musig.det_sign" and len(a) == 6:
            prv, ao, pks = int(a[0]), unhx(a[1]), p_list(a[2])
            ts, xs = p_tweaks(a[3])
            msg, rand = unhx(a[4]), p_opt(a[5])

            def f():
                pn, ps = musig2.deterministic_sign(prv, ao, pks, ts, xs, msg, rand)
                return f"{hx(pn)} {hx(ps)}"
            return _call(f)
        if op == "musig.psig_verify" and len(a) == 8:
            psig, pn, pk = unhx(a[0]), unhx(a[1]), unhx(a[2])
            return _with_ctx(a[3:], lambda c: "True" if musig2.partial_sig_verify_(psig, pn, pk, c) else "False")
        if op == "musig.psig_agg" and len(a) == 6:
            psigs = p_list(a[0])

            def f(c):
                sig = musig2.partial_sig_agg(psigs, c)
                return f"{sig.r} {sig.s}"
            return _with_ctx(a[1:], f)
        if op == "musig.psig_agg_adaptor" and len(a) == 6:
            psigs = p_list(a[0])

            def f(c):
                pre = musig2.partial_sig_agg_adaptor(psigs, c)
                return f"{pre.r} {pre.s}"
            return _with_ctx(a[1:], f)
        if op == "musig.adapt" and len(a) == 8:
            pre = musig2.PreSignature(int(a[0]), int(a[1]))
            tt = int(a[2])

            def f(c):
                sig = musig2.adapt(pre, tt, c)
                return f"{sig.r} {sig.s}"
            return _with_ctx(a[3:], f)
        if op == "musig.extract" and len(a) == 9:
            sig = ssa.Sig(int(a[0]), int(a[1]), check_validity=False)
            pre = musig2.PreSignature(int(a[2]), int(a[3]))
            return _with_ctx(a[4:], lambda c: hx(musig2.extract_adaptor(sig, pre, c)))
        if op == "bip340.verify" and len(a) == 4:
            xq, msg, r, s = int(a[0]), unhx(a[1]), int(a[2]), int(a[3])
            return _call(lambda: _bip340_verify(xq, msg, r, s))
    except ValueError:  # a token that does not parse (the driver answers bad-op as well)
        return "bad-op"
    return "bad-op"


def impl(line: str) -> str:
    t = line.split(" ")
    if t[0].startswith("musig.") or t[0].startswith("bip340."):
        return _impl_musig(t)
    if t[0].startswith("dh.") or t[0].startswith("kdf.") or t[0].startswith("dleq."):
        return _impl_twoparty(t)
    if t[0].startswith("sp."):
        return _impl_sp(t)
    if t[0].startswith("pedersen."):
        return _impl_pedersen(t)
    if t[0].startswith("psbt."):
        return _impl_psbt(t)
    if t[0].startswith("ecies."):
        return _impl_ecies(t)
    if t[0].startswith("ell."):
        return _impl_ell(t)
    return "bad-op"


# ---- musig2: oracles -----------------------------------------------------------------------------------
def _w_tweaks(w):
    return [bytes.fromhex(t) for t, _ in w["tweaks"]], [bool(x) for _, x in w["tweaks"]]


class _Honest:
    """An honest session re-run from a witness, on the real code alone."""

    def __init__(self, w, adaptor_t=None):
        self.prvs = [w["prvs"][i] for i in w["order"]]
        self.pks = [musig2.individual_pub_key(d) for d in self.prvs]
        self.tweaks, self.xonly = _w_tweaks(w)
        self.msg = bytes.fromhex(w["msg"])
        self.rands = [bytes.fromhex(r) for r in w["rands"]]
        self.kctx = musig2.key_agg_and_tweak(self.pks, self.tweaks, self.xonly)
        self.aggpk = self.kctx.x_only_pub_key
        self.adaptor = None if adaptor_t is None else bytes_from_point(mult(adaptor_t, ec=secp256k1), secp256k1)
        self.gen_nonces()
        self.aggnonce = musig2.nonce_agg(self.pubnonces)
        self.ctx = self.context(self.aggnonce)
        self.psigs = [musig2.sign(self.secnonces[i], self.prvs[i], self.ctx) for i in range(len(self.prvs))]

    def gen_nonces(self):
        self.secnonces, self.pubnonces = [], []
        for i, (d, pk) in enumerate(zip(self.prvs, self.pks)):
            sn, pn = musig2.nonce_gen_(self.rands[i], d, pk, self.aggpk, self.msg, i.to_bytes(4, "big"))
            self.secnonces.append(sn)
            self.pubnonces.append(pn)

    def context(self, aggnonce, msg=None):
        return musig2.SessionContext(aggnonce, self.pks, self.tweaks, self.xonly,
                                     self.msg if msg is None else msg, self.adaptor)


def _o_honest_session(w):
    with backend(w["serving"]):
        try:
            s = _Honest(w)
            k = len(s.prvs)
            for i in range(k):
                if not musig2.partial_sig_verify_(s.psigs[i], s.pubnonces[i], s.pks[i], s.ctx):
                    return False, f"partial_sig_verify_ refuses the honest partial signature of signer {i}"
                if not musig2.partial_sig_verify(s.psigs[i], s.pubnonces, s.pks, s.tweaks, s.xonly, s.msg, i):
                    return False, f"partial_sig_verify refuses the honest partial signature of signer {i}"
            sig = musig2.partial_sig_agg(s.psigs, s.ctx)
            if not ssa.verify_(s.msg, s.aggpk, sig):
                return False, "aggregate of honest partial signatures fails ssa.verify_ under the aggregate key"
            ssa.assert_as_valid_(s.msg, s.aggpk, sig)
            if any(bytes(sn[:64]) != bytes(64) for sn in s.secnonces):
                return False, "sign left a secnonce unspent"
            if k >= 2:  # the last signer acts deterministically on the aggregate of the others' nonces
                others = musig2.nonce_agg(s.pubnonces[:-1])
                rand = None if w.get("det_rand") is None else bytes.fromhex(w["det_rand"])
                pn, ps = musig2.deterministic_sign(s.prvs[-1], others, s.pks, s.tweaks, s.xonly, s.msg, rand)
                s.gen_nonces()
                pubnonces = s.pubnonces[:-1] + [pn]
                c2 = s.context(musig2.nonce_agg(pubnonces))
                psigs = [musig2.sign(s.secnonces[i], s.prvs[i], c2) for i in range(k - 1)] + [ps]
                if not musig2.partial_sig_verify_(ps, pn, s.pks[-1], c2):
                    return False, "deterministic_sign's partial signature is refused"
                if not ssa.verify_(s.msg, s.aggpk, musig2.partial_sig_agg(psigs, c2)):
                    return False, "aggregate with a deterministic last signer fails ssa.verify_"
        except Exception as e:  # noqa: BLE001
            return False, f"honest session raised {type(e).__name__}: {str(e)[:120]}"
    return True, f"{len(w['order'])} signers, {len(w['tweaks'])} tweaks"


def _o_adaptor_session(w):
    t = w["t"]
    with backend(w["serving"]):
        try:
            s = _Honest(w, adaptor_t=t)
            for i in range(len(s.prvs)):
                if not musig2.partial_sig_verify_(s.psigs[i], s.pubnonces[i], s.pks[i], s.ctx):
                    return False, f"adaptor session: honest partial signature of signer {i} refused"
            pre = musig2.partial_sig_agg_adaptor(s.psigs, s.ctx)
            if ssa.verify_(s.msg, s.aggpk, ssa.Sig(pre.r, pre.s, check_validity=False)):
                return False, "the pre-signature verifies as a signature"
            sig = musig2.adapt(pre, t, s.ctx)
            if not ssa.verify_(s.msg, s.aggpk, sig):
                return False, "adapt(pre, t) fails ssa.verify_"
            got = musig2.extract_adaptor(sig, pre, s.ctx)
            if got != t.to_bytes(32, "big"):
                return False, f"extract_adaptor answers {got.hex()} for t={t}"
            t2 = t % (N - 1) + 1  # another secret
            if ssa.verify_(s.msg, s.aggpk, musig2.adapt(pre, t2, s.ctx)):
                return False, "adapt with another secret verifies"
            try:
                musig2.partial_sig_agg(s.psigs, s.ctx)
                return False, "partial_sig_agg accepted a session carrying an adaptor"
            except Exception as e:  # noqa: BLE001
                if common.err_class(e) != "value":
                    return False, f"partial_sig_agg on an adaptor session raised {type(e).__name__}"
        except Exception as e:  # noqa: BLE001
            return False, f"adaptor session raised {type(e).__name__}: {str(e)[:120]}"
    return True, "pre-signature refused, adapted accepted, secret extracted"


def _flip(b: bytes, bit: int) -> bytes:
    v = int.from_bytes(b, "big") ^ (1 << (bit % (8 * len(b))))
    return v.to_bytes(len(b), "big")


def _o_refusal(w):  # noqa: PLR0911, PLR0912
    with backend(w["serving"]):
        try:
            s = _Honest(w)
            k = len(s.prvs)
            i = w["i"] % k
            bad = _flip(s.psigs[i], w["bit"])
            if musig2.partial_sig_verify_(bad, s.pubnonces[i], s.pks[i], s.ctx):
                return False, f"a partial signature with bit {w['bit'] % 256} flipped is accepted"
            if musig2.partial_sig_verify(bad, s.pubnonces, s.pks, s.tweaks, s.xonly, s.msg, i):
                return False, "partial_sig_verify accepts a partial signature with one bit flipped"
            neg = ((N - int.from_bytes(s.psigs[i], "big")) % N).to_bytes(32, "big")
            if neg != s.psigs[i] and musig2.partial_sig_verify_(neg, s.pubnonces[i], s.pks[i], s.ctx):
                return False, "the negation of a partial signature is accepted"
            msg2 = bytes.fromhex(w["msg2"])
            if msg2 != s.msg and musig2.partial_sig_verify_(s.psigs[i], s.pubnonces[i], s.pks[i],
                                                            s.context(s.aggnonce, msg2)):
                return False, "a partial signature is accepted under another session message"
            if k >= 2:
                j = (i + 1 + w["j"] % (k - 1)) % k
                if musig2.partial_sig_verify_(s.psigs[i], s.pubnonces[j], s.pks[i], s.ctx):
                    return False, f"partial signature of signer {i} accepted against the pubnonce of signer {j}"
                if s.pks[j] != s.pks[i] and musig2.partial_sig_verify_(s.psigs[i], s.pubnonces[i], s.pks[j], s.ctx):
                    return False, f"partial signature of signer {i} accepted under the key of signer {j}"
            # a key that is not in the session is refused (raises), whatever the signature
            out_pk = musig2.individual_pub_key(w["outsider"])
            if out_pk not in s.pks:
                try:
                    musig2.partial_sig_verify_(s.psigs[i], s.pubnonces[i], out_pk, s.ctx)
                    return False, "a public key that is not in the session is answered, not refused"
                except Exception as e:  # noqa: BLE001
                    if common.err_class(e) != "value":
                        return False, f"foreign key raised {type(e).__name__}"
            sig = musig2.partial_sig_agg(s.psigs[:i] + [bad] + s.psigs[i + 1:], s.ctx) \
                if int.from_bytes(bad, "big") < N else None
            if sig is not None and ssa.verify_(s.msg, s.aggpk, sig):
                return False, "an aggregate containing an altered partial signature verifies"
            good = musig2.partial_sig_agg(s.psigs, s.ctx)
            if msg2 != s.msg and ssa.verify_(msg2, s.aggpk, good):
                return False, "the aggregate verifies for another message"
            other_pk = musig2.key_agg_and_tweak(s.pks + [out_pk], s.tweaks, s.xonly).x_only_pub_key
            if other_pk != s.aggpk and ssa.verify_(s.msg, other_pk, good):
                return False, "the aggregate verifies under another group's key"
            # a signer whose key is not in the list cannot sign; a secnonce made for another key is refused
            sn, _pn = musig2.nonce_gen_(s.rands[0], w["outsider"], out_pk, s.aggpk, s.msg, None)
            if out_pk not in s.pks:
                try:
                    musig2.sign(sn, w["outsider"], s.ctx)
                    return False, "sign accepted a signer that is not in the session"
                except Exception as e:  # noqa: BLE001
                    if common.err_class(e) != "value":
                        return False, f"sign by an outsider raised {type(e).__name__}"
                s.gen_nonces()
                try:
                    musig2.sign(s.secnonces[i], w["outsider"], s.ctx)
                    return False, "sign accepted a secnonce generated for another key"
                except Exception as e:  # noqa: BLE001
                    if common.err_class(e) != "value":
                        return False, f"sign with a wrong key raised {type(e).__name__}"
        except Exception as e:  # noqa: BLE001
            return False, f"refusal session raised {type(e).__name__}: {str(e)[:120]}"
    return True, "altered / misattributed partial signatures refused"


ORACLES.update({"musig.honest_session": _o_honest_session, "musig.adaptor_session": _o_adaptor_session,
                "musig.refusal": _o_refusal})


# ---- musig2: generators/run ----------------------------------------------------------------------------
MSG_ODD = [0, 1, 31, 33, 38, 100]


def g_prv(rng) -> int:
    r = rng.random()
    if r < 0.04:
        return rng.choice([1, 2, 3, N - 1, N - 2])
    return 1 + rng.getrandbits(256) % (N - 1)


def g_msg(rng) -> bytes:
    if rng.random() < 0.72:
        return common.rand_bytes(rng, 32)
    return common.rand_bytes(rng, rng.choice(MSG_ODD))


def g_tweak(rng):
    r = rng.random()
    t = rng.choice([0, 1, N - 1]) if r < 0.08 else rng.getrandbits(256) % N
    return t.to_bytes(32, "big"), rng.random() < 0.5


def g_tweaks(rng):
    return [g_tweak(rng) for _ in range(rng.choice([0, 0, 1, 1, 1, 2, 2, 3, 4]))]


def g_party(rng, k=None):
    """private keys of a party of k signers, sometimes with a duplicated key / all keys equal"""
    if k is None:
        k = rng.choice([1, 2, 2, 2, 3, 3, 3, 4, 4, 5, 6])
    prvs = [g_prv(rng) for _ in range(k)]
    r = rng.random()
    if k >= 2 and r < 0.25:
        i, j = rng.sample(range(k), 2)
        prvs[j] = prvs[i]
    elif k >= 2 and r < 0.32:
        prvs = [prvs[0]] * k
    return prvs


def bad_x(rng) -> bytes:
    """32 bytes that are no x-coordinate of secp256k1"""
    while True:
        x = common.rand_bytes(rng, 32)
        try:
            point_from_octets(b"\x02" + x, secp256k1)
        except Exception:  # noqa: BLE001
            return x


class Lines:
    """op lines collected per stream"""

    def __init__(self):
        self.by: dict[str, list[str]] = {}

    def add(self, op_line, stream=None):
        name = stream or op_line.split(" ", 1)[0]
        self.by.setdefault(name, []).append(op_line)


class Session:
    """A session built with the real code (the generator's working copy of an honest run)."""

    def __init__(self, rng, prvs, tweaks, msg, t=None, nonce_variant=0):
        self.prvs, self.tweaks, self.msg, self.t = list(prvs), list(tweaks), msg, t
        self.pks = [musig2.individual_pub_key(d) for d in prvs]
        self.ts = [x for x, _ in tweaks]
        self.xs = [f for _, f in tweaks]
        self.kctx = musig2.key_agg_and_tweak(self.pks, self.ts, self.xs)
        self.aggpk = self.kctx.x_only_pub_key
        self.adaptor = None if t is None else bytes_from_point(mult(t, ec=secp256k1), secp256k1)
        self.rands = [common.rand_bytes(rng, 32) for _ in prvs]
        self.nonce_args = []
        for i, (d, pk) in enumerate(zip(self.prvs, self.pks)):
            v = nonce_variant if nonce_variant else rng.choice([1, 1, 1, 2, 3, 4, 5])
            args = {1: (d, self.aggpk, msg, i.to_bytes(4, "big")), 2: (None, None, None, None),
                    3: (d, None, msg, None), 4: (None, self.aggpk, b"", b""),
                    5: (d, self.aggpk, None, common.rand_bytes(rng, rng.choice([1, 8, 70])))}[v]
            self.nonce_args.append(args)
        self.secnonces, self.pubnonces = [], []
        for i, pk in enumerate(self.pks):
            d, ap, m, ex = self.nonce_args[i]
            sn, pn = musig2.nonce_gen_(self.rands[i], d, pk, ap, m, ex)
            self.secnonces.append(bytes(sn))
            self.pubnonces.append(pn)
        self.aggnonce = musig2.nonce_agg(self.pubnonces)
        self.ctx = musig2.SessionContext(self.aggnonce, self.pks, self.ts, self.xs, msg, self.adaptor)
        self.values = musig2.session_values(self.ctx)
        self.psigs = [musig2.sign(bytearray(self.secnonces[i]), self.prvs[i], self.ctx) for i in range(len(prvs))]

    def c5(self, **kw):
        return t_ctx(kw.get("aggnonce", self.aggnonce), kw.get("pks", self.pks), kw.get("tweaks", self.tweaks),
                     kw.get("msg", self.msg), kw.get("adaptor", self.adaptor))


def emit_session(ctx, L: Lines, s: Session, rng, full=True):  # noqa: PLR0912
    """op lines of every round of one honest session"""
    k = len(s.prvs)
    ctx.count("musig.signers", str(k))
    ctx.count("musig.tweaks", "".join("x" if f else "p" for f in s.xs) or "none")
    ctx.count("musig.msg_len", str(len(s.msg)))
    ctx.count("musig.parity", f"Q{'odd' if s.values.Q[1] % 2 else 'even'} R{'odd' if s.values.R[1] % 2 else 'even'} "
              f"g{'-' if s.values.gacc != 1 else '+'}{' adaptor' if s.t is not None else ''}")
    ctx.count("musig.distinct_keys", f"{len(set(s.pks))}/{k}")
    c5 = s.c5()
    if full:
        for d in s.prvs:
            L.add(f"musig.individual_pub_key {d}")
        L.add(f"musig.key_sort {t_list(s.pks)}")
        L.add(f"musig.key_agg {t_list(s.pks)}")
        L.add(f"musig.key_agg_and_tweak {t_list(s.pks)} {t_tweaks(s.tweaks)}")
        for i in range(k):
            d, ap, m, ex = s.nonce_args[i]
            L.add(f"musig.nonce_gen {hx(s.rands[i])} {'None' if d is None else d} {hx(s.pks[i])} {t_opt(ap)} "
                  f"{t_opt(m)} {t_opt(ex)}")
        L.add(f"musig.nonce_agg {t_list(s.pubnonces)}")
    L.add(f"musig.session_values {c5}")
    for i in range(k):
        L.add(f"musig.sign {hx(s.secnonces[i])} {s.prvs[i]} {c5}")
        L.add(f"musig.psig_verify {hx(s.psigs[i])} {hx(s.pubnonces[i])} {hx(s.pks[i])} {c5}")
    xq = s.values.Q[0]
    if s.t is None:
        sig = musig2.partial_sig_agg(s.psigs, s.ctx)
        L.add(f"musig.psig_agg {t_list(s.psigs)} {c5}")
        L.add(f"bip340.verify {xq} {hx(s.msg)} {sig.r} {sig.s}")
        if rng.random() < 0.3:
            L.add(f"bip340.verify {xq} {hx(s.msg)} {sig.r} {sig.s ^ (1 << rng.randrange(255))}")
    else:
        pre = musig2.partial_sig_agg_adaptor(s.psigs, s.ctx)
        sig = musig2.adapt(pre, s.t, s.ctx)
        L.add(f"musig.psig_agg_adaptor {t_list(s.psigs)} {c5}")
        L.add(f"bip340.verify {xq} {hx(s.msg)} {pre.r} {pre.s}")
        L.add(f"musig.adapt {pre.r} {pre.s} {s.t} {c5}")
        L.add(f"musig.extract {sig.r} {sig.s} {pre.r} {pre.s} {c5}")
        L.add(f"bip340.verify {xq} {hx(s.msg)} {sig.r} {sig.s}")
    if full and s.t is None and k >= 2 and rng.random() < 0.5:
        # the last signer signs deterministically over the aggregate of the others' nonces
        others = musig2.nonce_agg(s.pubnonces[:-1])
        rand = rng.choice([None, b"", common.rand_bytes(rng, 32), common.rand_bytes(rng, rng.choice([1, 31, 33]))])
        L.add(f"musig.nonce_agg {t_list(s.pubnonces[:-1])}")
        L.add(f"musig.det_sign {s.prvs[-1]} {hx(others)} {t_list(s.pks)} {t_tweaks(s.tweaks)} {hx(s.msg)} {t_opt(rand)}")
        pn, ps = musig2.deterministic_sign(s.prvs[-1], others, s.pks, s.ts, s.xs, s.msg, rand)
        an = musig2.nonce_agg(s.pubnonces[:-1] + [pn])
        L.add(f"musig.psig_verify {hx(ps)} {hx(pn)} {hx(s.pks[-1])} {s.c5(aggnonce=an)}")


def gen_sessions(ctx, L: Lines, rng, n_plain, n_adaptor):
    for idx in range(n_plain + n_adaptor):
        prvs = g_party(rng)
        rng.shuffle(prvs)
        t = None if idx < n_plain else g_prv(rng)
        s = Session(rng, prvs, g_tweaks(rng), g_msg(rng), t=t)
        emit_session(ctx, L, s, rng)


def gen_orders(ctx, L: Lines, rng, n_sets, sample):
    """every order (or a sample of the orders) of small key sets: the aggregate key depends on the order,
    the aggregate nonce does not"""
    for _ in range(n_sets):
        k = rng.choice([2, 3, 3, 4, 4])
        prvs = g_party(rng, k)
        tweaks, msg = g_tweaks(rng), g_msg(rng)
        base = Session(rng, prvs, tweaks, msg, nonce_variant=2)
        perms = sorted(set(itertools.permutations(range(k))))
        if sample is not None and len(perms) > sample:
            perms = [perms[0]] + rng.sample(perms[1:], sample - 1)
        for perm in perms:
            pks = [base.pks[i] for i in perm]
            pns = [base.pubnonces[i] for i in perm]
            ctx.count("musig.orders", str(k))
            L.add(f"musig.key_agg {t_list(pks)}")
            L.add(f"musig.nonce_agg {t_list(pns)}")
            c5 = base.c5(pks=pks)
            L.add(f"musig.session_values {c5}")
            i = rng.randrange(k)
            pctx = musig2.SessionContext(base.aggnonce, pks, base.ts, base.xs, msg)
            psig = musig2.sign(bytearray(base.secnonces[i]), base.prvs[i], pctx)
            L.add(f"musig.sign {hx(base.secnonces[i])} {base.prvs[i]} {c5}")
            L.add(f"musig.psig_verify {hx(psig)} {hx(base.pubnonces[i])} {hx(base.pks[i])} {c5}")


# which argument positions of an op are integers (everything else is hex / list / optional hex)
INT_POS = {"musig.individual_pub_key": {1}, "musig.nonce_gen": {2}, "musig.sign": {2}, "musig.det_sign": {1},
           "musig.adapt": {1, 2, 3}, "musig.extract": {1, 2, 3, 4}, "bip340.verify": {1, 3, 4}}


def _mut_hex(rng, tok: str) -> str:
    if tok == "_":
        return rng.choice(["00", "ff"])
    b = bytearray(bytes.fromhex(tok))
    r = rng.random()
    if r < 0.70:
        i = rng.randrange(len(b))
        b[i] ^= 1 << rng.randrange(8)
    elif r < 0.80:
        b[0] = rng.choice([0, 1, 2, 3, 4, 5, 6, 7, 0xFF])
    elif r < 0.88:
        b = b[:-1]
    elif r < 0.95:
        b.append(rng.getrandbits(8))
    else:
        b = bytearray(len(b)) if rng.random() < 0.5 else bytearray(b"\xff" * len(b))
    return hx(bytes(b))


def mutate_line(rng, line: str) -> str:
    """one token of a valid line altered, every token still of its syntactic type"""
    t = line.split(" ")
    cand = [i for i in range(1, len(t)) if t[i] not in ("None", "-")]
    if not cand:
        return line
    i = rng.choice(cand)
    tok = t[i]
    if i in INT_POS.get(t[0], ()):
        v = int(tok)
        t[i] = str(rng.choice([v + 1, v - 1, v ^ (1 << rng.randrange(256)), N - v, 0, N, -v]))
    elif "," in tok or ":" in tok:
        els = tok.split(",")
        j = rng.randrange(len(els))
        r = rng.random()
        if r < 0.6:
            if ":" in els[j]:
                h, f = els[j].split(":")
                els[j] = f"{_mut_hex(rng, h)}:{f}" if rng.random() < 0.7 else f"{h}:{1 - int(f)}"
            else:
                els[j] = _mut_hex(rng, els[j])
        elif r < 0.75 and len(els) > 1:
            del els[j]
        elif r < 0.9:
            els.insert(j, els[rng.randrange(len(els))])
        else:
            rng.shuffle(els)
        t[i] = ",".join(els)
    else:
        t[i] = _mut_hex(rng, tok)
    return " ".join(t)


def gen_malformed(ctx, rng, valid_lines, n_mut):  # noqa: PLR0915
    """hand-built refusals around two honest sessions, then one-token mutations of valid lines"""
    out = []

    def add(cls, line):
        ctx.count("musig.malformed_class", cls)
        out.append(line)

    prvs = [g_prv(rng) for _ in range(3)]
    s = Session(rng, prvs, [g_tweak(rng)], common.rand_bytes(rng, 32), nonce_variant=1)
    sa = Session(rng, prvs[:2], [], common.rand_bytes(rng, 32), t=g_prv(rng), nonce_variant=1)
    outsider = g_prv(rng)
    out_pk = musig2.individual_pub_key(outsider)
    pk0, pk1 = s.pks[0], s.pks[1]
    nx = bad_x(rng)
    bad_keys = {"short": pk0[:32], "long": pk0 + b"\x00", "empty": b"", "uncompressed65": bytes_from_point(
        mult(prvs[0], ec=secp256k1), secp256k1, compressed=False), "prefix04": b"\x04" + pk0[1:],
        "prefix05": b"\x05" + pk0[1:], "prefix00": b"\x00" + pk0[1:], "notoncurve02": b"\x02" + nx,
        "notoncurve03": b"\x03" + nx, "x=p": b"\x02" + P.to_bytes(32, "big"), "x>=p": b"\x03" + b"\xff" * 32,
        "inf33": bytes(33), "x=0": b"\x02" + bytes(32)}
    zero = bytes(32)
    bad_tweaks = {"short": zero[:31], "long": zero + b"\x01", "empty": b"", "n": N.to_bytes(32, "big"),
                  "n+1": (N + 1).to_bytes(32, "big"), "max": b"\xff" * 32}
    ok_tweaks = {"0": zero, "1": (1).to_bytes(32, "big"), "n-1": (N - 1).to_bytes(32, "big")}

    # -- keys
    for v in (0, 1, N - 1, N, N + 1, -1, -N, 2**256 - 1, 2**256, 2**300):
        add("prv_range", f"musig.individual_pub_key {v}")
    add("empty_keys", "musig.key_agg -")
    add("empty_keys", "musig.key_sort -")
    add("empty_keys", f"musig.key_agg_and_tweak - {t_tweaks([(zero, True)])}")
    for name, bk in bad_keys.items():
        for pos in (0, 1, 2):
            pks = list(s.pks)
            pks[pos] = bk
            add("key:" + name, f"musig.key_agg {t_list(pks)}")
        add("key:" + name, f"musig.key_agg {t_list([bk])}")
        add("key:" + name, f"musig.key_sort {t_list([pk1, bk, pk0])}")
        add("key:" + name, f"musig.key_agg_and_tweak {t_list([pk0, bk])} {t_tweaks(s.tweaks)}")
        add("key:" + name, f"musig.session_values {s.c5(pks=[pk0, pk1, bk])}")
        add("key:" + name, f"musig.psig_verify {hx(s.psigs[0])} {hx(s.pubnonces[0])} {hx(bk)} {s.c5()}")
        add("key:" + name, f"musig.psig_agg {t_list(s.psigs)} {s.c5(pks=[bk, pk1, s.pks[2]])}")
        add("key:" + name, f"musig.det_sign {prvs[0]} {hx(s.pubnonces[1])} {t_list([pk0, bk])} - {hx(s.msg)} None")
    # a wrong-length key AND an unparsable one: the length check of the whole list comes first
    add("key:order", f"musig.key_agg {t_list([bad_keys['notoncurve02'], bad_keys['short']])}")
    add("key:order", f"musig.key_agg {t_list([bad_keys['short'], bad_keys['notoncurve02']])}")
    # negated keys cancel only with equal coefficients: P, -P is an ordinary (valid) party
    neg0 = bytes([pk0[0] ^ 1]) + pk0[1:]
    add("key:negated", f"musig.key_agg {t_list([pk0, neg0])}")
    add("key:negated", f"musig.key_agg {t_list([pk0, neg0, pk0, neg0])}")

    # -- tweaks
    for name, bt in {**bad_tweaks, **ok_tweaks}.items():
        for x in (False, True):
            add("tweak:" + name, f"musig.key_agg_and_tweak {t_list(s.pks)} {t_tweaks([(bt, x)])}")
            add("tweak:" + name, f"musig.key_agg_and_tweak {t_list(s.pks)} {t_tweaks([s.tweaks[0], (bt, x)])}")
        add("tweak:" + name, f"musig.session_values {s.c5(tweaks=[(bt, True)])}")
        add("tweak:" + name, f"musig.sign {hx(s.secnonces[0])} {prvs[0]} {s.c5(tweaks=[(bt, False)])}")
        add("tweak:" + name, f"musig.det_sign {prvs[0]} {hx(s.pubnonces[1])} {t_list(s.pks)} {t_tweaks([(bt, True)])} "
            f"{hx(s.msg)} None")
    # a bad tweak after a bad key, a bad key after a bad tweak: the key is looked at first
    add("tweak:order", f"musig.key_agg_and_tweak {t_list([bad_keys['notoncurve02']])} {t_tweaks([(bad_tweaks['n'], True)])}")
    add("tweak:order", f"musig.key_agg_and_tweak {t_list([pk0])} {t_tweaks([(bad_tweaks['n'], True), (bad_tweaks['short'], False)])}")

    # -- public nonces
    pn0, pn1 = s.pubnonces[0], s.pubnonces[1]
    negpn0 = bytes([pn0[0] ^ 1]) + pn0[1:33] + bytes([pn0[33] ^ 1]) + pn0[34:]
    bad_nonces = {"short": pn0[:65], "long": pn0 + b"\x02", "empty": b"", "half": pn0[:33],
                  "first_notoncurve": b"\x02" + nx + pn0[33:], "second_notoncurve": pn0[:33] + b"\x03" + nx,
                  "first_04": b"\x04" + pn0[1:], "second_04": pn0[:33] + b"\x04" + pn0[34:],
                  "first_inf": bytes(33) + pn0[33:], "second_inf": pn0[:33] + bytes(33), "zero66": bytes(66),
                  "second_x>=p": pn0[:33] + b"\x02" + b"\xff" * 32}
    add("nonce_agg", "musig.nonce_agg -")
    add("nonce_agg:cancel", f"musig.nonce_agg {t_list([pn0, negpn0])}")
    add("nonce_agg:cancel", f"musig.nonce_agg {t_list([pn0, pn1, negpn0])}")
    add("nonce_agg:cancel", f"musig.nonce_agg {t_list([pn0, bytes([pn0[0] ^ 1]) + pn0[1:]])}")
    add("nonce_agg:cancel", f"musig.nonce_agg {t_list([pn0, pn0[:33] + bytes([pn0[33] ^ 1]) + pn0[34:]])}")
    add("nonce_agg:double", f"musig.nonce_agg {t_list([pn0, pn0])}")
    for name, bn in bad_nonces.items():
        add("nonce:" + name, f"musig.nonce_agg {t_list([bn])}")
        add("nonce:" + name, f"musig.nonce_agg {t_list([pn1, bn])}")
        add("nonce:" + name, f"musig.nonce_agg {t_list([bn, pn1])}")
        add("nonce:" + name, f"musig.psig_verify {hx(s.psigs[0])} {hx(bn)} {hx(pk0)} {s.c5()}")
        add("nonce:" + name, f"musig.psig_verify {hx(s.psigs[0])} {hx(bn)} {hx(pk0)} {s.c5(msg=b'odd size')}")
        # as aggregate nonce of a session (the infinity placeholder is legal there, in either half or both)
        add("aggnonce:" + name, f"musig.session_values {s.c5(aggnonce=bn)}")
        add("aggnonce:" + name, f"musig.sign {hx(s.secnonces[0])} {prvs[0]} {s.c5(aggnonce=bn)}")
        add("aggnonce:" + name, f"musig.psig_verify {hx(s.psigs[0])} {hx(pn0)} {hx(pk0)} {s.c5(aggnonce=bn)}")
        add("aggnonce:" + name, f"musig.psig_agg {t_list(s.psigs)} {s.c5(aggnonce=bn)}")
        add("aggnonce:" + name, f"musig.det_sign {prvs[0]} {hx(bn)} {t_list(s.pks)} - {hx(s.msg)} None")
        add("aggnonce:" + name, f"musig.adapt 1 1 1 {sa.c5(aggnonce=bn)}")
    # a session whose final nonce is infinity (G stands in): honest signing on the all-infinity aggregate nonce
    for an in (bytes(66), bytes(33) + pn0[33:], pn0[:33] + bytes(33)):
        c = musig2.SessionContext(an, s.pks, s.ts, s.xs, s.msg)
        ps = musig2.sign(bytearray(s.secnonces[0]), prvs[0], c)
        add("aggnonce:infinity", f"musig.psig_verify {hx(ps)} {hx(pn0)} {hx(pk0)} {s.c5(aggnonce=an)}")
        add("aggnonce:infinity", f"musig.psig_agg {t_list([ps])} {s.c5(aggnonce=an)}")
        add("aggnonce:infinity", f"musig.session_values {s.c5(aggnonce=an, msg=b'')}")
        add("aggnonce:infinity", f"musig.session_values {sa.c5(aggnonce=an)}")

    # -- adaptor
    for name, bk in bad_keys.items():
        add("adaptor:" + name, f"musig.session_values {sa.c5(adaptor=bk)}")
        add("adaptor:" + name, f"musig.sign {hx(sa.secnonces[0])} {sa.prvs[0]} {sa.c5(adaptor=bk)}")
        add("adaptor:" + name, f"musig.psig_agg_adaptor {t_list(sa.psigs)} {sa.c5(adaptor=bk)}")
        add("adaptor:" + name, f"musig.psig_agg {t_list(sa.psigs)} {sa.c5(adaptor=bk)}")
        add("adaptor:" + name, f"musig.adapt 1 1 1 {sa.c5(adaptor=bk)}")
        add("adaptor:" + name, f"musig.extract 1 1 1 1 {sa.c5(adaptor=bk)}")
    pre = musig2.partial_sig_agg_adaptor(sa.psigs, sa.ctx)
    sig = musig2.adapt(pre, sa.t, sa.ctx)
    add("adaptor:wrong_agg", f"musig.psig_agg {t_list(sa.psigs)} {sa.c5()}")
    add("adaptor:wrong_agg", f"musig.psig_agg_adaptor {t_list(s.psigs)} {s.c5()}")
    add("adaptor:wrong_agg", f"musig.psig_agg - {sa.c5()}")
    add("adaptor:none", f"musig.adapt {pre.r} {pre.s} {sa.t} {sa.c5(adaptor=None)}")
    add("adaptor:none", f"musig.extract {sig.r} {sig.s} {pre.r} {pre.s} {sa.c5(adaptor=None)}")
    # adaptor T = -R1: R1 + T is infinity (legal), T = the aggregate nonce's own first half
    an = sa.aggnonce
    add("adaptor:cancels_R1", f"musig.session_values {sa.c5(adaptor=bytes([an[0] ^ 1]) + an[1:33])}")
    add("adaptor:doubles_R1", f"musig.session_values {sa.c5(adaptor=an[:33])}")
    for tv in (0, N, N + 1, -1, 2**256, 1, N - 1, sa.t + 1):
        add("adapt:t", f"musig.adapt {pre.r} {pre.s} {tv} {sa.c5()}")
    nxi = int.from_bytes(nx, "big")
    for rv in (nxi, 0, P, P - 1, 2**256 - 1, pre.r ^ 1):
        add("adapt:r", f"musig.adapt {rv} {pre.s} {sa.t} {sa.c5()}")
    for sv in (0, N - 1, N, 2**256 - 1):
        add("adapt:s", f"musig.adapt {pre.r} {sv} {sa.t} {sa.c5()}")
    for a, b in ((sig.s, pre.s), (pre.s, sig.s), (0, 0), (N - 1, 0), (0, N - 1), (N, 0), (sig.s, sig.s),
                 (2**256 - 1, 1), (5, 2**256 - 1)):
        add("extract", f"musig.extract {sig.r} {a} {pre.r} {b} {sa.c5()}")
        add("extract", f"musig.extract {nxi} {a} 0 {b} {s.c5()}")

    # -- partial signatures
    ps0 = s.psigs[0]
    bad_psigs = {"n": N.to_bytes(32, "big"), "n+1": (N + 1).to_bytes(32, "big"), "max": b"\xff" * 32,
                 "short": ps0[:31], "long": ps0 + b"\x00", "empty": b""}
    odd_psigs = {"0": zero, "n-1": (N - 1).to_bytes(32, "big"),
                 "negated": ((N - int.from_bytes(ps0, "big")) % N).to_bytes(32, "big")}
    for bit in sorted({0, 1, 7, 8, 127, 128, 254, 255, rng.randrange(256), rng.randrange(256)}):
        odd_psigs[f"bit{bit}"] = _flip(ps0, bit)
    for name, bp in {**bad_psigs, **odd_psigs}.items():
        cls = "psig:" + ("bitflip" if name.startswith("bit") else name)
        add(cls, f"musig.psig_verify {hx(bp)} {hx(pn0)} {hx(pk0)} {s.c5()}")
        add(cls, f"musig.psig_agg {t_list([bp] + s.psigs[1:])} {s.c5()}")
        add(cls, f"musig.psig_agg {t_list(s.psigs[:2] + [bp])} {s.c5()}")
        add(cls, f"musig.psig_agg_adaptor {t_list([sa.psigs[0], bp])} {sa.c5()}")
        if len(bp) == 32 and int.from_bytes(bp, "big") < N:
            a = musig2.partial_sig_agg([bp] + s.psigs[1:], s.ctx)
            add(cls, f"bip340.verify {s.values.Q[0]} {hx(s.msg)} {a.r} {a.s}")
    # bad psig in a session that also has a bad length elsewhere / more or fewer psigs than signers
    add("psig:count", f"musig.psig_agg - {s.c5()}")
    add("psig:count", f"musig.psig_agg {t_list(s.psigs[:2])} {s.c5()}")
    add("psig:count", f"musig.psig_agg {t_list(s.psigs + s.psigs)} {s.c5()}")
    add("psig:order", f"musig.psig_agg {t_list([bad_psigs['n'], bad_psigs['short']])} {s.c5()}")
    add("psig:order", f"musig.psig_agg {t_list([bad_psigs['short'], bad_psigs['n']])} {s.c5()}")
    # misattribution: other signer's nonce / key, other message, other tweak, other order
    add("psig:other_nonce", f"musig.psig_verify {hx(ps0)} {hx(pn1)} {hx(pk0)} {s.c5()}")
    add("psig:other_key", f"musig.psig_verify {hx(ps0)} {hx(pn0)} {hx(pk1)} {s.c5()}")
    add("psig:other_msg", f"musig.psig_verify {hx(ps0)} {hx(pn0)} {hx(pk0)} {s.c5(msg=s.msg[:-1] + bytes([s.msg[-1] ^ 1]))}")
    add("psig:other_msg", f"musig.psig_verify {hx(ps0)} {hx(pn0)} {hx(pk0)} {s.c5(msg=s.msg + b'!')}")
    add("psig:other_tweak", f"musig.psig_verify {hx(ps0)} {hx(pn0)} {hx(pk0)} {s.c5(tweaks=[])}")
    add("psig:other_order", f"musig.psig_verify {hx(ps0)} {hx(pn0)} {hx(pk0)} {s.c5(pks=s.pks[::-1])}")
    add("psig:outsider", f"musig.psig_verify {hx(ps0)} {hx(pn0)} {hx(out_pk)} {s.c5()}")
    add("psig:outsider", f"musig.psig_verify {hx(ps0)} {hx(pn0)} {hx(out_pk)} {s.c5(msg=b'')}")
    add("psig:outsider", f"musig.psig_verify {hx(bad_psigs['n'])} {hx(pn0)} {hx(out_pk)} {s.c5()}")
    add("psig:outsider", f"musig.psig_verify {hx(ps0)} {hx(bad_nonces['first_notoncurve'])} {hx(out_pk)} {s.c5()}")
    add("psig:outsider", f"musig.psig_verify {hx(ps0)} {hx(pn0)} {hx(pk0)} {s.c5(pks=[])}")

    # -- secret nonces and signing keys
    sn0 = s.secnonces[0]
    k1, k2, tail = sn0[:32], sn0[32:64], sn0[64:]
    nb, mx = N.to_bytes(32, "big"), b"\xff" * 32
    bad_sn = {"k1=0": zero + k2 + tail, "k2=0": k1 + zero + tail, "k1=n": nb + k2 + tail, "k2=n": k1 + nb + tail,
              "k1=max": mx + k2 + tail, "k2=max": k1 + mx + tail, "both0": bytes(64) + tail, "all0": bytes(97),
              "k1=1": (1).to_bytes(32, "big") + k2 + tail, "k2=n-1": k1 + (N - 1).to_bytes(32, "big") + tail,
              "other_pk": k1 + k2 + pk1, "pk_notoncurve": k1 + k2 + bad_keys["notoncurve02"],
              "swapped": k2 + k1 + tail}
    for name, sn in bad_sn.items():
        add("secnonce:" + name, f"musig.sign {hx(sn)} {prvs[0]} {s.c5()}")
        add("secnonce:" + name, f"musig.sign {hx(sn)} {prvs[0]} {s.c5(msg=b'')}")
    add("secnonce:order", f"musig.sign {hx(bad_sn['k1=0'])} 0 {s.c5()}")
    add("secnonce:order", f"musig.sign {hx(bad_sn['k2=0'])} {prvs[0]} {s.c5(aggnonce=bad_nonces['first_notoncurve'])}")
    for pv in (prvs[1], outsider, 0, N, -1, N - prvs[0], prvs[0] + N, 2**256):
        add("sign:prv", f"musig.sign {hx(sn0)} {pv} {s.c5()}")
    sn_out = bytes(musig2.nonce_gen_(s.rands[0], outsider, out_pk, None, None, None)[0])
    add("sign:outsider", f"musig.sign {hx(sn_out)} {outsider} {s.c5()}")
    add("sign:outsider", f"musig.sign {hx(sn0)} {prvs[0]} {s.c5(pks=s.pks[1:])}")
    add("sign:outsider", f"musig.sign {hx(sn0)} {prvs[0]} {s.c5(pks=[])}")
    add("sign:outsider", f"musig.det_sign {outsider} {hx(pn0)} {t_list(s.pks)} - {hx(s.msg)} None")
    for pv in (0, N, -1):
        add("det_sign:prv", f"musig.det_sign {pv} {hx(pn0)} {t_list(s.pks)} - {hx(s.msg)} None")
        add("det_sign:prv", f"musig.det_sign {pv} {hx(pn0[:65])} {t_list(s.pks)} - {hx(s.msg)} {zero.hex()}")
    add("det_sign:cancel", f"musig.det_sign {prvs[0]} {hx(negpn0)} {t_list(s.pks)} - {hx(s.msg)} None")

    # -- nonce generation
    for name, rnd in {"short": zero[:31], "long": zero + b"\x00", "empty": b"", "zero": zero, "max": mx}.items():
        add("nonce_gen:rand_" + name, f"musig.nonce_gen {hx(rnd)} {prvs[0]} {hx(pk0)} {hx(s.aggpk)} {hx(s.msg)} None")
        add("nonce_gen:rand_" + name, f"musig.nonce_gen {hx(rnd)} None {hx(pk0)} None None None")
    r0 = s.rands[0]
    for pv in (0, N, -1, 1, N - 1, 2**256):
        add("nonce_gen:prv", f"musig.nonce_gen {hx(r0)} {pv} {hx(pk0)} None None None")
    for name in ("short", "long", "empty", "prefix04", "notoncurve02", "inf33", "uncompressed65"):
        add("nonce_gen:pk_" + name, f"musig.nonce_gen {hx(r0)} {prvs[0]} {hx(bad_keys[name])} None None None")
        add("nonce_gen:pk_" + name, f"musig.nonce_gen {hx(r0[:5])} 0 {hx(bad_keys[name])} {hx(zero[:3])} None None")
    for ap in (b"", zero[:31], zero + b"\x00", zero, mx, pk0):
        add("nonce_gen:aggpk", f"musig.nonce_gen {hx(r0)} {prvs[0]} {hx(pk0)} {hx(ap)} None None")
    for m in (None, b"", b"\x00", bytes(255), bytes(256), common.rand_bytes(rng, 300)):
        for ex in (None, b"", b"\x00", common.rand_bytes(rng, 257)):
            add("nonce_gen:msg_extra", f"musig.nonce_gen {hx(r0)} None {hx(pk0)} None {t_opt(m)} {t_opt(ex)}")

    # -- BIP340 verification
    good = musig2.partial_sig_agg(s.psigs, s.ctx)
    xq, m = s.values.Q[0], s.msg
    for r_, s_, q_, m_ in ((good.r, good.s, xq, m), (good.r, N - good.s, xq, m), (good.r, good.s + N, xq, m),
                           (good.r, good.s, xq, m + b"\x00"), (good.r, good.s, xq, b""), (nxi, good.s, xq, m),
                           (good.r, good.s, nxi, m), (good.r + P, good.s, xq, m), (good.r, good.s, xq + P, m),
                           (P, good.s, xq, m), (good.r, N, xq, m), (good.r, 0, xq, m), (0, 0, 0, m), (1, 1, 1, b""),
                           (good.r, -1, xq, m), (-1, good.s, xq, m), (good.r, good.s, -1, m),
                           (2**256, good.s, xq, m), (good.r, 2**256, xq, m), (good.r, good.s, 2**256, m),
                           (good.r, good.s, s.kctx.Q[0] ^ 1, m), (xq, good.s, good.r, m)):
        add("bip340", f"bip340.verify {q_} {hx(m_)} {r_} {s_}")

    # -- one-token mutations of valid lines
    if valid_lines:
        for _ in range(n_mut):
            base = rng.choice(valid_lines)
            add("mutated:" + base.split(" ", 1)[0], mutate_line(rng, base))
    return out


def _vec(name):
    with open(os.path.join(_DATA, name + ".json"), encoding="utf8") as f:
        return json.load(f)


def _vb(h):
    return None if h is None else bytes.fromhex(h)


def gen_vectors(ctx):  # noqa: PLR0912, PLR0915
    """the BIP327 vector files as op lines (valid and error cases)"""
    out = []

    def add(f, line):
        ctx.count("musig.vectors", f)
        out.append(line)

    def tw(ts, xs):
        return list(zip(ts, xs))

    try:
        d = _vec("key_sort_vectors")
        add("key_sort", f"musig.key_sort {t_list(map(_vb, d['pubkeys']))}")
        add("key_sort", f"musig.key_sort {t_list(map(_vb, d['sorted_pubkeys']))}")

        d = _vec("key_agg_vectors")
        pks, tws = [_vb(x) for x in d["pubkeys"]], [_vb(x) for x in d["tweaks"]]
        for c in d["valid_test_cases"]:
            add("key_agg", f"musig.key_agg {t_list(pks[i] for i in c['key_indices'])}")
        for c in d["error_test_cases"]:
            add("key_agg", f"musig.key_agg_and_tweak {t_list(pks[i] for i in c['key_indices'])} "
                f"{t_tweaks(tw([tws[i] for i in c['tweak_indices']], c['is_xonly']))}")

        d = _vec("nonce_gen_vectors")
        for c in d["test_cases"]:
            sk = None if c["sk"] is None else int(c["sk"], 16)
            add("nonce_gen", f"musig.nonce_gen {hx(_vb(c['rand_']))} {'None' if sk is None else sk} {hx(_vb(c['pk']))} "
                f"{t_opt(_vb(c['aggpk']))} {t_opt(_vb(c['msg']))} {t_opt(_vb(c['extra_in']))}")

        d = _vec("nonce_agg_vectors")
        pns = [_vb(x) for x in d["pnonces"]]
        for c in d["valid_test_cases"] + d["error_test_cases"]:
            add("nonce_agg", f"musig.nonce_agg {t_list(pns[i] for i in c['pnonce_indices'])}")

        d = _vec("sign_verify_vectors")
        sk = int(d["sk"], 16)
        pks, sns, pns = ([_vb(x) for x in d[k]] for k in ("pubkeys", "secnonces", "pnonces"))
        ans, msgs = [_vb(x) for x in d["aggnonces"]], [_vb(x) for x in d["msgs"]]
        add("sign_verify", f"musig.individual_pub_key {sk}")
        for c in d["valid_test_cases"]:
            kp, np_ = [pks[i] for i in c["key_indices"]], [pns[i] for i in c["nonce_indices"]]
            c5 = t_ctx(ans[c["aggnonce_index"]], kp, [], msgs[c["msg_index"]])
            si = c["signer_index"]
            add("sign_verify", f"musig.nonce_agg {t_list(np_)}")
            add("sign_verify", f"musig.session_values {c5}")
            add("sign_verify", f"musig.sign {hx(sns[0])} {sk} {c5}")
            add("sign_verify", f"musig.psig_verify {hx(_vb(c['expected']))} {hx(np_[si])} {hx(kp[si])} {c5}")
        for c in d["sign_error_test_cases"]:
            kp = [pks[i] for i in c["key_indices"]]
            c5 = t_ctx(ans[c["aggnonce_index"]], kp, [], msgs[c["msg_index"]])
            add("sign_verify", f"musig.sign {hx(sns[c['secnonce_index']])} {sk} {c5}")
        for c in d["verify_fail_test_cases"] + d["verify_error_test_cases"]:
            kp, np_ = [pks[i] for i in c["key_indices"]], [pns[i] for i in c["nonce_indices"]]
            si = c["signer_index"]
            add("sign_verify", f"musig.nonce_agg {t_list(np_)}")
            try:
                an = musig2.nonce_agg(np_)
            except Exception:  # noqa: BLE001 - the case's error is nonce_agg's
                continue
            c5 = t_ctx(an, kp, [], msgs[c["msg_index"]])
            add("sign_verify", f"musig.psig_verify {hx(_vb(c['sig']))} {hx(np_[si])} {hx(kp[si])} {c5}")

        d = _vec("tweak_vectors")
        sk = int(d["sk"], 16)
        pks, pns, tws = ([_vb(x) for x in d[k]] for k in ("pubkeys", "pnonces", "tweaks"))
        sn, an, msg = _vb(d["secnonce"]), _vb(d["aggnonce"]), _vb(d["msg"])
        for c in d["valid_test_cases"] + d["error_test_cases"]:
            kp, np_ = [pks[i] for i in c["key_indices"]], [pns[i] for i in c["nonce_indices"]]
            tt = tw([tws[i] for i in c["tweak_indices"]], c["is_xonly"])
            c5 = t_ctx(an, kp, tt, msg)
            add("tweak", f"musig.key_agg_and_tweak {t_list(kp)} {t_tweaks(tt)}")
            add("tweak", f"musig.sign {hx(sn)} {sk} {c5}")
            if "expected" in c:
                si = c["signer_index"]
                add("tweak", f"musig.psig_verify {hx(_vb(c['expected']))} {hx(np_[si])} {hx(kp[si])} {c5}")

        d = _vec("det_sign_vectors")
        sk = int(d["sk"], 16)
        pks, msgs = [_vb(x) for x in d["pubkeys"]], [_vb(x) for x in d["msgs"]]
        for c in d["valid_test_cases"] + d["error_test_cases"]:
            kp = [pks[i] for i in c["key_indices"]]
            tt = tw([_vb(x) for x in c["tweaks"]], c["is_xonly"])
            add("det_sign", f"musig.det_sign {sk} {hx(_vb(c['aggothernonce']))} {t_list(kp)} {t_tweaks(tt)} "
                f"{hx(msgs[c['msg_index']])} {t_opt(_vb(c['rand']))}")
            if "expected" in c:
                pn, ps = (_vb(x) for x in c["expected"])
                an = musig2.nonce_agg([_vb(c["aggothernonce"]), pn])
                c5 = t_ctx(an, kp, tt, msgs[c["msg_index"]])
                add("det_sign", f"musig.psig_verify {hx(ps)} {hx(pn)} {hx(kp[c['signer_index']])} {c5}")

        d = _vec("sig_agg_vectors")
        pks, pns, tws, pss = ([_vb(x) for x in d[k]] for k in ("pubkeys", "pnonces", "tweaks", "psigs"))
        msg = _vb(d["msg"])
        for c in d["valid_test_cases"] + d["error_test_cases"]:
            kp, np_ = [pks[i] for i in c["key_indices"]], [pns[i] for i in c["nonce_indices"]]
            tt = tw([tws[i] for i in c["tweak_indices"]], c["is_xonly"])
            ps = [pss[i] for i in c["psig_indices"]]
            an = _vb(c["aggnonce"])
            c5 = t_ctx(an, kp, tt, msg)
            add("sig_agg", f"musig.nonce_agg {t_list(np_)}")
            add("sig_agg", f"musig.psig_agg {t_list(ps)} {c5}")
            if "expected" in c:
                e = _vb(c["expected"])
                xq = musig2.key_agg_and_tweak(kp, [t for t, _ in tt], [x for _, x in tt]).Q[0]
                add("sig_agg", f"bip340.verify {xq} {hx(msg)} {int.from_bytes(e[:32], 'big')} "
                    f"{int.from_bytes(e[32:], 'big')}")
    except (OSError, KeyError, ValueError) as e:
        ctx.note(f"musig.vectors: vendored BIP327 vector files not (fully) replayed: {type(e).__name__}: {e}")
    return out


def _stream_both(ctx, name, lines):
    """`lines` on the real code under each backend against ONE evaluation of the model"""
    if not lines:
        return
    cached = None
    for tag, serving in backends():
        with backend(serving):
            cases = [(ln, impl(ln)) for ln in lines]
        if cached is not None:
            ctx.model = lambda exe, ls, _c=cached: _c  # same op lines: reuse the model's (deterministic) answers
        try:
            outs = ctx.correspond(f"{name}@{tag}", EXE, cases, key=f"{name}@{tag}")
        finally:
            if "model" in ctx.__dict__:
                del ctx.__dict__["model"]
        if outs is not None and cached is None:
            cached = outs


def _witness(rng, serving, k=None):
    prvs = g_party(rng, k)
    order = list(range(len(prvs)))
    rng.shuffle(order)
    return {"prvs": prvs, "order": order, "tweaks": [[t.hex(), x] for t, x in g_tweaks(rng)],
            "msg": g_msg(rng).hex(), "rands": [common.rand_bytes(rng, 32).hex() for _ in prvs],
            "det_rand": rng.choice([None, common.rand_bytes(rng, 32).hex()]), "serving": serving}


def run_oracles(ctx, rng):
    bs = backends()
    if len(bs) < 2:
        ctx.note("musig: libsecp256k1 bindings not installed, only the pure-Python backend was exercised")
    n_h, n_a, n_r = ctx.n(40, 400), ctx.n(24, 240), ctx.n(30, 300)
    for tag, serving in bs:
        slow = 1 if serving else 2  # the Python arithmetic costs ~20x: fewer and smaller parties there
        for _ in range(max(2, n_h // slow)):
            ctx.check("musig.honest_session", _witness(rng, serving, None if serving else rng.choice([1, 2, 2, 3, 4])))
        for _ in range(max(2, n_a // slow)):
            w = _witness(rng, serving, None if serving else rng.choice([1, 2, 3]))
            w["t"] = g_prv(rng)
            ctx.check("musig.adaptor_session", w)
        for _ in range(max(2, n_r // slow)):
            w = _witness(rng, serving, None if serving else rng.choice([1, 2, 3]))
            w.update({"i": rng.randrange(6), "j": rng.randrange(6), "bit": rng.randrange(256),
                      "msg2": g_msg(rng).hex(), "outsider": g_prv(rng)})
            ctx.check("musig.refusal", w)
    # every order of one small party, on the real code: each order is its own (valid) group
    for tag, serving in bs:
        prvs = g_party(rng, 3)
        base = _witness(rng, serving, 3)
        base["prvs"] = prvs
        perms = list(itertools.permutations(range(3)))
        for perm in (perms if ctx.tier == "thorough" else rng.sample(perms, 2)):
            ctx.check("musig.honest_session", {**base, "order": list(perm)})


def corpus_lines(ctx):
    """minimised past model/implementation disagreements (corpus/C16/musig.json), replayed first"""
    path = os.path.join(common.ROOT, "corpus", "C16", "musig.json")
    try:
        with open(path, encoding="utf8") as f:
            return [c["op"] for c in json.load(f)]
    except (OSError, ValueError, KeyError, TypeError) as e:
        ctx.note(f"musig.corpus not replayed: {type(e).__name__}: {e}")
        return []


def run_musig(ctx):
    rng = ctx.rng
    _stream_both(ctx, "musig.corpus", corpus_lines(ctx))
    prev = _curve.is_libsecp256k1_serving()
    try:
        # generation uses the real code: the fast backend where there is one (answers do not depend on it,
        # which is what the two streams per op check)
        _curve.set_libsecp256k1_serving(serving=_libsecp256k1.INSTALLED)
        L = Lines()
        gen_sessions(ctx, L, rng, ctx.n(20, 500), ctx.n(8, 200))
        gen_orders(ctx, L, rng, ctx.n(2, 30), None if ctx.tier == "thorough" else 3)
        valid = [ln for lines in L.by.values() for ln in lines]
        malformed = gen_malformed(ctx, rng, valid, ctx.n(150, 6000))
        vectors = gen_vectors(ctx)
    finally:
        _curve.set_libsecp256k1_serving(serving=prev)
    for op in sorted(L.by):
        _stream_both(ctx, op, L.by[op])
    _stream_both(ctx, "musig.malformed", malformed)
    _stream_both(ctx, "musig.vectors", vectors)
    run_oracles(ctx, rng)


# ========================================================================================================
# Two-party schemes: ECDH (btclib/ecc/dh.py), KDFs (btclib/kdf.py), DLEQ (btclib/ecc/dleq.py, BIP374).
# Correspondence with lean/Model/C16/Dleq.lean through `drv_c16` (`twoParty`), both backends:
#   dh.x963 <curve> <dU> <Qx> <Qy> <size> <info|None>         kdf.x963 <z> <size> <info|None>
#   kdf.hkdf <ikm> <size> <salt|None> <info|None>              kdf.hkdf_expand <prk> <size> <info|None>
#   dleq.gen <a> <Bx> <By> <aux> <Gx> <Gy> <msg|None>          dleq.verify <A> <B> <C> <proof> <G> <msg|None>
# streams: dh.x963, dh.x963.inf / dh.x963.xrange (Python arm only: see run_realcode's notes), kdf.x963, kdf.hkdf,
# kdf.hkdf_expand, dleq.gen, dleq.verify, dleq.malformed, dleq.vectors (BIP374 csv files of /repo/tests).
# ========================================================================================================
import base64  # noqa: E402
import csv  # noqa: E402
import random as _random  # noqa: E402
from hashlib import sha256  # noqa: E402

from btclib import kdf  # noqa: E402
from btclib.curves import CURVES  # noqa: E402
from btclib.ecc import dh, dleq  # noqa: E402

RULE += ("; two-party schemes: ECDH on 15 catalogue curves (scalars 0, n, negative, above n; peers at infinity, off "
         "the curve, of low order on the cofactor curves), ANSI-X9.63 / HKDF with sizes 0, negative, 1..8161 and "
         "beyond the ceiling, honest BIP374 proofs over random generators and their mutations (bit flips, s >= n, "
         "messages of wrong size, swapped / off-curve / infinite points, proofs of wrong size) and the BIP374 csv "
         "vectors; property oracles on the real code for ECDH, DLEQ, ECIES, ElligatorSwift, Pedersen, Borromean, "
         "silent payments (random input sets and recipient lists, BIP352 vectors) and the BIP373/BIP375 PSBT roles")
TRUSTED += ["Model/C16/Dleq.lean is a hand transcription of dh.py / kdf.py / dleq.py tied by correspondence only",
            "ECIES is exercised with a toy padding stream cipher (btclib takes the cipher as a parameter)"]


# ---- twoparty: impl ------------------------------------------------------------------------------------
def _impl_twoparty(t) -> str:  # noqa: PLR0911
    op, a = t[0], t[1:]
    try:
        if op == "dh.x963" and len(a) == 6:
            ec = CURVES.get(a[0])
            if ec is None:
                return "bad-op"
            d, q, size, info = int(a[1]), (int(a[2]), int(a[3])), int(a[4]), p_opt(a[5])
            return _call(lambda: hx(dh.diffie_hellman(d, q, size, info, ec, sha256)))
        if op == "kdf.x963" and len(a) == 3:
            z, size, info = unhx(a[0]), int(a[1]), p_opt(a[2])
            return _call(lambda: hx(kdf.ansi_x9_63_kdf(z, size, sha256, info)))
        if op == "kdf.hkdf" and len(a) == 4:
            ikm, size, salt, info = unhx(a[0]), int(a[1]), p_opt(a[2]), p_opt(a[3])
            return _call(lambda: hx(kdf.hkdf(ikm, size, sha256, salt, info)))
        if op == "kdf.hkdf_expand" and len(a) == 3:
            prk, size, info = unhx(a[0]), int(a[1]), p_opt(a[2])
            return _call(lambda: hx(kdf.hkdf_expand(prk, size, sha256, info)))
        if op == "dleq.gen" and len(a) == 7:
            av, b, aux = int(a[0]), (int(a[1]), int(a[2])), unhx(a[3])
            g, msg = (int(a[4]), int(a[5])), p_opt(a[6])
            return _call(lambda: hx(dleq.generate_proof(av, b, aux, g, msg)))
        if op == "dleq.verify" and len(a) == 10:
            pa, pb, pc = (int(a[0]), int(a[1])), (int(a[2]), int(a[3])), (int(a[4]), int(a[5]))
            proof, g, msg = unhx(a[6]), (int(a[7]), int(a[8])), p_opt(a[9])

            def f():
                dleq.assert_proof_as_valid(pa, pb, pc, proof, g, msg)
                return "valid"
            return _call(f)
    except ValueError:  # a token that does not parse
        return "bad-op"
    return "bad-op"


# ---- twoparty: generators/run --------------------------------------------------------------------------
DH_CURVES = ["secp256k1", "secp256k1", "secp256k1", "secp256r1", "secp112r1", "secp112r2", "secp128r1", "secp128r2",
             "secp160k1", "secp160r1", "secp192k1", "secp224k1", "bpp160r1", "bpp256r1", "secp384r1", "secp521r1"]
KDF_SIZES = [0, -1, -32, 1, 2, 31, 32, 33, 63, 64, 65, 255 * 32, 255 * 32 + 1]
X963_MAX = 32 * (2**32 - 1)


def g_scalar(rng, ec) -> int:
    return 1 + rng.getrandbits(ec.nlen + 16) % (ec.n - 1)


def g_point(rng, ec):
    return mult(g_scalar(rng, ec), ec.G, ec)


def g_info(rng):
    r = rng.random()
    if r < 0.35:
        return None
    if r < 0.45:
        return b""
    return common.rand_bytes(rng, rng.choice([1, 4, 16, 32, 33, 64, 100]))


def low_order_point(rng, ec):
    """a point of the curve outside the prime-order subgroup times n (cofactor curves): order divides h"""
    for _ in range(64):
        x = rng.randrange(ec.p)
        try:
            r = (x, ec.y_even_var(x))
        except Exception:  # noqa: BLE001 - x is no x-coordinate
            continue
        return ec.add_var(mult(ec.n - 1, r, ec), r)
    return ec.G


def _dh_is_inf_divergent(ec, d, q) -> bool:
    """the lines on which the two arithmetic backends answer with different error classes"""
    # /repo 89eda414 ("diffie_hellman answers the point at infinity the same way on both arms") removed the
    # divergence: these lines are back in the two-backend stream, and dh.inf_backend_agreement is a real check
    return False


def _dh_is_xrange_divergent(ec, d, q) -> bool:
    """an x-coordinate outside 0..p-1 that is a valid one modulo p: the bindings arm leaves through OverflowError
    while serialising the peer, the Python arm (and the model) reduce it silently"""
    # /repo d8821600 ("is_on_curve refuses an x-coordinate outside 0..p-1") removed the divergence: both arms and
    # the model now answer `err value`; the lines are back in the two-backend stream
    return False


def gen_dh(ctx, rng, n):
    lines, inf_lines, xr_lines = [], [], []

    def add(cls, name, d, q, size, info):
        ctx.count("dh.class", cls)
        ec = CURVES[name]
        line = f"dh.x963 {name} {d} {q[0]} {q[1]} {size} {t_opt(info)}"
        if _dh_is_inf_divergent(ec, d, q):
            inf_lines.append(line)
        elif _dh_is_xrange_divergent(ec, d, q):
            xr_lines.append(line)
        else:
            lines.append(line)

    for q in ((secp256k1.G[0], 0), (0, 0), (5, 0)):
        for d in (1, g_scalar(rng, secp256k1), N - 1, N + 1, 0, N):
            add("peer_infinity", "secp256k1", d, q, 32, None)
    qk = g_point(rng, secp256k1)
    for dx in (P, -P, 2 * P):
        for d in (1, g_scalar(rng, secp256k1), 0):
            add("peer_x_range", "secp256k1", d, (qk[0] + dx, qk[1]), 32, None)

    for name in sorted(set(DH_CURVES)):  # both parties of one exchange, on every curve used
        ec = CURVES[name]
        a, b = g_scalar(rng, ec), g_scalar(rng, ec)
        size, info = rng.choice([16, 32, 48]), g_info(rng)
        add("pair", name, a, mult(b, ec.G, ec), size, info)
        add("pair", name, b, mult(a, ec.G, ec), size, info)
    for _ in range(n):
        name = rng.choice(DH_CURVES)
        ec = CURVES[name]
        q = g_point(rng, ec)
        d = g_scalar(rng, ec)
        size = rng.choice([1, 8, 16, 20, 31, 32, 33, 48, 64, 65, 100])
        r = rng.random()
        if r < 0.50:
            add("valid", name, d, q, size, g_info(rng))
        elif r < 0.68:
            dd = rng.choice([0, ec.n, ec.n + 1, 2 * ec.n, -1, -d, d + ec.n, d - ec.n, 2**256 + d, 1, 2, ec.n - 1, -ec.n])
            add("scalar_edge", name, dd, q, size, g_info(rng))
        elif r < 0.76:
            add("size_edge", name, d, q, rng.choice([0, -1, -32, X963_MAX + 1, 2**40, 2**64]), g_info(rng))
        elif r < 0.84:
            qq = rng.choice([(q[0], 0), (0, 0), (5, 0), (ec.G[0], 0)])
            add("peer_infinity", name, rng.choice([d, d, 0, ec.n, 1]), qq, size, g_info(rng))
        elif r < 0.93:
            qq = rng.choice([(q[0], q[1] % ec.p + 1), (q[0] + 1, q[1]), (q[1], q[0]), (q[0], ec.p - q[1]), (q[0], -q[1]),
                             (q[0], q[1] + ec.p), (q[0], ec.p), (0, 1), (1, 1), (q[0] + ec.p, q[1]), (q[0] - ec.p, q[1]),
                             (-q[0], q[1]), ec.G])
            add("peer_odd", name, rng.choice([d, d, 0, 1]), qq, size, g_info(rng))
        else:
            name = rng.choice(["secp112r2", "secp128r2"])
            ec = CURVES[name]
            add("peer_low_order", name, rng.choice([1, 2, 3, 4, 8, ec.n + 4, g_scalar(rng, ec)]), low_order_point(rng, ec),
                size, g_info(rng))
    return lines, inf_lines, xr_lines


def gen_kdf(ctx, rng, n):
    by = {"kdf.x963": [], "kdf.hkdf": [], "kdf.hkdf_expand": []}
    sizes = list(KDF_SIZES)
    for i in range(n):
        size = sizes[i] if i < len(sizes) else rng.choice([rng.randrange(1, 300), rng.randrange(1, 300), rng.choice(KDF_SIZES)])
        z = common.rand_bytes(rng, rng.choice([0, 1, 14, 20, 32, 32, 33, 48, 66, 80]))
        by["kdf.x963"].append(f"kdf.x963 {hx(z)} {rng.choice([size, size, X963_MAX + 1]) if i >= len(sizes) else size} "
                              f"{t_opt(g_info(rng))}")
        salt = rng.choice([None, b"", common.rand_bytes(rng, rng.choice([1, 32, 64, 65, 100]))])
        by["kdf.hkdf"].append(f"kdf.hkdf {hx(z)} {size} {t_opt(salt)} {t_opt(g_info(rng))}")
        prk = common.rand_bytes(rng, rng.choice([32, 32, 32, 33, 64, 65, 100, 31, 16, 0]))
        by["kdf.hkdf_expand"].append(f"kdf.hkdf_expand {hx(prk)} {size} {t_opt(g_info(rng))}")
    # the ceilings themselves
    by["kdf.x963"] += [f"kdf.x963 {'ab' * 32} {s} None" for s in (X963_MAX + 1, 2**63, -2**63)]
    by["kdf.hkdf"] += [f"kdf.hkdf {'ab' * 32} {s} None {'cd' * 3}" for s in (8159, 8160, 8161, 2**32)]
    by["kdf.hkdf_expand"] += [f"kdf.hkdf_expand {'ab' * 32} {s} _" for s in (8159, 8160, 8161, 2**32)]
    return by


def _dleq_case(rng):
    """an honest statement and its proof, made with the real code"""
    ec = secp256k1
    a = g_prv(rng)
    g = ec.G if rng.random() < 0.3 else g_point(rng, ec)
    b = g_point(rng, ec)
    aux = common.rand_bytes(rng, 32) if rng.random() < 0.9 else rng.choice([bytes(32), b"\xff" * 32])
    msg = None if rng.random() < 0.35 else common.rand_bytes(rng, 32)
    proof = dleq.generate_proof(a, b, aux, g, msg)
    return {"a": a, "G": g, "B": b, "aux": aux, "msg": msg, "proof": proof, "A": mult(a, g, ec), "C": mult(a, b, ec)}


def _l_gen(a, b, aux, g, msg) -> str:
    return f"dleq.gen {a} {b[0]} {b[1]} {hx(aux)} {g[0]} {g[1]} {t_opt(msg)}"


def _l_ver(pa, pb, pc, proof, g, msg) -> str:
    return f"dleq.verify {pa[0]} {pa[1]} {pb[0]} {pb[1]} {pc[0]} {pc[1]} {hx(proof)} {g[0]} {g[1]} {t_opt(msg)}"


def gen_dleq(ctx, rng, n):  # noqa: PLR0915
    gen_l, ver_l, bad = [], [], []

    def add(cls, line):
        ctx.count("dleq.malformed_class", cls)
        bad.append(line)

    ec = secp256k1
    for _ in range(n):
        c = _dleq_case(rng)
        a, g, b, aux, msg, proof, pa, pc = (c[k] for k in ("a", "G", "B", "aux", "msg", "proof", "A", "C"))
        pb = b
        ctx.count("dleq.case", ("default G" if g == ec.G else "random G") + (" msg" if msg else " no msg"))
        gen_l.append(_l_gen(a, b, aux, g, msg))
        ver_l.append(_l_ver(pa, pb, pc, proof, g, msg))
        e, s = proof[:32], proof[32:]
        other, other2 = g_point(rng, ec), g_point(rng, ec)
        # -- altered proofs
        add("flip_e", _l_ver(pa, pb, pc, _flip(e, rng.randrange(256)) + s, g, msg))
        add("flip_s", _l_ver(pa, pb, pc, e + _flip(s, rng.randrange(256)), g, msg))
        sv = rng.choice([N, N + 1, 2**256 - 1, int.from_bytes(s, "big") + N if int.from_bytes(s, "big") + N < 2**256 else N])
        add("s>=n", _l_ver(pa, pb, pc, e + sv.to_bytes(32, "big"), g, msg))
        add("s_edge", _l_ver(pa, pb, pc, e + rng.choice([0, 1, N - 1]).to_bytes(32, "big"), g, msg))
        add("e_edge", _l_ver(pa, pb, pc, rng.choice([bytes(32), b"\xff" * 32, N.to_bytes(32, "big")]) + s, g, msg))
        add("neg_s", _l_ver(pa, pb, pc, e + ((N - int.from_bytes(s, "big")) % N).to_bytes(32, "big"), g, msg))
        bp = rng.choice([proof[:63], proof + b"\x00", b"", proof[:32], proof + proof])
        add("proof_size", _l_ver(pa, pb, pc, bp, g, msg))
        # -- altered message
        m2 = common.rand_bytes(rng, 32)
        add("other_msg", _l_ver(pa, pb, pc, proof, g, m2 if msg is None else rng.choice([m2, None, _flip(msg, rng.randrange(256))])))
        bm = common.rand_bytes(rng, rng.choice([0, 1, 31, 33, 64]))
        add("msg_size", _l_ver(pa, pb, pc, proof, g, bm))
        add("msg_size", _l_gen(a, b, aux, g, bm))
        # -- altered statement
        pts = {"A": pa, "B": pb, "C": pc, "G": g}
        which = rng.choice("ABCG")
        for cls, repl in (("other_point", other), ("negated", (pts[which][0], P - pts[which][1])),
                          ("swapped", pts[rng.choice([k for k in "ABCG" if k != which])]),
                          ("off_curve", rng.choice([(pts[which][0], pts[which][1] % P + 1), (pts[which][0] + 1, pts[which][1]),
                                                    (0, 1), (pts[which][0], pts[which][1] + P), (pts[which][0], -pts[which][1]),
                                                    (pts[which][0] + P, pts[which][1])])),
                          ("infinity", rng.choice([(pts[which][0], 0), (0, 0), (5, 0)]))):
            q = dict(pts)
            q[which] = repl
            add(cls + ":" + which, _l_ver(q["A"], q["B"], q["C"], proof, q["G"], msg))
        add("all_other", _l_ver(other, other2, pc, proof, g, msg))
        # -- generation refusals
        av = rng.choice([0, N, N + 1, -1, -a, a + N, 2**256, 2**256 + a])
        add("a_range", _l_gen(av, b, aux, g, msg))
        add("a_edge", _l_gen(rng.choice([1, 2, N - 1, N - 2]), b, aux, g, msg))
        add("aux_size", _l_gen(a, b, common.rand_bytes(rng, rng.choice([0, 1, 31, 33, 64])), g, msg))
        for cls, repl in (("gen_off_curve", (b[0], b[1] % P + 1)), ("gen_infinity", rng.choice([(b[0], 0), (0, 0)])),
                          ("gen_y_range", rng.choice([(b[0], b[1] + P), (b[0], -b[1])]))):
            if rng.random() < 0.5:
                add(cls + ":B", _l_gen(a, repl, aux, g, msg))
            else:
                add(cls + ":G", _l_gen(a, b, aux, repl, msg))
        add("gen_B=G", _l_gen(a, g, aux, g, msg))
        add("gen_B=A", _l_gen(a, pa, aux, g, msg))
    valid = gen_l + ver_l
    for _ in range(n * 3):
        base = rng.choice(valid).split(" ")
        i = rng.randrange(1, len(base))
        if base[i] == "None":
            base[i] = common.rand_bytes(rng, 32).hex()
        elif base[0] == "dleq.gen" and i == 4 or base[0] == "dleq.verify" and i == 7 or i == len(base) - 1:
            base[i] = _mut_hex(rng, base[i])
        else:
            v = int(base[i])
            base[i] = str(rng.choice([v + 1, v - 1, v ^ (1 << rng.randrange(256)), P - v, N - v, -v, v + P]))
        add("mutated:" + base[0], " ".join(base))
    # canonical coordinates only (0 <= x < p): a point tuple whose x is outside the field but valid modulo p passes
    # point_from_pub_key (is_on_curve range-checks y alone) and leaves generate_proof / assert_proof_as_valid through
    # OverflowError from bytes_from_point -- an exception-class matter on invalid input, not C16's (noted in run_twoparty)
    xr = [ln for ln in bad if _dleq_xrange(ln)]
    bad = [ln for ln in bad if not _dleq_xrange(ln)]
    return gen_l, ver_l, bad, xr


def _dleq_xrange(line) -> bool:
    """some point of the line has an x-coordinate outside 0..p-1 (not streamed: see gen_dleq)"""
    t = line.split(" ")
    pos = (2, 5) if t[0] == "dleq.gen" else (1, 3, 5, 8)
    # since /repo d8821600 point_from_pub_key refuses such a tuple (BTClibValueError) on both arms, as the model's
    # validPoint does: nothing is held back any more
    return False


def gen_dleq_vectors(ctx):
    """the BIP374 csv files as op lines"""
    out = []

    def pt(h):
        if h == "INFINITY":
            return (0, 0)
        return point_from_octets(bytes.fromhex(h), secp256k1)

    try:
        with open(os.path.join(_DATA, "test_vectors_generate_proof.csv"), encoding="utf8", newline="") as f:
            for row in list(csv.reader(f))[1:]:
                _i, g, a, b, aux, msg, _proof, _c = row
                out.append(_l_gen(int(a, 16), pt(b), bytes.fromhex(aux), pt(g), bytes.fromhex(msg) if msg else None))
                ctx.count("dleq.vectors", "generate")
        with open(os.path.join(_DATA, "test_vectors_verify_proof.csv"), encoding="utf8", newline="") as f:
            for row in list(csv.reader(f))[1:]:
                _i, g, pa, pb, pc, proof, msg, _ok, _c = row
                out.append(_l_ver(pt(pa), pt(pb), pt(pc), bytes.fromhex(proof), pt(g), bytes.fromhex(msg) if msg else None))
                ctx.count("dleq.vectors", "verify")
    except Exception as e:  # noqa: BLE001 - a vendored file that moved is a note, not a failure
        ctx.note(f"dleq.vectors: BIP374 vector files not (fully) replayed: {type(e).__name__}: {e}")
    return out


def twoparty_corpus(ctx):
    path = os.path.join(common.ROOT, "corpus", "C16", "twoparty.json")
    if not os.path.exists(path):
        return []
    try:
        with open(path, encoding="utf8") as f:
            return [c["op"] for c in json.load(f)]
    except (OSError, ValueError, KeyError, TypeError) as e:
        ctx.note(f"twoparty.corpus not replayed: {type(e).__name__}: {e}")
        return []


def run_twoparty(ctx):
    rng = ctx.rng
    _stream_both(ctx, "twoparty.corpus", twoparty_corpus(ctx))
    prev = _curve.is_libsecp256k1_serving()
    try:
        _curve.set_libsecp256k1_serving(serving=_libsecp256k1.INSTALLED)
        dh_lines, dh_inf, dh_xr = gen_dh(ctx, rng, ctx.n(110, 2500))
        kdf_by = gen_kdf(ctx, rng, ctx.n(40, 800))
        gen_l, ver_l, bad, dleq_xr = gen_dleq(ctx, rng, ctx.n(14, 400))
        vectors = gen_dleq_vectors(ctx)
    finally:
        _curve.set_libsecp256k1_serving(serving=prev)
    _stream_both(ctx, "dh.x963", dh_lines)
    # a peer at infinity on secp256k1 with a non-zero scalar: the two arms differ in the error class (the bindings arm
    # refuses while serialising the peer, BTClibValueError; the Python arm multiplies and refuses the shared point,
    # BTClibRuntimeError, which is what the model transcribes). Compared on the Python arm only; the difference itself
    # is an observation about invalid input, noted (with its reproducer) by run_realcode.
    # An x-coordinate outside 0..p-1 (valid modulo p) is the same story: OverflowError on the bindings arm, reduced
    # silently on the Python arm and in the model; noted by run_realcode as well.
    with backend(False):
        ctx.correspond("dh.x963.inf@python", EXE, [(ln, impl(ln)) for ln in dh_inf], key="dh.x963.inf@python")
        ctx.correspond("dh.x963.xrange@python", EXE, [(ln, impl(ln)) for ln in dh_xr], key="dh.x963.xrange@python")
    for name in sorted(kdf_by):
        ctx.stream(name, kdf_by[name])  # no curve arithmetic: one backend
    _stream_both(ctx, "dleq.gen", gen_l)
    _stream_both(ctx, "dleq.verify", ver_l)
    _stream_both(ctx, "dleq.malformed", bad)
    _stream_both(ctx, "dleq.vectors", vectors)
    if dleq_xr:
        ctx.note(f"dleq: {len(dleq_xr)} generated lines with an x-coordinate outside 0..p-1 were not streamed (observation, "
                 "invalid input: dleq.generate_proof(5, (x + p, y), bytes(32)) for (x, y) = mult(7) raises OverflowError, "
                 "not a BTClib error, on both arms)")


# ========================================================================================================
# Property oracles on the REAL code alone for the two-party schemes and silent payments (no model involved):
#   dh.symmetry, dh.inf_backend_agreement, dh.xrange_backend_agreement, dleq.complete_and_sound, ecies.roundtrip,
#   ellswift.roundtrip, pedersen.commit_verify, borromean.sign_verify, sp.sender_scanner, sp.backend_agreement,
#   sp.vectors, sp.output_keys.order, sp.scan.offcurve
# Witnesses are JSON (ints, hex strings); `serving` selects the arithmetic backend where there is a switch.
# ========================================================================================================
from btclib import silent_payments as sp  # noqa: E402
from btclib.ecc import borromean, ecies, ellswift, pedersen  # noqa: E402
from btclib.hashes import hash160  # noqa: E402
from btclib.script.witness import Witness  # noqa: E402
from btclib.tx.out_point import OutPoint  # noqa: E402

_SP_VECTORS = "/repo/tests/_data/send_and_receive_test_vectors.json"


def _refuses(f):
    """(refused, class): f() raised an exception of the library (value / type / runtime)"""
    try:
        f()
    except Exception as e:  # noqa: BLE001 - the class is the observation
        c = common.err_class(e)
        return (not c.startswith("foreign")), (c if not c.startswith("foreign") else f"foreign:{type(e).__name__}")
    return False, "answered"


def _other_backend(serving):
    for _tag, s in backends():
        if s != bool(serving):
            return s
    return None


# ---- realcode: oracles ---------------------------------------------------------------------------------
def _o_dh_symmetry(w):
    ec = CURVES[w["curve"]]
    info = None if w["info"] is None else bytes.fromhex(w["info"])
    with backend(w["serving"]):
        try:
            pa, pb = mult(w["a"], ec.G, ec), mult(w["b"], ec.G, ec)
            ka = dh.diffie_hellman(w["a"], pb, w["size"], info, ec, sha256)
            kb = dh.diffie_hellman(w["b"], pa, w["size"], info, ec, sha256)
        except Exception as e:  # noqa: BLE001
            return False, f"honest exchange raised {type(e).__name__}: {str(e)[:100]}"
        if ka != kb:
            return False, f"the two parties derive different keys: {ka.hex()} / {kb.hex()}"
        if len(ka) != w["size"]:
            return False, f"keying data of {len(ka)} bytes for size {w['size']}"
        # the secret is the x-coordinate of a*b*G under the KDF
        s = mult(w["a"] * w["b"], ec.G, ec)
        if ka != kdf.ansi_x9_63_kdf(s[0].to_bytes(ec.p_size, "big"), w["size"], sha256, info):
            return False, "the key is not the KDF of the x-coordinate of a*b*G"
        c = w["c"]
        if c % ec.n not in (w["b"] % ec.n, -w["b"] % ec.n):
            kc = dh.diffie_hellman(c, pa, w["size"], info, ec, sha256)
            if kc == ka and w["size"] >= 8:
                return False, "a third party with another key derives the same keying data"
    return True, f"{w['curve']} size {w['size']}"


def _o_dh_inf(w):
    """diffie_hellman on a peer at infinity must be answered with the same exception class by both arms"""
    got = {}
    for tag, serving in backends():
        with backend(serving):
            _r, got[tag] = _refuses(lambda: dh.diffie_hellman(w["d"], (w["qx"], 0), 32, None, secp256k1, sha256))
    if len(set(got.values())) > 1:
        return False, "diffie_hellman(d, INF) on secp256k1: " + ", ".join(f"{k} arm -> {v}" for k, v in sorted(got.items()))
    return True, f"both arms: {got}"


def _o_dh_xrange(w):
    """diffie_hellman on a peer whose x-coordinate is x+k*p must be answered the same way by both arms"""
    got = {}
    for tag, serving in backends():
        with backend(serving):
            try:
                got[tag] = "ok " + dh.diffie_hellman(w["d"], (w["qx"], w["qy"]), 32, None, secp256k1, sha256).hex()
            except Exception as e:  # noqa: BLE001
                got[tag] = f"{type(e).__name__}"
    if len(set(got.values())) > 1:
        return False, ("diffie_hellman(d, (x+k*p, y)) on secp256k1: "
                       + ", ".join(f"{k} arm -> {v}" for k, v in sorted(got.items())))
    return True, f"both arms: {got}"


def _o_dleq(w):  # noqa: PLR0911, PLR0912
    ec = secp256k1
    with backend(w["serving"]):
        try:
            g = ec.G if w["g"] is None else mult(w["g"], ec.G, ec)
            b = mult(w["b"], ec.G, ec)
            aux = bytes.fromhex(w["aux"])
            msg = None if w["msg"] is None else bytes.fromhex(w["msg"])
            a = w["a"]
            proof = dleq.generate_proof(a, b, aux, g, msg)
            pa, pc = mult(a, g, ec), mult(a, b, ec)
            if len(proof) != 64:
                return False, f"proof of {len(proof)} bytes"
            if not dleq.verify_proof(pa, b, pc, proof, g, msg):
                return False, "the honest proof is refused for the statement it was made for"
            dleq.assert_proof_as_valid(pa, b, pc, proof, g, msg)
            # the same statement in compressed-octets spelling
            if not dleq.verify_proof(bytes_from_point(pa, ec), bytes_from_point(b, ec), bytes_from_point(pc, ec), proof,
                                     bytes_from_point(g, ec), msg):
                return False, "the honest proof is refused when the points are given as octets"
            if dleq.generate_proof(a, b, aux, g, msg) != proof:
                return False, "generate_proof is not deterministic for a given aux"
            other = mult(w["o"], ec.G, ec)
            msg2 = bytes.fromhex(w["msg2"])
            alts = {"A": (other, b, pc, g, msg), "B": (pa, other, pc, g, msg), "C": (pa, b, other, g, msg),
                    "G": (pa, b, pc, other, msg), "msg": (pa, b, pc, g, msg2 if msg2 != msg else None),
                    "-A": (ec.negate(pa), b, pc, g, msg), "-C": (pa, b, ec.negate(pc), g, msg),
                    "A<->C": (pc, b, pa, g, msg), "B<->G": (pa, g, pc, b, msg),
                    "no msg" if msg is not None else "a msg": (pa, b, pc, g, None if msg is not None else msg2)}
            for name, (xa, xb, xc, xg, xm) in alts.items():
                if (xa, xb, xc, xg, xm) == (pa, b, pc, g, msg):
                    continue
                if other in (pa, b, pc, g) and name in "ABCG":
                    continue
                if dleq.verify_proof(xa, xb, xc, proof, xg, xm):
                    return False, f"the proof verifies for an altered statement ({name} altered)"
            # a proof for another secret does not verify for this statement
            a2 = w["o"]
            if a2 % N != a % N:
                p2 = dleq.generate_proof(a2, b, aux, g, msg)
                if dleq.verify_proof(pa, b, pc, p2, g, msg):
                    return False, "a proof made with another secret verifies for this statement"
            bad = _flip(proof, w["bit"])
            if dleq.verify_proof(pa, b, pc, bad, g, msg):
                return False, f"the proof with bit {w['bit'] % 512} flipped verifies"
        except Exception as e:  # noqa: BLE001
            return False, f"DLEQ session raised {type(e).__name__}: {str(e)[:100]}"
    return True, "proof verifies; 10 altered statements refused"


def _toy_stream(key: bytes, iv: bytes, n: int) -> bytes:
    out, c = b"", 0
    while len(out) < n:
        out += sha256(key + iv + c.to_bytes(4, "big")).digest()
        c += 1
    return out[:n]


def _toy_encrypt(key: bytes, iv: bytes, msg: bytes) -> bytes:
    """a padding stream cipher standing in for AES-128-CBC/PKCS7 (ecies takes the cipher as a parameter)"""
    pad = 16 - len(msg) % 16
    data = msg + bytes([pad]) * pad
    return bytes(x ^ y for x, y in zip(data, _toy_stream(key, iv, len(data))))


def _toy_decrypt(key: bytes, iv: bytes, ct: bytes) -> bytes:
    data = bytes(x ^ y for x, y in zip(ct, _toy_stream(key, iv, len(ct))))
    pad = data[-1] if data else 0
    if not 1 <= pad <= 16 or data[-pad:] != bytes([pad]) * pad:
        raise ValueError("toy cipher: bad padding")  # not a BTClib error: a tampered envelope must not get here
    return data[:-pad]


def _o_ecies(w):  # noqa: PLR0911, PLR0912
    m = bytes.fromhex(w["m"])
    sk, eph, other = w["sk"], w["eph"], w["other"]
    with backend(w["serving"]):
        try:
            pk = mult(sk)
            pk_arg = pk if w["pk_form"] == "point" else bytes_from_point(pk, secp256k1, compressed=w["pk_form"] == "c")
            armor = ecies.encrypt(m, pk_arg, _toy_encrypt, eph_prv_key=eph)
            got = ecies.decrypt(armor, sk, _toy_decrypt)
        except Exception as e:  # noqa: BLE001
            return False, f"honest encrypt/decrypt raised {type(e).__name__}: {str(e)[:100]}"
        if got != m:
            return False, f"decrypt(encrypt(m)) = {got.hex()} for m = {m.hex()}"
        try:
            env = ecies.Envelope.b64decode(armor)
            raw = env.serialize()
            if ecies.Envelope.parse(raw) != env or ecies.Envelope.parse(raw).serialize() != raw or env.b64encode() != armor:
                return False, "Envelope parse / serialize / base64 do not round-trip"
            if raw[:4] != ecies.MAGIC or raw[4:37] != bytes_from_point(mult(eph), secp256k1) or len(raw) != 4 + 33 + 32 + (
                    len(m) // 16 + 1) * 16:
                return False, "envelope layout is not magic | ephemeral key | ciphertext | MAC"
            ka, kb = ecies.derive_keys(eph, pk), ecies.derive_keys(sk, mult(eph))
            if ka != kb:
                return False, "derive_keys differs between sender and recipient"
        except Exception as e:  # noqa: BLE001
            return False, f"envelope handling raised {type(e).__name__}: {str(e)[:100]}"
        if other % N not in (sk % N,):
            ok, cls = _refuses(lambda: ecies.decrypt(armor, other, _toy_decrypt))
            if not ok:
                return False, f"decrypting with another private key: {cls}"
        nbits = 8 * len(raw)
        bits = range(nbits) if w["bits"] == "all" else [b % nbits for b in w["bits"]] + [
            8 * 3 + w["bits"][0] % 8, 8 * 4 + w["bits"][0] % 8, 8 * 37 + w["bits"][0] % 8, nbits - 1 - w["bits"][0] % 256]
        for bit in bits:
            bad = bytearray(raw)
            bad[bit // 8] ^= 0x80 >> (bit % 8)
            armor2 = base64.b64encode(bytes(bad)).decode("ascii")
            ok, cls = _refuses(lambda a=armor2: ecies.decrypt(a, sk, _toy_decrypt))
            if not ok:
                region = "magic" if bit < 32 else "ephemeral key" if bit < 8 * 37 else "MAC" if bit >= nbits - 256 \
                    else "ciphertext"
                return False, f"envelope with bit {bit} ({region}) flipped: {cls}"
    return True, f"{len(m)}-byte message, {len(list(bits))} flipped bits refused"


ELL_CURVES = ["secp256k1", "secp256k1", "secp256k1", "secp160k1", "secp192k1", "secp224k1"]


def _o_ellswift(w):  # noqa: PLR0911, PLR0912, PLR0915
    kind = w["kind"]
    ec = CURVES[w.get("curve", "secp256k1")]
    with backend(w["serving"]):
        try:
            if kind == "encode":
                q = w["q"]
                pt = mult(q, ec.G, ec)
                for form in ("point", "octets"):
                    ell = ellswift.encode_var(pt if form == "point" else bytes_from_point(pt, ec), ec)
                    if len(ell) != 2 * ec.p_size:
                        return False, f"encoding of {len(ell)} bytes"
                    back = ellswift.decode_var(ell, ec)
                    if back[0] != pt[0]:
                        return False, f"decode_var(encode_var(P)) has x {back[0]}, P has x {pt[0]} (encoding {ell.hex()})"
                    if back != pt:
                        return False, f"decode_var(encode_var(P)) has the other y (encoding {ell.hex()})"
                ell = ellswift.create_var(q, ec)
                if ellswift.decode_var(ell, ec) != pt:
                    return False, f"decode_var(create_var(q)) is not q*G (encoding {ell.hex()})"
                return True, "encode/create then decode"
            if kind == "decode":  # a fixed encoding decodes to the same point on both arms, always on the curve
                ell = bytes.fromhex(w["ell"])
                pt = ellswift.decode_var(ell, ec)
                if pt[1] == 0 or not ec.is_on_curve(pt):
                    return False, f"decode_var answers {pt}, not a point of the curve"
                size = ec.p_size
                u, t = int.from_bytes(ell[:size], "big"), int.from_bytes(ell[size:], "big")
                if pt[0] != ellswift._xswiftec_var(u, t, ec):
                    return False, "decode_var disagrees with _xswiftec_var"
                if (pt[1] % 2) != ((t % ec.p) % 2):
                    return False, "decoded y parity is not t's"
                ob = _other_backend(w["serving"])
                if ob is not None:
                    with backend(ob):
                        pt2 = ellswift.decode_var(ell, ec)
                    if pt2 != pt:
                        return False, f"decode_var differs between the arms: {pt} / {pt2}"
                if "x" in w and pt[0] != int(w["x"], 16):
                    return False, f"BIP324 vector: decoded x {pt[0]:x}, expected {w['x']}"
                return True, "decoded on the curve"
            if kind == "inv":
                u, x = w["u"], w["x"]
                hits = 0
                seen = set()
                for c in range(8):
                    t = ellswift._xswiftec_inv_var(x, u, c, ec)
                    if "expect" in w:
                        e = w["expect"][c]
                        if (t is None) != (e is None) or (t is not None and t != int(e, 16)):
                            return False, f"BIP324 vector: case {c} answers {t}, expected {e}"
                    if t is None:
                        continue
                    hits += 1
                    if not 0 <= t < ec.p:
                        return False, f"case {c}: t outside the field"
                    if t in seen:
                        return False, f"case {c}: t repeats another case's"
                    seen.add(t)
                    got = ellswift._xswiftec_var(u, t, ec)
                    if got != x % ec.p:
                        return False, f"_xswiftec_var(u, _xswiftec_inv_var(x, u, {c})) = {got}, x = {x}"
                return True, f"{hits} of 8 cases invert"
            if kind == "xdh":
                ell_a, ell_b = bytes.fromhex(w["ell_a"]), bytes.fromhex(w["ell_b"])
                sa = ellswift.xdh(ell_a, ell_b, w["qa"], 0, ec)
                sb = ellswift.xdh(ell_a, ell_b, w["qb"], 1, ec)
                if sa != sb:
                    return False, f"initiator derives {sa.hex()}, responder {sb.hex()}"
                if len(sa) != 32:
                    return False, f"secret of {len(sa)} bytes"
                if ellswift.xdh(ell_b, ell_a, w["qb"], 0, ec) == sa and ell_a != ell_b:
                    return False, "the secret does not depend on who initiated"
                if w["qc"] % ec.n not in (w["qb"] % ec.n, -w["qb"] % ec.n) and ellswift.xdh(ell_a, ell_b, w["qc"], 1, ec) == sa:
                    return False, "a third key derives the same secret"
                ob = _other_backend(w["serving"])
                if ob is not None:
                    with backend(ob):
                        if ellswift.xdh(ell_a, ell_b, w["qa"], 0, ec) != sa:
                            return False, "xdh differs between the arms"
                return True, "both parties derive the same secret"
        except Exception as e:  # noqa: BLE001
            return False, f"ellswift {kind} raised {type(e).__name__}: {str(e)[:100]}"
    return False, f"unknown kind {kind}"


def _o_pedersen(w):
    ec = CURVES[w["curve"]]
    r, v = w["r"], w["v"]
    with backend(w["serving"]):
        try:
            c = pedersen.commit(r, v, ec, sha256)
            if c[1] == 0 or not ec.is_on_curve(c):
                return False, f"commitment {c} is not a point of the curve"
            if not pedersen.verify(r, v, c, ec, sha256):
                return False, "verify refuses the opening the commitment was made with"
            pedersen.assert_as_valid(r, v, c, ec, sha256)
            h = pedersen.second_generator(ec, sha256)
            if c != ec.add_var(mult(r, ec.G, ec), mult(v, h, ec)):
                return False, "commit(r, v) is not r*G + v*H"
            if w["dr"] % ec.n and pedersen.verify(r + w["dr"], v, c, ec, sha256):
                return False, "verify accepts an altered blinding factor"
            if w["dv"] % ec.n and pedersen.verify(r, v + w["dv"], c, ec, sha256):
                return False, "verify accepts an altered value"
            if pedersen.verify(r, v, ec.negate(c), ec, sha256):
                return False, "verify accepts the negated commitment"
            if (r - v) % ec.n and pedersen.verify(v, r, c, ec, sha256):
                return False, "verify accepts (v, r) for commit(r, v)"
            # additively homomorphic
            c2 = pedersen.commit(w["dr"], w["dv"], ec, sha256) if (w["dr"] % ec.n or w["dv"] % ec.n) else None
            if c2 is not None and (r + w["dr"]) % ec.n | (v + w["dv"]) % ec.n:
                s = ec.add_var(c, c2)
                if s[1] != 0 and not pedersen.verify(r + w["dr"], v + w["dv"], s, ec, sha256):
                    return False, "commit(r1, v1) + commit(r2, v2) does not open to (r1 + r2, v1 + v2)"
        except Exception as e:  # noqa: BLE001
            return False, f"pedersen raised {type(e).__name__}: {str(e)[:100]}"
    return True, w["curve"]


def _o_borromean(w):  # noqa: PLR0911, PLR0912
    ec = CURVES[w["curve"]]
    msg = bytes.fromhex(w["msg"])
    with backend(w["serving"]):
        try:
            rings = [[mult(d, ec.G, ec) for d in ring] for ring in w["rings"]]
            idx = w["idx"]
            keys = [w["rings"][i][idx[i]] for i in range(len(rings))]
            sig = borromean.sign(msg, w["ks"], idx, keys, rings, ec, sha256)
            if not borromean.verify(msg, sig, rings, ec, sha256):
                return False, "verify refuses the honest ring signature"
            borromean.assert_as_valid(msg, sig, rings, ec, sha256)
            if [len(r) for r in sig.s] != [len(r) for r in rings]:
                return False, "the signature's shape is not the rings'"
            if ec == secp256k1:
                raw = sig.serialize()
                if not borromean.verify(msg, raw, rings, ec, sha256):
                    return False, "verify refuses the serialised honest signature"
                if borromean.BorromeanSig.parse(raw, [len(r) for r in rings]) != sig:
                    return False, "BorromeanSig parse(serialize) is not the identity"
            msg2 = bytes.fromhex(w["msg2"])
            if msg2 != msg and borromean.verify(msg2, sig, rings, ec, sha256):
                return False, "the signature verifies for another message"
            i = w["alt_ring"] % len(rings)
            j = w["alt_pos"] % len(rings[i])
            s2 = [list(r) for r in sig.s]
            s2[i][j] = (s2[i][j] + 1 + w["delta"] % (ec.n - 1)) % ec.n
            try:
                if borromean.verify(msg, borromean.BorromeanSig(sig.e0, s2, ec), rings, ec, sha256):
                    return False, f"the signature with s[{i}][{j}] altered verifies"
            except Exception as e:  # noqa: BLE001
                if common.err_class(e).startswith("foreign"):
                    return False, f"a signature with s[{i}][{j}] altered raised {type(e).__name__}"
            e0 = _flip(sig.e0, w["delta"])
            if borromean.verify(msg, borromean.BorromeanSig(e0, sig.s, ec), rings, ec, sha256):
                return False, "the signature with e0 altered verifies"
            rings2 = [list(r) for r in rings]
            rings2[i][j] = mult(w["outsider"], ec.G, ec)
            if rings2[i][j] != rings[i][j] and borromean.verify(msg, sig, rings2, ec, sha256):
                return False, f"the signature verifies with ring key [{i}][{j}] replaced"
            if len(rings) > 1 and rings[0] != rings[-1]:
                swapped = [rings[-1]] + rings[1:-1] + [rings[0]]
                if [len(r) for r in swapped] == [len(r) for r in rings] and borromean.verify(msg, sig, swapped, ec, sha256):
                    return False, "the signature verifies with two rings exchanged"
            # a signer outside its ring cannot produce a verifying signature
            keys2 = list(keys)
            keys2[i] = w["outsider"]
            if mult(w["outsider"], ec.G, ec) != rings[i][idx[i]]:
                try:
                    forged = borromean.sign(msg, w["ks"], idx, keys2, rings, ec, sha256)
                    if borromean.verify(msg, forged, rings, ec, sha256):
                        return False, "a signature made with a key outside the ring verifies"
                except Exception as e:  # noqa: BLE001
                    if common.err_class(e).startswith("foreign"):
                        return False, f"signing with an outsider key raised {type(e).__name__}"
        except Exception as e:  # noqa: BLE001
            return False, f"borromean raised {type(e).__name__}: {str(e)[:100]}"
    return True, f"{len(w['rings'])} rings of sizes {[len(r) for r in w['rings']]}"


# -- silent payments
_SP_SIG = b"\x30" + bytes(70)


def _sp_input(kind: str, prv: int):
    """(script_pub_key, script_sig, witness) of a signed input of the given type spending a key's output"""
    pt = mult(prv)
    c = bytes_from_point(pt, secp256k1)
    if kind == "p2wpkh":
        return b"\x00\x14" + hash160(c), b"", Witness([_SP_SIG, c])
    if kind == "p2pkh":
        return b"\x76\xa9\x14" + hash160(c) + b"\x88\xac", bytes([len(_SP_SIG)]) + _SP_SIG + bytes([33]) + c, None
    if kind == "p2sh-p2wpkh":
        redeem = b"\x00\x14" + hash160(c)
        return b"\xa9\x14" + hash160(redeem) + b"\x87", bytes([len(redeem)]) + redeem, Witness([_SP_SIG, c])
    if kind == "p2tr":
        return b"\x51\x20" + c[1:], b"", Witness([bytes(64)])
    if kind == "p2tr-annex":
        return b"\x51\x20" + c[1:], b"", Witness([bytes(64), b"\x50\x01"])
    raise ValueError(kind)


class _SpTx:
    """sender and scanners of one witness, built with the real code under the current backend"""

    def __init__(self, w):
        self.w = w
        self.prv_keys, self.pub_keys = [], []
        for kind, prv in w["inputs"]:
            spk, ssig, wit = _sp_input(kind, prv)
            pk = sp.pub_key_from_input(spk, ssig, wit)
            if pk is None:
                raise ValueError(f"pub_key_from_input skips an eligible {kind} input")
            self.prv_keys.append((prv, spk))
            self.pub_keys.append((pk, spk))
        self.outpoints = [OutPoint(bytes.fromhex(t), v) for t, v in w["outpoints"]]
        self.wallets = w["wallets"]
        self.addresses = []
        for wi, m in w["recipients"]:
            b_scan, b_spend, _labels = self.wallets[wi]
            self.addresses.append(sp.address_from_keys(mult(b_scan), mult(b_spend)) if m is None
                                  else sp.labeled_address_from_keys(b_scan, mult(b_spend), m))

    def pay(self):
        return sp.output_keys(self.prv_keys, self.outpoints, self.addresses)

    def scan(self, b_scan, b_spend_pub, labels, outputs, full):
        lab = sp.label_lookup(b_scan, sorted(set(labels) | {0}))
        if full:
            return sp.scan_transaction_outputs(b_scan, b_spend_pub, self.outpoints, self.pub_keys, outputs, lab)
        tweak = sp.tweak_data(self.outpoints, sp.pub_key_sum([pk for pk, _ in self.pub_keys]))
        return sp.scan_outputs(b_scan, b_spend_pub, tweak, outputs, lab)


def _found_set(found):
    return sorted((o.pub_key.hex(), o.prv_key_tweak) for o in found)


def _o_sp_sender_scanner(w):  # noqa: PLR0911, PLR0912
    with backend(w["serving"]):
        try:
            tx = _SpTx(w)
            # the sum the scanner sees is the sum the sender used (taproot keys negated to even y)
            a = sp.prv_key_sum(tx.prv_keys)
            if mult(a) != sp.pub_key_sum([pk for pk, _ in tx.pub_keys]):
                return False, "prv_key_sum * G is not pub_key_sum of the inputs' public keys"
            keys = tx.pay()
            if len(keys) != len(tx.addresses):
                return False, f"{len(keys)} output keys for {len(tx.addresses)} addresses"
            if len(set(keys)) != len(keys):
                return False, "two recipients are paid on the same output key"
            decoys = [bytes.fromhex(d) for d in w["decoys"]]
            outputs = keys + decoys
            _random.Random(w["shuffle"]).shuffle(outputs)
            claimed: dict[bytes, int] = {}
            for wi, (b_scan, b_spend, labels) in enumerate(tx.wallets):
                want = sum(1 for r, _m in w["recipients"] if r == wi)
                light = tx.scan(b_scan, mult(b_spend), labels, outputs, full=False)
                full = tx.scan(b_scan, mult(b_spend), labels, outputs, full=True)
                if _found_set(light) != _found_set(full):
                    return False, (f"wallet {wi}: scan_outputs finds {_found_set(light)}, scan_transaction_outputs "
                                   f"{_found_set(full)}")
                if len(full) != want:
                    return False, f"wallet {wi} is paid {want} outputs and its scanner finds {len(full)}"
                for o in full:
                    if o.pub_key not in keys:
                        return False, f"wallet {wi} claims an output the sender did not create ({o.pub_key.hex()})"
                    if o.pub_key in claimed:
                        return False, f"output {o.pub_key.hex()} is found by wallets {claimed[o.pub_key]} and {wi}"
                    claimed[o.pub_key] = wi
                    d = sp.prv_key_from_tweak(b_spend, o.prv_key_tweak)
                    if mult(d)[0].to_bytes(32, "big") != o.pub_key:
                        return False, f"wallet {wi}: b_spend + tweak does not open output {o.pub_key.hex()}"
                # another order of the outputs: the same set
                again = tx.scan(b_scan, mult(b_spend), labels, outputs[::-1], full=bool(w["shuffle"] % 2))
                if _found_set(again) != _found_set(full):
                    return False, f"wallet {wi}: the found set depends on the order of the outputs"
            if set(claimed) != set(keys):
                return False, f"{len(set(keys) - set(claimed))} created outputs are found by no scanner"
            # a scanner holding another scan key finds nothing
            b_scan0, b_spend0, labels0 = tx.wallets[0]
            for full in (False, True):
                if tx.scan(w["stranger"], mult(b_spend0), labels0, outputs, full=full):
                    return False, "a scanner with another scan key finds an output"
            # the outputs are bound to the transaction: another outpoint set, another set of keys
            tx2 = _SpTx({**w, "outpoints": [[w["outpoints"][0][0], w["outpoints"][0][1] ^ 1]]})
            if set(tx2.pay()) & set(keys):
                return False, "another outpoint derives a same output key"
        except Exception as e:  # noqa: BLE001
            return False, f"silent payment round trip raised {type(e).__name__}: {str(e)[:120]}"
    return True, f"{len(w['inputs'])} inputs, {len(w['recipients'])} recipients, {len(w['wallets'])} wallets"


def _o_sp_backend_agreement(w):
    """sender and full-node scanner answer the same on both arms (anything but the known off-curve refusal)"""
    got = {}
    for tag, serving in backends():
        with backend(serving):
            try:
                tx = _SpTx(w)
                keys = tx.pay()
                outputs = keys + [bytes.fromhex(d) for d in w["decoys"]]
                _random.Random(w["shuffle"]).shuffle(outputs)
                found = [_found_set(tx.scan(bs, mult(bp), labels, outputs, full=True)) for bs, bp, labels in tx.wallets]
                got[tag] = {"keys": [k.hex() for k in keys], "found": found}
            except Exception as e:  # noqa: BLE001
                got[tag] = {"raised": type(e).__name__}
    vals = list(got.values())
    if any(v != vals[0] for v in vals[1:]):
        if all("keys" in v for v in vals) and any(v["keys"] != vals[0]["keys"] for v in vals[1:]):
            what = "output_keys"
        else:
            what = "scan_transaction_outputs"
        return False, f"{what} differs between the arms: " + json.dumps(got)[:600]
    return True, f"{len(got)} arms agree"


_SP_VEC_CACHE: list = []


def _sp_vectors():
    if not _SP_VEC_CACHE:
        with open(_SP_VECTORS, encoding="utf8") as f:
            _SP_VEC_CACHE.append(json.load(f))
    return _SP_VEC_CACHE[0]


def _vec_pub_key(v):
    wit = Witness.parse(v["txinwitness"]) if v["txinwitness"] else None
    return sp.pub_key_from_input(v["prevout"]["scriptPubKey"]["hex"], v["scriptSig"], wit)


def _o_sp_vectors(w):  # noqa: PLR0911, PLR0912
    case = _sp_vectors()[w["index"]]
    test = case[w["part"]][w["i"]]
    given, expected = test["given"], test["expected"]
    with backend(w["serving"]):
        try:
            outpoints = [OutPoint(v["txid"], v["vout"]) for v in given["vin"]]
            if w["part"] == "sending":
                prv_keys = [(v["private_key"], v["prevout"]["scriptPubKey"]["hex"]) for v in given["vin"]
                            if _vec_pub_key(v) is not None]
                addresses = []
                for r in given["recipients"]:
                    addresses.extend([r["address"]] * r.get("count", 1))
                if not prv_keys:
                    return expected["outputs"] == [[]], "no eligible input"
                try:
                    keys = sp.output_keys(prv_keys, outpoints, addresses)
                except Exception as e:  # noqa: BLE001
                    if common.err_class(e) == "value" and expected["outputs"] == [[]]:
                        return True, "refused as the vector expects"
                    return False, f"output_keys raised {type(e).__name__}: {str(e)[:80]}"
                found = {k.hex() for k in keys}
                if not any(found == set(valid) for valid in expected["outputs"]):
                    return False, f"output_keys answers {sorted(found)[:4]}.., none of the vector's valid sets"
                return True, f"{len(keys)} outputs"
            b_scan = given["key_material"]["scan_priv_key"]
            b_spend = given["key_material"]["spend_priv_key"]
            pub_keys = [(pk, v["prevout"]["scriptPubKey"]["hex"]) for v in given["vin"] if (pk := _vec_pub_key(v)) is not None]
            if not pub_keys:
                return expected["outputs"] == [], "no eligible input"
            labels = sp.label_lookup(b_scan, given["labels"])
            try:
                a_sum = sp.pub_key_sum([pk for pk, _ in pub_keys])
            except Exception as e:  # noqa: BLE001
                return (common.err_class(e) == "value" and expected["outputs"] == []), "input keys sum to infinity"
            tweak = sp.tweak_data(outpoints, a_sum)
            light = sp.scan_outputs(b_scan, mult(b_spend), tweak, given["outputs"], labels)
            full = sp.scan_transaction_outputs(b_scan, mult(b_spend), outpoints, pub_keys, given["outputs"], labels)
            if _found_set(light) != _found_set(full):
                return False, "scan_outputs and scan_transaction_outputs differ on a BIP352 vector"
            if "n_outputs" in expected:
                if len(full) != expected["n_outputs"]:
                    return False, f"{len(full)} outputs found, the vector counts {expected['n_outputs']}"
            elif _found_set(full) != sorted((o["pub_key"], int(o["priv_key_tweak"], 16)) for o in expected["outputs"]):
                return False, f"found {_found_set(full)[:3]}.., the vector lists {len(expected['outputs'])} outputs"
            for o in full[:8]:
                if mult(sp.prv_key_from_tweak(b_spend, o.prv_key_tweak))[0].to_bytes(32, "big") != o.pub_key:
                    return False, "b_spend + tweak does not open a found output"
        except Exception as e:  # noqa: BLE001
            return False, f"vector replay raised {type(e).__name__}: {str(e)[:120]}"
    return True, case["comment"][:60]


def _o_sp_output_order(w):
    """`output_keys` documents `one key per address, in the order the addresses are given`: keys[i] must be
    found by the scanner of addresses[i]"""
    with backend(w["serving"]):
        try:
            tx = _SpTx(w)
            keys = tx.pay()
            for i, (wi, _m) in enumerate(w["recipients"]):
                b_scan, b_spend, labels = tx.wallets[wi]
                found = tx.scan(b_scan, mult(b_spend), labels, [keys[i]] if w.get("alone") else keys, full=False)
                if keys[i] not in [o.pub_key for o in found]:
                    owner = [wj for wj, (bs, bp, lb) in enumerate(tx.wallets)
                             if keys[i] in [o.pub_key for o in tx.scan(bs, mult(bp), lb, keys, full=False)]]
                    return False, (f"output_keys(...)[{i}] is not an output of addresses[{i}] (wallet {wi}): it is found by "
                                   f"wallet {owner} -- the keys come back grouped by scan key, not in address order")
        except Exception as e:  # noqa: BLE001
            return False, f"raised {type(e).__name__}: {str(e)[:120]}"
    return True, "keys[i] belongs to addresses[i]"


def smallest_non_x() -> int:
    x = 0
    while True:
        try:
            secp256k1.y_even_var(x)
        except Exception:  # noqa: BLE001
            return x
        x += 1


def _o_sp_scan_offcurve(w):
    """a 32-byte output that is no x-coordinate: both arms of scan_transaction_outputs must answer alike"""
    got = {}
    spk, _ssig, _wit = _sp_input("p2wpkh", w["a"])
    for tag, serving in backends():
        with backend(serving):
            try:
                found = sp.scan_transaction_outputs(w["b_scan"], mult(w["b_spend"]), [OutPoint(bytes.fromhex(w["txid"]), w["vout"])],
                                                    [(mult(w["a"]), spk)], [x.to_bytes(32, "big") for x in w["outputs"]])
                got[tag] = f"answers {_found_set(found)}"
            except Exception as e:  # noqa: BLE001
                got[tag] = f"raises {type(e).__name__}({str(e)[:60]!r})"
    if len(set(got.values())) > 1:
        return False, ("scan_transaction_outputs on an output that is no x-coordinate: "
                       + "; ".join(f"{k} arm {v}" for k, v in sorted(got.items())))
    return True, f"arms agree: {got}"


ORACLES.update({"dh.symmetry": _o_dh_symmetry, "dh.inf_backend_agreement": _o_dh_inf,
                "dh.xrange_backend_agreement": _o_dh_xrange, "dleq.complete_and_sound": _o_dleq,
                "ecies.roundtrip": _o_ecies, "ellswift.roundtrip": _o_ellswift, "pedersen.commit_verify": _o_pedersen,
                "borromean.sign_verify": _o_borromean, "sp.sender_scanner": _o_sp_sender_scanner,
                "sp.backend_agreement": _o_sp_backend_agreement, "sp.vectors": _o_sp_vectors,
                "sp.output_keys.order": _o_sp_output_order, "sp.scan.offcurve": _o_sp_scan_offcurve})


# ---- realcode: generators/run --------------------------------------------------------------------------
def _w_sp(rng, serving, small=False):
    kinds = ["p2tr", "p2tr", "p2tr", "p2wpkh", "p2wpkh", "p2pkh", "p2sh-p2wpkh", "p2tr-annex"]
    n_in = rng.choice([1, 1, 2, 2, 3] if small else [1, 2, 2, 3, 4, 5])
    inputs = [[rng.choice(kinds), g_prv(rng)] for _ in range(n_in)]
    if rng.random() < 0.15:
        inputs = [["p2tr", d] for _k, d in inputs]  # taproot only: every key may need negating
    n_out = rng.choice([1, 2, 3])
    outpoints = [[common.rand_bytes(rng, 32).hex(), rng.choice([0, 1, 2, 7, 255, 256, 2**32 - 1])] for _ in range(n_in)]
    if rng.random() < 0.2:
        outpoints.append([outpoints[0][0], outpoints[0][1] ^ 4])  # an ineligible input's outpoint still counts
    n_w = rng.choice([1, 2, 2] if small else [1, 2, 2, 3])
    wallets = []
    for _ in range(n_w):
        labels = rng.sample([0, 1, 2, 3, 7, 1000, 2**32 - 1], rng.choice([0, 1, 2, 3]))
        b_scan = g_prv(rng)
        while any(b_scan in (x[0], N - x[0]) for x in wallets):  # one scan key is one recipient (one counter k)
            b_scan = g_prv(rng)
        wallets.append([b_scan, g_prv(rng), labels])
    n_rec = rng.choice([1, 2, 3, 4] if small else [1, 2, 3, 4, 5, 6, 8])
    recipients = []
    for _ in range(n_rec):
        wi = rng.randrange(n_w)
        labels = wallets[wi][2]
        m = rng.choice(labels) if labels and rng.random() < 0.5 else None
        recipients.append([wi, m])
    if n_rec >= 2 and rng.random() < 0.6:  # the same address several times: the counter k must advance
        recipients[rng.randrange(n_rec)] = list(recipients[rng.randrange(n_rec)])
    for wi in range(n_w):  # every wallet is paid at least once
        if all(r != wi for r, _ in recipients):
            recipients.append([wi, None])
    decoys = []
    for _ in range(n_out - 1 if small else n_out):
        r = rng.random()
        if r < 0.6:
            decoys.append(mult(g_prv(rng))[0].to_bytes(32, "big").hex())
        elif r < 0.8:
            decoys.append(mult(wallets[0][1])[0].to_bytes(32, "big").hex())  # the bare spend key
        else:  # a labelled spend key that was never tweaked by a shared secret
            t = sp.label_tweak(wallets[0][0], 0)
            decoys.append(mult((wallets[0][1] + t) % N or 1)[0].to_bytes(32, "big").hex())
    return {"inputs": inputs, "outpoints": outpoints, "wallets": wallets, "recipients": recipients, "decoys": decoys,
            "shuffle": rng.getrandbits(16), "stranger": 4 + rng.getrandbits(255) % (N - 8), "serving": serving}


# fixed witnesses of the recorded backend / ordering observations (deterministic: no rng)
W_SP_OFFCURVE = {"a": 1, "b_scan": 2, "b_spend": 3, "txid": "00" * 32, "vout": 0, "outputs": [5]}
W_DH_INF = {"d": 1, "qx": 5}
W_DH_XRANGE = {"d": 1, "qx": secp256k1.G[0] + P, "qy": secp256k1.G[1]}
W_SP_ORDER = {"inputs": [["p2wpkh", 1]], "outpoints": [["00" * 32, 0]], "wallets": [[2, 3, []], [4, 5, []]],
              "recipients": [[0, None], [1, None], [0, None]], "decoys": [], "shuffle": 0, "stranger": 6, "serving": False}


def run_realcode(ctx):  # noqa: PLR0912, PLR0915
    rng = ctx.rng
    bs = backends()

    def per(quick, thorough, serving):
        """cases for one arm: the Python arithmetic gets half"""
        n = ctx.n(quick, thorough)
        return n if serving else max(2, n // 2)

    # -- recorded observations (one deterministic witness each)
    ctx.check("sp.scan.offcurve", dict(W_SP_OFFCURVE), key="sp.scan.offcurve_backend_divergence")
    ctx.check("sp.scan.offcurve", {**W_SP_OFFCURVE, "outputs": [smallest_non_x()]}, key="sp.scan.offcurve_backend_divergence")
    # two observations about exception classes on INVALID input (not C16's statement: noted with their reproducer,
    # never raised as C16 findings; the inputs are kept out of the @bindings correspondence streams)
    # both were backend divergences on invalid input when this harness was written (repaired in /repo by 89eda414 and
    # d8821600): they are now ordinary checks, so a regression alarms under its own key
    ctx.check("dh.inf_backend_agreement", dict(W_DH_INF), key="dh.inf_point_error_class_backend_divergence")
    ctx.check("dh.xrange_backend_agreement", dict(W_DH_XRANGE), key="dh.x_out_of_range_backend_divergence")
    ctx.check("sp.output_keys.order", dict(W_SP_ORDER), key="sp.output_keys.order_not_address_order")

    for tag, serving in bs:
        # -- ECDH symmetry on every curve used
        names = sorted(set(DH_CURVES))
        for i in range(per(40, 600, serving)):
            name = names[i % len(names)] if i < len(names) else rng.choice(DH_CURVES)
            ec = CURVES[name]
            info = g_info(rng)
            ctx.check("dh.symmetry", {"curve": name, "a": g_scalar(rng, ec), "b": g_scalar(rng, ec), "c": g_scalar(rng, ec),
                                      "size": rng.choice([1, 16, 31, 32, 33, 64, 100]),
                                      "info": None if info is None else info.hex(), "serving": serving})
        # -- DLEQ
        for _ in range(per(30, 500, serving)):
            ctx.check("dleq.complete_and_sound",
                      {"a": g_prv(rng), "b": g_prv(rng), "g": None if rng.random() < 0.3 else g_prv(rng), "o": g_prv(rng),
                       "aux": common.rand_bytes(rng, 32).hex(), "msg": rng.choice([None, common.rand_bytes(rng, 32).hex()]),
                       "msg2": common.rand_bytes(rng, 32).hex(), "bit": rng.randrange(512), "serving": serving})
        # -- ECIES
        for i in range(per(40, 500, serving)):
            ln = [0, 1, 15, 16, 17, 31, 32, 200][i] if i < 8 else rng.randrange(0, 201)
            ctx.check("ecies.roundtrip",
                      {"m": common.rand_bytes(rng, ln).hex(), "sk": g_prv(rng), "eph": g_prv(rng), "other": g_prv(rng),
                       "pk_form": rng.choice(["point", "c", "u"]), "bits": [rng.getrandbits(16) for _ in range(6)],
                       "serving": serving})
        if ctx.tier == "thorough" or serving:  # every single bit of one envelope
            ctx.check("ecies.roundtrip", {"m": common.rand_bytes(rng, rng.choice([0, 5, 16])).hex(), "sk": g_prv(rng),
                                          "eph": g_prv(rng), "other": g_prv(rng), "pk_form": "point", "bits": "all",
                                          "serving": serving})
        # -- ElligatorSwift
        for _ in range(per(30, 400, serving)):
            name = rng.choice(ELL_CURVES)
            ec = CURVES[name]
            ctx.check("ellswift.roundtrip", {"kind": "encode", "curve": name, "q": g_scalar(rng, ec), "serving": serving})
        for _ in range(per(30, 400, serving)):
            name = rng.choice(ELL_CURVES)
            ec = CURVES[name]
            r = rng.random()
            ell = common.rand_bytes(rng, 2 * ec.p_size)
            if r < 0.15:  # halves at or above p, zero halves
                hi = (ec.p + rng.randrange(0, min(1000, 2**(8 * ec.p_size) - ec.p))).to_bytes(ec.p_size, "big")
                ell = rng.choice([hi + ell[ec.p_size:], ell[:ec.p_size] + hi, bytes(2 * ec.p_size), hi + hi,
                                  bytes(ec.p_size) + ell[ec.p_size:], ell[:ec.p_size] + bytes(ec.p_size)])
            ctx.check("ellswift.roundtrip", {"kind": "decode", "curve": name, "ell": ell.hex(), "serving": serving})
        for _ in range(per(20, 300, serving)):
            name = rng.choice(ELL_CURVES)
            ec = CURVES[name]
            qa, qb = g_scalar(rng, ec), g_scalar(rng, ec)
            with backend(serving):
                ell_a = ellswift.create_var(qa, ec) if rng.random() < 0.5 else ellswift.encode_var(mult(qa, ec.G, ec), ec)
                ell_b = ellswift.encode_var(mult(qb, ec.G, ec), ec)
            ctx.check("ellswift.roundtrip", {"kind": "xdh", "curve": name, "qa": qa, "qb": qb, "qc": g_scalar(rng, ec),
                                             "ell_a": ell_a.hex(), "ell_b": ell_b.hex(), "serving": serving})
        # -- Pedersen
        for _ in range(per(30, 400, serving)):
            name = rng.choice(["secp256k1", "secp256k1", "secp256r1", "secp112r1", "secp160k1", "secp192k1"])
            ec = CURVES[name]
            r, v = g_scalar(rng, ec), rng.choice([0, 1, rng.getrandbits(32), rng.getrandbits(64), g_scalar(rng, ec)])
            ctx.check("pedersen.commit_verify", {"curve": name, "r": rng.choice([r, r, r, 0]) if v else r, "v": v,
                                                 "dr": rng.choice([1, g_scalar(rng, ec)]), "dv": rng.choice([1, g_scalar(rng, ec)]),
                                                 "serving": serving})
        # -- Borromean
        for i in range(per(24, 300, serving)):
            name = rng.choice(["secp256k1", "secp256k1", "secp256k1", "secp160k1", "secp256r1"])
            ec = CURVES[name]
            n_rings = (i % 4) + 1
            rings = [[g_scalar(rng, ec) for _ in range(rng.choice([1, 2, 3, 4]))] for _ in range(n_rings)]
            ctx.check("borromean.sign_verify",
                      {"curve": name, "rings": rings, "idx": [rng.randrange(len(r)) for r in rings],
                       "ks": [g_scalar(rng, ec) for _ in rings], "msg": common.rand_bytes(rng, rng.choice([0, 1, 32, 32, 50])).hex(),
                       "msg2": common.rand_bytes(rng, 32).hex(), "alt_ring": rng.randrange(4), "alt_pos": rng.randrange(4),
                       "delta": rng.getrandbits(64), "outsider": g_scalar(rng, ec), "serving": serving})
        # -- silent payments
        with backend(True if _libsecp256k1.INSTALLED else False):
            sp_ws = [_w_sp(rng, serving, small=not serving) for _ in range(per(36, 500, serving))]
        for w in sp_ws:
            ctx.check("sp.sender_scanner", w)
            ctx.count("sp.inputs", "+".join(sorted({k for k, _ in w["inputs"]})))
            ctx.count("sp.recipients", f"{len(w['recipients'])} to {len(w['wallets'])} wallets"
                      f"{' labelled' if any(m is not None for _r, m in w['recipients']) else ''}"
                      f"{' repeated' if len({tuple(r) for r in w['recipients']}) < len(w['recipients']) else ''}")
    # -- both arms on the same witness (any difference but the recorded one alarms under its own key)
    if len(bs) > 1:
        with backend(True):
            ws = [_w_sp(rng, None, small=True) for _ in range(ctx.n(16, 200))]
        for w in ws:
            ctx.check("sp.backend_agreement", w, key="sp.sender_scanner.backend_divergence")
    # -- vendored vectors: BIP352 send/receive, BIP324 ElligatorSwift
    try:
        vec = _sp_vectors()
        for tag, serving in bs:
            for index, case in enumerate(vec):
                for part in ("sending", "receiving"):
                    for i, test in enumerate(case[part]):
                        big = len(test["given"].get("outputs", ())) > 100 or sum(
                            r.get("count", 1) for r in test["given"].get("recipients", ())) > 100
                        if big and not (serving and ctx.tier == "thorough"):
                            continue  # the K_MAX cases: thousands of outputs
                        ctx.check("sp.vectors", {"index": index, "part": part, "i": i, "serving": serving})
    except Exception as e:  # noqa: BLE001
        ctx.note(f"sp.vectors: BIP352 vector file not replayed: {type(e).__name__}: {e}")
    try:
        with open(os.path.join(_DATA, "ellswift_decode_test_vectors.csv"), encoding="utf8", newline="") as f:
            rows = list(csv.reader(f))[1:]
        for tag, serving in bs:
            for ell, x, _c in rows:
                ctx.check("ellswift.roundtrip", {"kind": "decode", "ell": ell, "x": x, "serving": serving})
        with open(os.path.join(_DATA, "xswiftec_inv_test_vectors.csv"), encoding="utf8", newline="") as f:
            rows = list(csv.reader(f))[1:]
        for row in rows:
            ctx.check("ellswift.roundtrip", {"kind": "inv", "u": int(row[0], 16), "x": int(row[1], 16),
                                             "expect": [c or None for c in row[2:10]], "serving": False})
    except Exception as e:  # noqa: BLE001
        ctx.note(f"ellswift vectors not replayed: {type(e).__name__}: {e}")
    # -- the SwiftEC map and its inverse (pure Python: one arm)
    for _ in range(ctx.n(60, 1500)):
        name = rng.choice(ELL_CURVES)
        ec = CURVES[name]
        x = mult(g_scalar(rng, ec), ec.G, ec)[0]
        ctx.check("ellswift.roundtrip", {"kind": "inv", "curve": name, "u": rng.randrange(1, ec.p), "x": x, "serving": False})


# ========================================================================================================
# Silent payments (btclib/silent_payments.py, BIP352): correspondence with lean/Model/C16/SilentPayments.lean
# through `drv_c16` (`silent`). The model transcribes the PURE-PYTHON arm; every stream runs on both arms.
#   sp.prv_key_sum <keys>                        keys element `<prv>:<0|1>` (1 = the input spends a p2tr script)
#   sp.input_hash <outpoints> <Ax> <Ay>          outpoints = 36-byte serialisations
#   sp.label_tweak <b_scan> <m>
#   sp.output_keys <keys> <outpoints> <recips>   recips element `<Bscan x>:<Bscan y>:<Bm x>:<Bm y>`
#   sp.scan_outputs <b_scan> <Sx> <Sy> <Tx> <Ty> <outputs> <labels>     labels element `<hex33>:<tweak>`
#   sp.scan_tx <b_scan> <Sx> <Sy> <outpoints> <pubkeys x:y> <outputs> <labels>
#   sp.prv_key_from_tweak <b_spend> <tweak>
# streams: one per op (from full sender -> scanner scenarios), sp.malformed, sp.scan_tx.offcurve (Python arm only:
# the bindings arm is the recorded finding sp.scan.offcurve_backend_divergence).
# ========================================================================================================
_SPK_P2TR = b"\x51\x20" + bytes(32)
_SPK_P2WPKH = b"\x00\x14" + bytes(20)


# ---- sp: impl ------------------------------------------------------------------------------------------
def _p_spkeys(tok):
    out = []
    if tok == "-":
        return out
    for el in tok.split(","):
        a, f = el.split(":")
        if f not in ("0", "1"):
            raise ValueError("flag")
        out.append((int(a), _SPK_P2TR if f == "1" else _SPK_P2WPKH))
    return out


def _p_outpoints(tok):
    out = []
    for ser in p_list(tok):
        if len(ser) != 36:
            raise ValueError("outpoint")
        out.append(OutPoint(ser[:32][::-1], int.from_bytes(ser[32:], "little")))
    return out


def _p_points(tok, k=2):
    out = []
    if tok == "-":
        return out
    for el in tok.split(","):
        v = [int(x) for x in el.split(":")]
        if len(v) != k:
            raise ValueError("point")
        out.append(tuple((v[i], v[i + 1]) for i in range(0, k, 2)))
    return out


def _p_labels(tok):
    if tok == "-":
        return None
    out = {}
    for el in tok.split(","):
        h, v = el.split(":")
        out[unhx(h)] = int(v).to_bytes(32, "big")
    return out


def _r_found(found) -> str:
    return ",".join(f"{hx(o.pub_key)}:{o.prv_key_tweak}" for o in found) if found else "-"


def _impl_sp(t) -> str:  # noqa: PLR0911
    op, a = t[0], t[1:]
    try:
        if op == "sp.prv_key_sum" and len(a) == 1:
            keys = _p_spkeys(a[0])
            return _call(lambda: str(sp.prv_key_sum(keys)))
        if op == "sp.input_hash" and len(a) == 3:
            ops, pt = _p_outpoints(a[0]), (int(a[1]), int(a[2]))
            return _call(lambda: str(sp.input_hash(ops, pt)))
        if op == "sp.label_tweak" and len(a) == 2:
            b, m = int(a[0]), int(a[1])
            if m < 0:
                return "bad-op"
            return _call(lambda: str(sp.label_tweak(b, m)))
        if op in ("sp.output_keys", "sp.output_keys_walk") and len(a) == 3:  # two model forms, one function
            keys, ops, recips = _p_spkeys(a[0]), _p_outpoints(a[1]), _p_points(a[2], 4)

            def f():
                addresses = [sp.address_from_keys(bs, bm) for bs, bm in recips]
                return t_list(sp.output_keys(keys, ops, addresses))
            return _call(f)
        if op == "sp.scan_outputs" and len(a) == 7:
            b, s, tw = int(a[0]), (int(a[1]), int(a[2])), (int(a[3]), int(a[4]))
            outs, labels = p_list(a[5]), _p_labels(a[6])
            return _call(lambda: _r_found(sp.scan_outputs(b, s, tw, outs, labels)))
        if op == "sp.scan_tx" and len(a) == 7:
            b, s, ops = int(a[0]), (int(a[1]), int(a[2])), _p_outpoints(a[3])
            # the op line carries points only; an even-y point is handed over as a taproot input's (x-only on the
            # bindings arm, which lifts it back to the same point), an odd-y one as a p2wpkh input's
            pks = [(pt[0], _SPK_P2TR if pt[0][1] % 2 == 0 and pt[0][1] > 0 else _SPK_P2WPKH) for pt in _p_points(a[4], 2)]
            outs, labels = p_list(a[5]), _p_labels(a[6])
            return _call(lambda: _r_found(sp.scan_transaction_outputs(b, s, ops, pks, outs, labels)))
        if op == "sp.prv_key_from_tweak" and len(a) == 2:
            b, tw = int(a[0]), int(a[1])
            return _call(lambda: str(sp.prv_key_from_tweak(b, tw)))
    except (ValueError, OverflowError):  # a token that does not parse
        return "bad-op"
    return "bad-op"


# ---- sp: generators/run --------------------------------------------------------------------------------
def _t_spkeys(inputs) -> str:
    return ",".join(f"{prv}:{1 if kind.startswith('p2tr') else 0}" for kind, prv in inputs) if inputs else "-"


def _t_points(pts) -> str:
    pts = list(pts)
    return ",".join(":".join(str(c) for p in (el if isinstance(el[0], tuple) else (el,)) for c in p) for el in pts) \
        if pts else "-"


def _t_labels(lab) -> str:
    return ",".join(f"{k.hex()}:{int.from_bytes(v, 'big')}" for k, v in lab.items()) if lab else "-"


def _is_x(b: bytes) -> bool:
    try:
        secp256k1.y_even_var(int.from_bytes(b, "big"))
    except Exception:  # noqa: BLE001
        return False
    return int.from_bytes(b, "big") < P


def emit_sp_scenario(ctx, L: Lines, rng, w):
    """op lines of one sender -> scanners scenario (witness of the shape _w_sp builds)"""
    tx = _SpTx(w)
    keys_tok = _t_spkeys(w["inputs"])
    ops_tok = t_list(o.serialize() for o in tx.outpoints)
    L.add(f"sp.prv_key_sum {keys_tok}")
    a = sp.prv_key_sum(tx.prv_keys)
    a_pt = mult(a)
    L.add(f"sp.input_hash {ops_tok} {a_pt[0]} {a_pt[1]}")
    recips = []
    for addr in tx.addresses:
        bs, bm, _net = sp.keys_from_address(addr)
        recips.append((bs, bm))
    L.add(f"sp.output_keys {keys_tok} {ops_tok} {_t_points(recips)}")
    # the specification-form model (one walk in address order: the subject of the end-to-end theorem) on the same input
    L.add(f"sp.output_keys_walk {keys_tok} {ops_tok} {_t_points(recips)}")
    keys = tx.pay()
    outputs = keys + [bytes.fromhex(d) for d in w["decoys"]]
    _random.Random(w["shuffle"]).shuffle(outputs)
    outs_tok = t_list(outputs)
    pks_tok = _t_points(pk for pk, _spk in tx.pub_keys)  # taproot inputs: the even-y point
    tweak = sp.tweak_data(tx.outpoints, sp.pub_key_sum([pk for pk, _ in tx.pub_keys]))
    scanners = [(bs, bp, labels) for bs, bp, labels in tx.wallets] + [(w["stranger"], tx.wallets[0][1], tx.wallets[0][2])]
    for b_scan, b_spend, labels in scanners:
        ms = sorted(set(labels) | ({0} if rng.random() < 0.7 else set()))
        for m in ms:
            L.add(f"sp.label_tweak {b_scan} {m}")
        lab = sp.label_lookup(b_scan, ms)
        s_pt = mult(b_spend)
        L.add(f"sp.scan_outputs {b_scan} {s_pt[0]} {s_pt[1]} {tweak[0]} {tweak[1]} {outs_tok} {_t_labels(lab)}")
        L.add(f"sp.scan_tx {b_scan} {s_pt[0]} {s_pt[1]} {ops_tok} {pks_tok} {outs_tok} {_t_labels(lab)}")
        for o in sp.scan_outputs(b_scan, s_pt, tweak, outputs, lab):
            L.add(f"sp.prv_key_from_tweak {b_spend} {o.prv_key_tweak}")
    ctx.count("sp.scenario", f"{len(w['inputs'])} in, {len(w['recipients'])} paid, {len(w['wallets'])} wallets")
    return {"keys_tok": keys_tok, "ops_tok": ops_tok, "recips": recips, "outs": outputs, "pks_tok": pks_tok,
            "tweak": tweak, "tx": tx}


def gen_sp_malformed(ctx, rng, w):  # noqa: PLR0915
    out, offcurve = [], []

    def add(cls, line, to=None):
        ctx.count("sp.malformed_class", cls)
        (out if to is None else to).append(line)

    tx = _SpTx(w)
    ops_tok = t_list(o.serialize() for o in tx.outpoints)
    keys_tok = _t_spkeys(w["inputs"])
    d = g_prv(rng)
    d_pt = mult(d)
    d_even = d if d_pt[1] % 2 == 0 else N - d
    # -- private keys
    for v in (0, N, N + 1, -1, 2**256):
        add("prv_range", f"sp.prv_key_sum {v}:0")
        add("prv_range", f"sp.prv_key_sum {d}:1,{v}:1")
        add("prv_range", f"sp.output_keys {d}:0,{v}:0 {ops_tok} {_t_points([(mult(2), mult(3))])}")
    add("sum_zero", f"sp.prv_key_sum {d}:0,{N - d}:0")
    add("sum_zero", f"sp.prv_key_sum {d_even}:1,{N - d_even}:0")        # taproot key even, plain key its negation
    add("sum_zero", f"sp.prv_key_sum {N - d_even}:1,{N - d_even}:0")    # odd-y taproot key is negated: cancels its plain twin
    add("sum_nonzero", f"sp.prv_key_sum {d_even}:1,{N - d_even}:1")      # both negated to the even one: 2*d_even
    add("sum_nonzero", f"sp.prv_key_sum {d}:0,{d}:0")
    add("sum_zero", f"sp.output_keys {d}:0,{N - d}:0 {ops_tok} {_t_points([(mult(2), mult(3))])}")
    add("empty", "sp.prv_key_sum -")
    add("empty", f"sp.output_keys - {ops_tok} {_t_points([(mult(2), mult(3))])}")
    add("empty", f"sp.output_keys {keys_tok} - {_t_points([(mult(2), mult(3))])}")
    add("empty", f"sp.output_keys {keys_tok} {ops_tok} -")
    add("empty", f"sp.input_hash - {d_pt[0]} {d_pt[1]}")
    # -- points
    g = secp256k1.G
    bad_pts = {"off_curve": (g[0], g[1] + 1), "infinity": (g[0], 0), "zero": (0, 0), "y_range": (g[0], g[1] + P),
               "y_neg": (g[0], -g[1]), "x_off": (g[0] + 1, g[1])}
    s_pt, b_scan = mult(w["wallets"][0][1]), w["wallets"][0][0]
    tweak = sp.tweak_data(tx.outpoints, sp.pub_key_sum([pk for pk, _ in tx.pub_keys]))
    keys = tx.pay()
    outs_tok = t_list(keys)
    pks_tok = _t_points(pk for pk, _spk in tx.pub_keys)
    for name, bp in bad_pts.items():
        add("point:" + name, f"sp.input_hash {ops_tok} {bp[0]} {bp[1]}")
        add("point:" + name, f"sp.output_keys {keys_tok} {ops_tok} {_t_points([(bp, mult(3))])}")
        add("point:" + name, f"sp.output_keys {keys_tok} {ops_tok} {_t_points([(mult(2), mult(3)), (mult(2), bp)])}")
        add("point:" + name, f"sp.scan_outputs {b_scan} {bp[0]} {bp[1]} {tweak[0]} {tweak[1]} {outs_tok} -")
        add("point:" + name, f"sp.scan_outputs {b_scan} {s_pt[0]} {s_pt[1]} {bp[0]} {bp[1]} {outs_tok} -")
        add("point:" + name, f"sp.scan_tx {b_scan} {bp[0]} {bp[1]} {ops_tok} {pks_tok} {outs_tok} -")
        add("point:" + name, f"sp.scan_tx {b_scan} {s_pt[0]} {s_pt[1]} {ops_tok} {_t_points([d_pt, bp])} {outs_tok} -")
    neg = (d_pt[0], P - d_pt[1])
    add("pubkeys_cancel", f"sp.scan_tx {b_scan} {s_pt[0]} {s_pt[1]} {ops_tok} {_t_points([d_pt, neg])} {outs_tok} -")
    add("pubkeys_cancel", f"sp.scan_tx {b_scan} {s_pt[0]} {s_pt[1]} {ops_tok} {_t_points([d_pt, mult(5), neg, (mult(5)[0], P - mult(5)[1])])} {outs_tok} -")
    add("empty", f"sp.scan_tx {b_scan} {s_pt[0]} {s_pt[1]} {ops_tok} - {outs_tok} -")
    add("empty", f"sp.scan_tx {b_scan} {s_pt[0]} {s_pt[1]} - {pks_tok} {outs_tok} -")
    # -- scan keys
    lab = sp.label_lookup(b_scan, [0, 1])
    for v in (0, N, -1, N + 1):
        add("scan_key", f"sp.scan_outputs {v} {s_pt[0]} {s_pt[1]} {tweak[0]} {tweak[1]} {outs_tok} -")
        add("scan_key", f"sp.scan_tx {v} {s_pt[0]} {s_pt[1]} {ops_tok} {pks_tok} {outs_tok} {_t_labels(lab)}")
        add("scan_key", f"sp.label_tweak {v} 0")
        add("scan_key", f"sp.prv_key_from_tweak {v} 5")
        add("scan_key", f"sp.prv_key_from_tweak 5 {v}")
    add("tweak_cancels", f"sp.prv_key_from_tweak {d} {N - d}")
    add("tweak_wraps", f"sp.prv_key_from_tweak {N - 1} 2")
    for m in (0, 1, 2**31, 2**32 - 1, 2**32, 2**40):
        add("label_range", f"sp.label_tweak {b_scan} {m}")
    # -- outputs: none, of a wrong size, no x-coordinate, the bare spend key, twice the same
    nx = bad_x(rng)
    for cls, outs in (("outputs:none", []), ("outputs:short", [keys[0][:31]]), ("outputs:long", keys + [keys[0] + b"\x00"]),
                      ("outputs:empty_el", [b""] + keys), ("outputs:twice", keys + keys),
                      ("outputs:spend_key", [s_pt[0].to_bytes(32, "big")] + keys),
                      ("outputs:x>=p", keys + [P.to_bytes(32, "big"), b"\xff" * 32])):
        for lb in ("-", _t_labels(lab)):
            add(cls, f"sp.scan_outputs {b_scan} {s_pt[0]} {s_pt[1]} {tweak[0]} {tweak[1]} {t_list(outs)} {lb}")
            to = offcurve if any(len(x) == 32 and not _is_x(x) for x in outs) else None
            add(cls, f"sp.scan_tx {b_scan} {s_pt[0]} {s_pt[1]} {ops_tok} {pks_tok} {t_list(outs)} {lb}", to)
    for outs in ([nx], keys + [nx], [nx] + keys, [(5).to_bytes(32, "big")], [bytes(32)] + keys):
        for lb in ("-", _t_labels(lab)):
            add("outputs:no_x", f"sp.scan_outputs {b_scan} {s_pt[0]} {s_pt[1]} {tweak[0]} {tweak[1]} {t_list(outs)} {lb}")
            add("outputs:no_x", f"sp.scan_tx {b_scan} {s_pt[0]} {s_pt[1]} {ops_tok} {pks_tok} {t_list(outs)} {lb}", offcurve)
    return out, offcurve


def run_sp(ctx):
    rng = ctx.rng
    prev = _curve.is_libsecp256k1_serving()
    try:
        _curve.set_libsecp256k1_serving(serving=_libsecp256k1.INSTALLED)
        L = Lines()
        ws = [_w_sp(rng, None, small=rng.random() < 0.6) for _ in range(ctx.n(10, 250))]
        for w in ws:
            emit_sp_scenario(ctx, L, rng, w)
        malformed, offcurve = gen_sp_malformed(ctx, rng, ws[0])
    finally:
        _curve.set_libsecp256k1_serving(serving=prev)
    for op in sorted(L.by):
        _stream_both(ctx, op, L.by[op])
    _stream_both(ctx, "sp.malformed", malformed)
    # an output that is no x-coordinate: scan_transaction_outputs' bindings arm refuses the transaction (the recorded
    # finding sp.scan.offcurve_backend_divergence), the Python arm -- what the model transcribes -- walks past it
    with backend(False):
        ctx.correspond("sp.scan_tx.offcurve@python", EXE, [(ln, impl(ln)) for ln in offcurve],
                       key="sp.scan_tx.offcurve@python")


# ========================================================================================================
# PSBT glue on the real code: the BIP373 roles (btclib/psbt/musig2.py) and the BIP375 roles
# (btclib/psbt/silent_payments.py). The PSBTs are the vendored BIP373 / BIP375 vectors of /repo/tests/psbt/_data
# re-keyed with the witness's random keys. Oracles psbt.musig2_roles, psbt.sp_roles.
# ========================================================================================================
import copy  # noqa: E402

from btclib.hashes import tagged_hash  # noqa: E402
from btclib.psbt import Psbt, combine as psbt_combine, extract_tx, finalize  # noqa: E402
from btclib.psbt import musig2 as psbt_musig2  # noqa: E402
from btclib.psbt import silent_payments as psbt_sp  # noqa: E402
from btclib.psbt.psbt import prevouts, taproot_sig_hash  # noqa: E402
from btclib.script.engine import verify_transaction  # noqa: E402
from btclib.script.script_pub_key import ScriptPubKey  # noqa: E402
from btclib.tx.tx_out import TxOut  # noqa: E402

_PSBT_DATA = "/repo/tests/psbt/_data"
_PSBT_TEMPLATES: dict = {}


def _psbt_template(which: str) -> str:
    if which not in _PSBT_TEMPLATES:
        if which == "bip373":
            with open(os.path.join(_PSBT_DATA, "bip373_test_vectors.json"), encoding="utf8") as f:
                d = json.load(f)
            _PSBT_TEMPLATES[which] = next(
                v["encoded psbt"] for v in d["valid psbts"]
                if v["description"].startswith("Spend of a Taproot output where the output key")
                and "participant pubkeys only" in v["description"])
        else:
            with open(os.path.join(_PSBT_DATA, "bip375_test_vectors.json"), encoding="utf8") as f:
                d = json.load(f)
            _PSBT_TEMPLATES[which] = next(
                v["psbt"] for v in d["valid"]
                if v["description"].startswith("can finalize: two inputs single-signer using per"))
    return _PSBT_TEMPLATES[which]


def _travel(psbt):
    """what a psbt is between two roles: a base64 string"""
    return Psbt.b64decode(psbt.b64encode())


# ---- psbt: oracles -------------------------------------------------------------------------------------
def _o_psbt_musig2(w):  # noqa: PLR0911, PLR0912
    prvs = w["prvs"]
    with backend(w["serving"]):
        try:
            # -- Updater
            psbt = Psbt.b64decode(_psbt_template("bip373"))
            pin = psbt.inputs[0]
            pin.musig2_participant_pub_keys.clear()
            pin.taproot_hd_key_paths.clear()
            # the participant LIST may name a key several times (A,A,B / A,B,A / all equal): the psbt files one nonce and
            # one partial signature per KEY, the session counts each once per position
            plist = w.get("plist") or list(range(len(prvs)))
            signer_pks = [musig2.individual_pub_key(d) for d in prvs]
            pks = [signer_pks[i] for i in plist]
            agg = psbt_musig2.add_participant_pub_keys(pin, pks, sort=bool(w["sort"]))
            filed = pin.musig2_participant_pub_keys[agg]
            if filed != (musig2.key_sort(pks) if w["sort"] else pks):
                return False, "the participants are not filed in the order they were aggregated in"
            if agg != bytes_from_point(musig2.key_agg(filed).Q, secp256k1):
                return False, "add_participant_pub_keys files the list under a key it does not aggregate to"
            if w["mode"] == "internal":
                merkle = bytes.fromhex(w["merkle"])
                pin.taproot_internal_key = agg[1:]
                pin.taproot_merkle_root = merkle
                out_key = musig2.key_agg_and_tweak(filed, [tagged_hash(b"TapTweak", agg[1:] + merkle)], [True]).x_only_pub_key
            elif w["mode"] == "derived":
                # BIP328: the internal key is derived from the aggregate key (PLAIN tweaks), then BIP341's x-only tweak
                from btclib.bip32 import BIP32KeyOrigin  # noqa: PLC0415
                merkle = bytes.fromhex(w["merkle"])
                path = [int(x) for x in w["path"]]
                plain = psbt_musig2.pub_key_derivation_tweaks(agg, psbt_musig2.BIP328_CHAIN_CODE, path)
                internal = musig2.key_agg_and_tweak(filed, plain, [False] * len(plain)).x_only_pub_key
                pin.taproot_internal_key = internal
                pin.taproot_merkle_root = merkle
                pin.taproot_hd_key_paths[internal] = ([], BIP32KeyOrigin(hash160(agg)[:4], path))
                out_key = musig2.key_agg_and_tweak(
                    filed, [*plain, tagged_hash(b"TapTweak", internal + merkle)], [False] * len(plain) + [True]).x_only_pub_key
            else:
                out_key = agg[1:]
            pin.witness_utxo = TxOut(pin.witness_utxo.value, ScriptPubKey(b"\x51\x20" + out_key))
            psbt.assert_valid()
            psbt = _travel(psbt)
            spent = prevouts(psbt)
            # -- Signers, round 1
            if w["combine"]:
                copies = [copy.deepcopy(psbt) for _ in prvs]
                secs = [psbt_musig2.nonce_gen(c, 0, d, agg) for c, d in zip(copies, prvs)]
                psbt = psbt_combine([_travel(c) for c in copies])
            else:
                secs = [psbt_musig2.nonce_gen(psbt, 0, d, agg) for d in prvs]
                psbt = _travel(psbt)
            if len(psbt.inputs[0].musig2_pub_nonces) != len(prvs):
                return False, f"{len(psbt.inputs[0].musig2_pub_nonces)} public nonces for {len(prvs)} distinct signer keys"
            # -- Signers, round 2
            if w["combine"]:
                copies = [copy.deepcopy(psbt) for _ in prvs]
                for c, d, sn in zip(copies, prvs, secs):
                    psbt_musig2.partial_sign(c, 0, sn, d, agg)
                psbt = psbt_combine([_travel(c) for c in copies])
            else:
                for d, sn in zip(prvs, secs):
                    psbt_musig2.partial_sign(psbt, 0, sn, d, agg)
                psbt = _travel(psbt)
            if any(bytes(sn[:64]) != bytes(64) for sn in secs):
                return False, "partial_sign left a secnonce unspent"
            for pk in signer_pks:
                if not psbt_musig2.partial_sig_verify(psbt, 0, pk, agg):
                    return False, f"partial_sig_verify refuses the honest partial signature of {pk.hex()}"
            # -- an altered partial signature is noticed by the Finalizer
            bad = copy.deepcopy(psbt)
            k0 = sorted(bad.inputs[0].musig2_partial_sigs)[w["alt"] % len(prvs)]
            bad.inputs[0].musig2_partial_sigs[k0] = _flip(bad.inputs[0].musig2_partial_sigs[k0], w["bit"])
            ok, cls = _refuses(lambda: psbt_musig2.partial_sigs_agg(bad, 0, agg))
            if not ok:
                return False, f"partial_sigs_agg on an altered partial signature: {cls}"
            # -- Finalizer
            sig = psbt_musig2.partial_sigs_agg(psbt, 0, agg)
            msg = taproot_sig_hash(psbt, 0)
            if not ssa.verify_(msg, out_key, sig):
                return False, "the aggregate is not a BIP340 signature of the sighash under the taproot output key"
            ssa.assert_as_valid_(msg, out_key, sig)
            pin = psbt.inputs[0]
            if pin.taproot_key_spend_signature[:64] != sig.serialize():
                return False, "the aggregate signature is not what PSBT_IN_TAP_KEY_SIG carries"
            if pin.musig2_pub_nonces or pin.musig2_partial_sigs:
                return False, "the session's nonces / partial signatures survive the Finalizer"
            tx = extract_tx(finalize(_travel(psbt)))
            verify_transaction(spent, tx)
        except Exception as e:  # noqa: BLE001
            return False, f"BIP373 session raised {type(e).__name__}: {str(e)[:140]}"
    return True, f"{len(prvs)} signer keys in {len(pks)} positions, {w['mode']} key"


def _sp_psbt_build(inputs, outpoints, outs):
    """A BIP375 psbt (the vendored vector re-keyed): inputs [(kind, prv)], outpoints [(txid hex, vout)],
    outs [(B_scan point, B_m point, label|None)] -> (psbt, the Signers' keys: the even-y key for a taproot input)"""
    tmpl = Psbt.b64decode(_psbt_template("bip375"))
    tin, tout = tmpl.inputs[0], next(o for o in tmpl.outputs if o.sp_v0_info)
    origin = next(iter(tin.hd_key_paths.values()))
    psbt = copy.deepcopy(tmpl)
    psbt.inputs, psbt.outputs = [], []
    signer_keys = []
    for j, (kind, prv) in enumerate(inputs):
        pin = copy.deepcopy(tin)
        pin.partial_sigs, pin.sp_ecdh_shares, pin.sp_dleq_proofs, pin.hd_key_paths = {}, {}, {}, {}
        pin.sig_hash_type = None
        pt = mult(prv)
        c = bytes_from_point(pt, secp256k1)
        if kind == "p2tr":
            spk = b"\x51\x20" + c[1:]
            signer_keys.append(prv if pt[1] % 2 == 0 else N - prv)  # the key of the (even-y) output key
        elif kind == "p2sh-p2wpkh":
            pin.redeem_script = b"\x00\x14" + hash160(c)
            spk = b"\xa9\x14" + hash160(pin.redeem_script) + b"\x87"
            pin.hd_key_paths = {c: origin}
            signer_keys.append(prv)
        else:
            spk = b"\x00\x14" + hash160(c)
            pin.hd_key_paths = {c: origin}
            signer_keys.append(prv)
        pin.witness_utxo = TxOut(100000, ScriptPubKey(spk))
        pin.previous_tx_id = bytes.fromhex(outpoints[j][0])
        pin.output_index = outpoints[j][1]
        psbt.inputs.append(pin)
    for bs, bm, m in outs:
        pout = copy.deepcopy(tout)
        pout.script_pub_key = b""
        pout.sp_v0_info = bytes_from_point(bs, secp256k1) + bytes_from_point(bm, secp256k1)
        pout.sp_v0_label = m
        pout.amount = 1000
        psbt.outputs.append(pout)
    psbt.tx_modifiable = 0b11
    psbt.assert_valid()
    return _travel(psbt), signer_keys


def _sp_psbt_sign(psbt, signer_keys, mode, aux):
    """The Signer role(s). mode: `global` one share for all inputs; `input` one Signer per input, combined;
    `both` per-input shares AND a global one; `split` (two scan keys or more) the first scan key keeps only its
    per-input shares, every other one only its global share."""
    if mode == "global":
        psbt_sp.set_global_share(psbt, signer_keys, aux)
        return psbt
    copies = []
    for j in range(len(signer_keys)):
        c = copy.deepcopy(psbt)
        psbt_sp.set_input_share(c, j, signer_keys[j], aux)
        copies.append(_travel(c))
    psbt = psbt_combine(copies) if len(copies) > 1 else copies[0]
    if mode in ("both", "split"):
        psbt_sp.set_global_share(psbt, signer_keys, aux)
    if mode == "split":
        sks = sorted(psbt.sp_ecdh_shares)
        if len(sks) > 1:
            del psbt.sp_ecdh_shares[sks[0]], psbt.sp_dleq_proofs[sks[0]]
            for pin in psbt.inputs:
                for sk in sks[1:]:
                    pin.sp_ecdh_shares.pop(sk, None)
                    pin.sp_dleq_proofs.pop(sk, None)
    return psbt


def _o_psbt_sp(w):  # noqa: PLR0911, PLR0912, PLR0915
    mode = w.get("mode") or ("global" if w["global"] else "input")
    with backend(w["serving"]):
        try:
            b_ms, outs = [], []
            for wi, m in w["recipients"]:
                b_scan, b_spend, _labels = w["wallets"][wi]
                bm = mult(b_spend) if m is None else secp256k1.add_var(mult(b_spend), mult(sp.label_tweak(b_scan, m)))
                b_ms.append(bm)
                outs.append((mult(b_scan), bm, m))
            psbt, signer_keys = _sp_psbt_build(w["inputs"], w["outpoints"], outs)
            eligible = psbt_sp.eligible_pub_keys(psbt)
            if sorted(eligible) != list(range(len(w["inputs"]))):
                return False, f"eligible inputs {sorted(eligible)} of {len(w['inputs'])}"
            # the Signer is held to the key of the input: the other of a taproot key's two private keys is refused
            for j, (kind, prv) in enumerate(w["inputs"]):
                if kind == "p2tr" and signer_keys[j] != prv:
                    ok, cls = _refuses(lambda j=j, prv=prv: psbt_sp.set_input_share(copy.deepcopy(psbt), j, prv, bytes(32)))
                    if not ok:
                        return False, f"set_input_share with the odd-y private key of a taproot input: {cls}"
            # -- Signer(s)
            psbt = _sp_psbt_sign(psbt, signer_keys, mode, bytes.fromhex(w["aux"]))
            psbt_sp.assert_shares_as_valid(psbt)
            psbt_sp.set_output_scripts(psbt)
            psbt = _travel(psbt)
            # -- Extractor
            psbt_sp.assert_as_valid(psbt)
            scripts = [o.script_pub_key for o in psbt.outputs]
            if any(len(s) != 34 or s[:2] != b"\x51\x20" for s in scripts):
                return False, "an output script is not a taproot script"
            if len(set(scripts)) != len(scripts):
                return False, "two silent payment outputs carry the same script"
            if psbt.tx_modifiable is not None and psbt.tx_modifiable & 0b11:
                return False, "the psbt is still modifiable after the scripts were written"
            # the same outputs as BIP352's sender derives (as a set: BIP375 counts k in output order)
            prv_keys = [(prv, psbt.inputs[j].witness_utxo.script_pub_key.script) for j, (_k, prv) in enumerate(w["inputs"])
                        if w["inputs"][j][0] != "p2sh-p2wpkh"] + \
                       [(prv, b"\x00\x14" + bytes(20)) for (k, prv) in w["inputs"] if k == "p2sh-p2wpkh"]
            outpoints = [pin.prev_out for pin in psbt.inputs]
            addresses = [sp.address_from_keys(mult(w["wallets"][wi][0]), b_ms[i]) for i, (wi, _m) in enumerate(w["recipients"])]
            # (BIP375 counts k per scan key in output order, output_keys in address order: the same order here)
            if [s[2:] for s in scripts] != sp.output_keys(prv_keys, outpoints, addresses):
                return False, "the BIP375 roles and silent_payments.output_keys derive different outputs"
            # -- every recipient's scanner finds its outputs and can spend them
            outputs = [s[2:] for s in scripts]
            tweak = sp.tweak_data(outpoints, sp.pub_key_sum(list(eligible.values())))
            claimed = set()
            for wi, (b_scan, b_spend, labels) in enumerate(w["wallets"]):
                want = {scripts[i][2:] for i, (r, _m) in enumerate(w["recipients"]) if r == wi}
                lab = sp.label_lookup(b_scan, sorted(set(labels) | {0}))
                found = sp.scan_outputs(b_scan, mult(b_spend), tweak, outputs, lab)
                if {o.pub_key for o in found} != want:
                    return False, (f"wallet {wi} is paid {len(want)} outputs by the psbt and its scanner finds "
                                   f"{len({o.pub_key for o in found} & want)} of them (+{len({o.pub_key for o in found} - want)})")
                for o in found:
                    if mult(sp.prv_key_from_tweak(b_spend, o.prv_key_tweak))[0].to_bytes(32, "big") != o.pub_key:
                        return False, f"wallet {wi}: b_spend + tweak does not open {o.pub_key.hex()}"
                claimed |= want
            if claimed != set(outputs):
                return False, "an output of the psbt is paid to no wallet"
            # -- a share altered after the fact is refused by the Extractor
            bad = copy.deepcopy(psbt)
            holder = bad if bad.sp_ecdh_shares else bad.inputs[w["alt"] % len(bad.inputs)]
            sk = sorted(holder.sp_ecdh_shares)[0]
            other = bytes_from_point(mult(w["stranger"]), secp256k1)
            holder.sp_ecdh_shares[sk] = other
            ok, cls = _refuses(lambda: psbt_sp.assert_as_valid(bad))
            if not ok:
                return False, f"assert_as_valid on a psbt with a replaced ECDH share: {cls}"
        except Exception as e:  # noqa: BLE001
            return False, f"BIP375 roles raised {type(e).__name__}: {str(e)[:140]}"
    return True, f"{len(w['inputs'])} inputs, {len(w['recipients'])} sp outputs, {mode} shares"


ORACLES.update({"psbt.musig2_roles": _o_psbt_musig2, "psbt.sp_roles": _o_psbt_sp})


# ---- psbt: correspondence for the share summation -------------------------------------------------------
# psbt.sp_output_keys <global|input> <inputs `prv:0|1` (1 = p2tr)> <outpoints hex36> <recips `Bsx:Bsy:Bmx:Bmy`>
#   -> ok <list of hex32 in output order>: the real BIP375 roles on a psbt built from the line (Signer(s) with a
#   global share or one share per input, then set_output_scripts) against Model/C16/SilentPayments.lean psbtOutputKeys
#   (per-input shares are SUMMED AS A LIST: equal shares of inputs locked to one key all count).
def _impl_psbt(t) -> str:
    if t[0] != "psbt.sp_output_keys" or len(t) != 5:
        return "bad-op"
    try:
        mode = t[1]
        inputs = [] if t[2] == "-" else [("p2tr" if x.split(":")[1] == "1" else "p2wpkh", int(x.split(":")[0]))
                                         for x in t[2].split(",")]
        ops = [(o.tx_id.hex(), o.vout) for o in _p_outpoints(t[3])]
        recips = _p_points(t[4], 4)
    except (ValueError, IndexError):
        return "bad-op"

    def f():
        psbt, signer_keys = _sp_psbt_build(inputs, ops, [(bs, bm, None) for bs, bm in recips])
        psbt = _sp_psbt_sign(psbt, signer_keys, mode, bytes(32))
        psbt_sp.set_output_scripts(psbt)
        return t_list(o.script_pub_key[2:] for o in psbt.outputs)
    return _call(f)


def _psbt_sp_line(w, mode) -> str:
    recips = []
    for wi, m in w["recipients"]:
        b_scan, b_spend, _labels = w["wallets"][wi]
        bm = mult(b_spend) if m is None else secp256k1.add_var(mult(b_spend), mult(sp.label_tweak(b_scan, m)))
        recips.append((mult(b_scan), bm))
    ops = [OutPoint(bytes.fromhex(t), v).serialize() for t, v in w["outpoints"][:len(w["inputs"])]]
    return f"psbt.sp_output_keys {mode} {_t_spkeys(w['inputs'])} {t_list(ops)} {_t_points(recips)}"


# (input kinds all locked to ONE key, how the shares travel, recipients (wallet, label))
_SP_PSBT_FORCED = [
    (["p2wpkh", "p2wpkh"], "input", [[0, None]]),
    (["p2wpkh", "p2wpkh"], "global", [[0, None], [0, None]]),
    (["p2wpkh", "p2sh-p2wpkh", "p2wpkh"], "input", [[0, None], [1, None], [0, 3]]),
    (["p2tr", "p2tr"], "input", [[0, 0], [0, None], [0, None]]),
    (["p2tr", "p2tr", "p2tr"], "both", [[1, None], [0, None]]),
    (["p2wpkh", "p2wpkh", "p2wpkh"], "split", [[0, None], [1, None], [0, None], [1, None]]),
]


# participant lists (indices into the distinct signer keys) every run starts with: A,A,B in its three orders, all
# equal (two and three times), A,B,A,B, and a plain A,B,C
_MUSIG_PSBT_PLISTS = [(0, 0, 1), (0, 1, 0), (1, 0, 0), (0, 0), (0, 0, 0), (0, 1, 0, 1), (0, 1, 2), (0, 1, 1), (1, 1, 0)]


# ---- psbt: generators/run ------------------------------------------------------------------------------
def run_psbt(ctx):
    rng = ctx.rng
    for tag, serving in backends():
        n = ctx.n(12, 200) if serving else max(2, ctx.n(12, 200) // 3)
        forced = 3 * len(_MUSIG_PSBT_PLISTS)  # every forced participant list under each of the three tweak shapes
        for i in range(n + forced):
            k = (2, 3)[i % 2] if i < 4 else rng.choice([1, 2, 2, 3, 3, 4])
            prvs = []
            while len(prvs) < k:  # distinct keys: a psbt files nonces and partial signatures by participant key
                d = g_prv(rng)
                if d not in prvs and N - d not in prvs:
                    prvs.append(d)
            # participant lists with a key named several times, every order of them (A,A,B / A,B,A / B,A,A / all equal ...)
            if i < forced:
                plist = list(_MUSIG_PSBT_PLISTS[i // 3])
                prvs = prvs[:max(plist) + 1]
                while len(prvs) <= max(plist):
                    prvs.append(g_prv(rng))
            elif rng.random() < 0.4:
                plist = list(range(len(prvs))) + [rng.randrange(len(prvs)) for _ in range(rng.choice([1, 1, 2]))]
                rng.shuffle(plist)
            else:
                plist = list(range(len(prvs)))
            ctx.count("psbt.musig2.repeated_positions", str(len(plist) - len(set(plist))))
            mode = ("output", "internal", "derived")[i % 3] if i < forced else rng.choice(["output", "internal", "derived"])
            ctx.count("psbt.musig2.mode", mode)
            ctx.check("psbt.musig2_roles",
                      {"prvs": prvs, "plist": plist, "mode": mode,
                       "path": [rng.randrange(2**31) for _ in range(rng.choice([1, 2, 3]))],
                       "merkle": rng.choice(["", common.rand_bytes(rng, 32).hex()]), "sort": rng.random() < 0.5,
                       "combine": rng.random() < 0.5, "alt": rng.randrange(4), "bit": rng.randrange(256), "serving": serving})
        sp_lines = []
        for i in range(n + len(_SP_PSBT_FORCED)):
            w = _w_sp(rng, serving, small=True)
            w["inputs"] = [[{"p2pkh": "p2wpkh", "p2tr-annex": "p2tr"}.get(k, k), d] for k, d in w["inputs"]]
            mode = ("input", "global", "both", "split")[i % 4]
            if i < len(_SP_PSBT_FORCED):
                # repeated input keys (two / three inputs locked to ONE key: equal per-input shares that must all
                # count), repeated scan keys (k advances), every way of carrying the shares
                kinds, mode, recs = _SP_PSBT_FORCED[i]
                d = g_prv(rng)
                w["inputs"] = [[k, d] for k in kinds]
                if len(w["wallets"]) < 2:
                    w["wallets"].append([g_prv(rng), g_prv(rng), []])
                w["wallets"][0][2] = [0, 3]
                w["recipients"] = [list(r) for r in recs]
            elif rng.random() < 0.35 and len(w["inputs"]) >= 2:
                # a repeated key somewhere among the inputs (same kind: a taproot twin could cancel a plain one)
                j, k = rng.sample(range(len(w["inputs"])), 2)
                w["inputs"][k] = list(w["inputs"][j])
            while len(w["outpoints"]) < len(w["inputs"]):
                w["outpoints"].append([common.rand_bytes(rng, 32).hex(), rng.randrange(4)])
            w["outpoints"] = w["outpoints"][:len(w["inputs"])]
            w.update({"global": mode == "global", "mode": mode, "aux": common.rand_bytes(rng, 32).hex(),
                      "alt": rng.randrange(4)})
            ctx.count("psbt.sp.mode", mode)
            ctx.count("psbt.sp.repeated_input_key", str(len(w["inputs"]) - len({d for _k, d in w["inputs"]})))
            ctx.check("psbt.sp_roles", w)
            sp_lines.append(_psbt_sp_line(w, "global" if mode in ("global", "both") else "input"))
        with backend(serving):
            ctx.correspond(f"psbt.sp_output_keys@{tag}", EXE, [(ln, impl(ln)) for ln in sp_lines])


# ---- pedersen: impl / generators/run --------------------------------------------------------------------
# pedersen.commit <r> <v> <Hx> <Hy> -> ok <x> <y> | err runtime ; pedersen.verify <r> <v> <Cx> <Cy> <Hx> <Hy> -> ok True|False
# (H = pedersen.second_generator(secp256k1, sha256) travels on the line for the model; the real code computes its own)
def _impl_pedersen(t) -> str:
    op, a = t[0], t[1:]
    try:
        h = pedersen.second_generator(secp256k1, sha256)
        if op == "pedersen.commit" and len(a) == 4:
            r, v = int(a[0]), int(a[1])
            if (int(a[2]), int(a[3])) != h:
                return "bad-op"
            return _call(lambda: "{} {}".format(*pedersen.commit(r, v, secp256k1, sha256)))
        if op == "pedersen.verify" and len(a) == 6:
            r, v, c = int(a[0]), int(a[1]), (int(a[2]), int(a[3]))
            if (int(a[4]), int(a[5])) != h:
                return "bad-op"
            return _call(lambda: "True" if pedersen.verify(r, v, c, secp256k1, sha256) else "False")
    except ValueError:
        return "bad-op"
    return "bad-op"


def run_pedersen(ctx):
    rng = ctx.rng
    lines = []
    with backend(_libsecp256k1.INSTALLED):
        h = pedersen.second_generator(secp256k1, sha256)
        ht = f"{h[0]} {h[1]}"
        edge = [0, 1, N - 1, N, N + 1, -1, 2**256]
        for i in range(ctx.n(14, 300)):
            r = rng.choice(edge) if rng.random() < 0.3 else g_prv(rng)
            v = rng.choice(edge) if rng.random() < 0.3 else rng.choice([rng.getrandbits(32), g_prv(rng)])
            if i == 0:
                r, v = 0, 0
            elif i == 1:
                r, v = N, -N
            lines.append(f"pedersen.commit {r} {v} {ht}")
            try:
                c = pedersen.commit(r, v, secp256k1, sha256)
            except Exception:  # noqa: BLE001 - the commitment at infinity
                c = secp256k1.G
            alt = rng.choice([c, c, (c[0], P - c[1]), g_point(rng, secp256k1), (c[0], c[1] % P + 1), (c[0], 0), (0, 0)])
            lines.append(f"pedersen.verify {r} {v} {alt[0]} {alt[1]} {ht}")
            lines.append(f"pedersen.verify {rng.choice([r, r + 1, r + N, -r])} {rng.choice([v, v + 1, v - N])} {c[0]} {c[1]} {ht}")
    _stream_both(ctx, "pedersen", lines)



# ========================================================================================================
# ---- ecies: impl / generators/run (correspondence with Model/C16/Ecies.lean) ----------------------------
# ecies.encrypt <msg> <Px> <Py> <q> <magic> -> ok <envelope octets hex>   (encrypt(..., eph_prv_key=q) un-base64'd)
# ecies.decrypt <envelope hex> <d> <magic>  -> ok <msg hex> | err value (structure, key) | err runtime (MAC)
# The cipher is the caller's in btclib: both sides use the same toy one (PKCS#7 to 16, XOR with key‖iv repeated).
# ========================================================================================================
import base64 as _b64  # noqa: E402

from btclib.ecc import ecies as _ecies  # noqa: E402


def _toy_xor(key, iv, m):
    ks = key + iv
    return bytes(b ^ ks[i % len(ks)] for i, b in enumerate(m)) if ks else m


def _toy_enc(key, iv, m):
    k = 16 - len(m) % 16
    return _toy_xor(key, iv, m + bytes([k]) * k)


def _toy_dec(key, iv, c):
    p = _toy_xor(key, iv, c)
    if not p or not 0 < p[-1] <= 16 or p[-1] > len(p) or p[-p[-1]:] != bytes([p[-1]]) * p[-1]:
        raise BTClibValueError("bad padding")
    return p[:-p[-1]]


def _impl_ecies(t) -> str:
    try:
        if t[0] == "ecies.encrypt" and len(t) == 6:
            msg, pt, q, magic = unhx(t[1]), (int(t[2]), int(t[3])), int(t[4]), unhx(t[5])
            return _call(lambda: hx(_b64.b64decode(_ecies.encrypt(msg, pt, _toy_enc, eph_prv_key=q, magic=magic))))
        if t[0] == "ecies.decrypt" and len(t) == 4:
            env, d, magic = unhx(t[1]), int(t[2]), unhx(t[3])
            return _call(lambda: hx(_ecies.decrypt(_b64.b64encode(env).decode(), d, _toy_dec, magic=magic)))
    except ValueError:
        return "bad-op"
    return "bad-op"


def run_ecies(ctx):
    rng = ctx.rng
    enc, dec = [], []
    for i in range(ctx.n(40, 600)):
        d, q = g_prv(rng), g_prv(rng)
        pt = mult(d)
        msg = common.rand_bytes(rng, rng.choice([0, 1, 15, 16, 17, 31, 32, 33, 64, 100]))
        magic = rng.choice([b"BIE1"] * 8 + [b"BIE2", b"\x00\xff\x80\x7f", b"", b"BIE", b"BIE1x"])
        q_ = rng.choice([q] * 9 + [0, N, N + 1])
        line = f"ecies.encrypt {hx(msg)} {pt[0]} {pt[1]} {q_} {hx(magic)}"
        enc.append(line)
        out = impl(line)
        if not out.startswith("ok "):
            continue
        env = unhx(out[3:])
        dec.append(f"ecies.decrypt {hx(env)} {d} {hx(magic)}")                      # the recipient
        dec.append(f"ecies.decrypt {hx(env)} {rng.choice([g_prv(rng), N - d, d + 1, 0, N])} {hx(magic)}")  # another key
        j = rng.randrange(len(env))
        bad = env[:j] + bytes([env[j] ^ (1 << rng.randrange(8))]) + env[j + 1:]
        dec.append(f"ecies.decrypt {hx(bad)} {d} {hx(magic)}")                      # one bit flipped anywhere
        dec.append(f"ecies.decrypt {hx(env[:rng.randrange(len(env))])} {d} {hx(magic)}")          # truncated
        dec.append(f"ecies.decrypt {hx(env + bytes(rng.choice([1, 16])))} {d} {hx(magic)}")        # extended
        dec.append(f"ecies.decrypt {hx(env)} {d} {hx(rng.choice([b'BIE2', b'', magic + b'x']))}")  # another magic
    off = mult(g_prv(rng))
    enc.append(f"ecies.encrypt 00 {off[0]} {(off[1] + 1) % P} 5 {hx(b'BIE1')}")  # not on the curve
    _stream_both(ctx, "ecies.encrypt", enc)
    _stream_both(ctx, "ecies.decrypt", dec)


# ---- ellswift: impl / generators/run (correspondence with Model/C16/EllSwift.lean) ----------------------
# ell.xswiftec <curve> <u> <t> -> ok <x> ; ell.xswiftec_inv <curve> <x> <u> <case 0..7> -> ok <t> | ok None
# toy curves y^2 = x^3 + b over F_p, p = 3 (mod 4), as (p, b, G, n, h): the first two have no point of order 2
# (-b is not a cube), the third one HAS (8 = 2^3 = -(-2)^3 ... u^3 + 8 = 0 has roots): btclib accepts it for the map
_ELL_TOYS = {"toy19b2": (19, 2), "toy43b7": (43, 7), "toy19b8": (19, 8)}
_ELL_TOY_CURVES: dict = {}


def _ell_toy(name):
    """(Curve, driver token) of a toy curve: generator of the largest prime order found by brute force"""
    if name not in _ELL_TOY_CURVES:
        from btclib.curves.curve import Curve
        p_, b_ = _ELL_TOYS[name]
        pts = [(x, y) for x in range(p_) for y in range(1, p_) if (y * y - x**3 - b_) % p_ == 0]
        order = len(pts) + 1 + sum(1 for x in range(p_) if (x**3 + b_) % p_ == 0)
        n_ = max(q for q in range(2, order + 1) if order % q == 0 and all(q % d for d in range(2, q)))
        for g in pts:
            # (the cofactor argument is what Curve's own Hasse estimate expects, which on so small a field need not be
            # the true one; the map reads p, a and b only)
            for h_ in (order // n_, 1, 2, 3, 4, 5, 6):
                try:
                    ec = Curve(p_, 0, b_, g, n_, h_, weakness_check=False)
                except Exception:  # noqa: BLE001  (this point's order is not n_, or another cofactor is expected)
                    continue
                _ELL_TOY_CURVES[name] = (ec, f"toy:{p_}:0:{b_}:{g[0]}:{g[1]}:{n_}:{h_}")
                break
            if name in _ELL_TOY_CURVES:
                break
    return _ELL_TOY_CURVES[name]


def _ell_curve(tok):
    if tok in CURVES:
        return CURVES[tok]
    for name in _ELL_TOYS:
        ec, t = _ell_toy(name)
        if t == tok:
            return ec
    raise KeyError(tok)


def _impl_ell(t) -> str:
    try:
        ec = _ell_curve(t[1])
        if t[0] == "ell.xswiftec" and len(t) == 4:
            u, tt = int(t[2]), int(t[3])
            return _call(lambda: str(ellswift._xswiftec_var(u, tt, ec)))
        if t[0] == "ell.xswiftec_inv" and len(t) == 5:
            x, u, c = int(t[2]), int(t[3]), int(t[4])
            return _call(lambda: str(ellswift._xswiftec_inv_var(x, u, c, ec)))
    except (ValueError, KeyError):
        return "bad-op"
    return "bad-op"


def _o_ell_curve(w):
    """on a curve btclib offers the map on: every t the inverse answers maps back to x (x an x-coordinate, u != 0),
    and decode_var(encode_var(Q)) == Q"""
    from btclib.curves.curve import _is_x_coordinate_var
    ec, _tok = _ell_toy(w["curve"])
    ellswift._constants(ec)  # the curve is accepted for the map
    bad, tot, first = 0, 0, None
    for x in range(ec.p):
        if not _is_x_coordinate_var(x, ec):
            continue
        for u in range(1, ec.p):
            for c in range(8):
                t = ellswift._xswiftec_inv_var(x, u, c, ec)
                if t is None:
                    continue
                tot += 1
                got = ellswift._xswiftec_var(u, t, ec)
                if got != x:
                    bad += 1
                    first = first or f"_xswiftec_inv_var({x}, {u}, {c}) = {t} but _xswiftec_var({u}, {t}) = {got}"
    if bad:
        return False, f"y^2 = x^3 + {ec._b} over F_{ec.p}: {bad} of {tot} answered preimages do not map back; first: {first}"
    return True, f"y^2 = x^3 + {ec._b} over F_{ec.p}: {tot} preimages"


ORACLES.update({"ellswift.small_curve_roundtrip": _o_ell_curve})


def run_ell(ctx):
    rng = ctx.rng
    fw, inv = [], []
    names = ["secp256k1", "secp256k1", "secp256k1", "secp224k1", "secp192k1", "secp160k1"]  # p = 5 (mod 8) included
    for i in range(ctx.n(60, 1500)):
        name = names[i % len(names)]
        p_ = CURVES[name].p
        edge = [0, 1, 2, p_ - 1, p_, p_ + 1, 2**256 - 1]
        u = rng.choice(edge) if rng.random() < 0.15 else rng.getrandbits(256)
        t = rng.choice(edge) if rng.random() < 0.15 else rng.getrandbits(256)
        fw.append(f"ell.xswiftec {name} {u} {t}")
        x = mult(g_scalar(rng, CURVES[name]), CURVES[name].G, CURVES[name])[0] if rng.random() < 0.7 else rng.getrandbits(256)
        if rng.random() < 0.1:
            x = (-x - u) % p_  # the other branch's guard
        for c in range(8):
            line = f"ell.xswiftec_inv {name} {x} {u} {c}"
            inv.append(line)
            out = impl(line)
            if out.startswith("ok ") and out != "ok None":  # the forward map on what the inverse answered
                fw.append(f"ell.xswiftec {name} {u} {out[3:]}")
    for toy in _ELL_TOYS:  # small fields: every degenerate branch (u^3 + b = 0, t = 0, r = 0, s = 0) is hit
        ec, tok = _ell_toy(toy)
        k = ctx.n(120, 100000)
        for x in range(ec.p):
            for u in range(ec.p):
                if (x * ec.p + u) % max(1, ec.p * ec.p // k) == 0 or ctx.tier == "thorough":
                    fw.append(f"ell.xswiftec {tok} {x} {u}")
                    for c in range(8):
                        inv.append(f"ell.xswiftec_inv {tok} {x} {u} {c}")
    # the guard `return t or None`: on the curve with a point of order 2, EVERY (x, case) for the u with u^3 + b = 0 --
    # exactly where the unguarded formula gives t = 0 (so the stream reaches the guard on every run, both arms)
    ec8, tok8 = _ell_toy("toy19b8")
    for u in range(1, ec8.p):
        if (u**3 + ec8._b) % ec8.p == 0:
            for x in range(ec8.p):
                for c in range(8):
                    inv.append(f"ell.xswiftec_inv {tok8} {x} {u} {c}")
                    ctx.count("ell.guard", "u^3+b=0 line")
    _stream_both(ctx, "ell.xswiftec", fw)
    _stream_both(ctx, "ell.xswiftec_inv", inv)
    # the curves the Lean theorem ellswift_roundtrip_small_curves_partial is about, on the real code
    ctx.check("ellswift.small_curve_roundtrip", {"curve": "toy19b2"})
    ctx.check("ellswift.small_curve_roundtrip", {"curve": "toy43b7"})
    # a curve with a point of order 2 that `_constants` accepts (a == 0, sqrt(-3) exists): the inverse used to answer
    # t = 0 there, which the forward map reads as t = 1 -- decode_var(encode_var(Q)) != Q. Found by the independent
    # audit (AUDIT.md, C16 item 1), reproduced here; repaired in /repo c67c7290 (`return t or None`); kept as a
    # regression that must pass.
    ctx.check("ellswift.small_curve_roundtrip", {"curve": "toy19b8"}, key="ellswift.inverse_answers_zero_t_on_2torsion_curve")
    ec8, _ = _ell_toy("toy19b8")
    for q in range(1, ec8.n):  # and the public pair on that curve
        pt = mult(q, ec8.G, ec8)
        for _ in range(ctx.n(20, 200)):
            back = ellswift.decode_var(ellswift.encode_var(pt, ec8), ec8)
            ctx.oracle("ellswift.small_curve_encode_decode", back == pt, f"decode_var(encode_var({pt})) = {back} on y^2=x^3+8/F_19",
                       key="ellswift.inverse_answers_zero_t_on_2torsion_curve", witness={"q": q})

def run(ctx):
    shared.validate_hashes(ctx, EXE)
    run_musig(ctx)
    run_twoparty(ctx)
    run_realcode(ctx)
    run_sp(ctx)
    run_psbt(ctx)
    run_pedersen(ctx)
    run_ecies(ctx)
    run_ell(ctx)
