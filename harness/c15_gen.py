"""Structure-aware random generators of miniscript expressions (C15).

Everything random is drawn from the `rng` argument (a `random.Random`), and the
output is a function of the rng state alone: no set or dict is ever iterated,
no module-level state is kept.

The backward typing rules below ("to get a B with these properties out of this
fragment, ask this of its arguments") are written by hand from the BIP379
tables, NOT read from btclib: btclib is only used to build the nodes and to
check what was built (`node.properties`).  A disagreement between the two shows
up as a lower success rate of `gen_typed`, never as a wrong answer.

Public API: key_expr, gen_typed, gen_sane, gen_shaped, mutate, deep_chain,
histogram.
"""

from __future__ import annotations

from btclib.descriptors.key_expression import KeyExpression
from btclib.descriptors.miniscript import P2WSH, TAPSCRIPT, Miniscript

__all__ = [
    "key_expr",
    "gen_typed",
    "gen_sane",
    "gen_shaped",
    "mutate",
    "deep_chain",
    "histogram",
    "TIMELOCK_VALUES",
    "ALL_FRAGMENTS",
]

WRAPPERS = ("a:", "s:", "c:", "d:", "v:", "j:", "n:")
BINARY = ("and_v", "and_b", "or_b", "or_c", "or_d", "or_i")
HASHES = ("sha256", "hash256", "ripemd160", "hash160")
DATA_SIZE = {"sha256": 32, "hash256": 32, "ripemd160": 20, "hash160": 20}
LEAVES = ("0", "1", "pk_k", "pk_h", "older", "after", *HASHES, "multi", "multi_a")
ALL_FRAGMENTS = (*LEAVES, "andor", *BINARY, "thresh", *WRAPPERS)

TIMELOCK_VALUES = (
    1,
    2,
    16,
    17,
    127,
    128,
    144,
    255,
    256,
    32767,
    32768,
    65535,
    65536,
    4194304,
    4194305,
    4259839,
    499999999,
    500000000,
    500000001,
    2147483647,
)
_MAX_TL = 2**31 - 1
_SEQ_TYPE_FLAG = 1 << 22
_LOCKTIME_THRESHOLD = 500000000

# canonical order of the property letters a caller may ask for
_ORDER = "zonduefsmxk"

# BIP379 leaf types (g/h/i/j left out: the timelock kind is handled by modes)
_LEAF_TYPES = {
    "0": "Bzudemsxk",
    "1": "Bzufmxk",
    "pk_k": "Konudemsxk",
    "pk_h": "Knudemsxk",
    "older": "Bzfmxk",
    "after": "Bzfmxk",
    "sha256": "Bonudmk",
    "hash256": "Bonudmk",
    "ripemd160": "Bonudmk",
    "hash160": "Bonudmk",
    "multi": "Bnudemsk",
    "multi_a": "Budemsk",
    # the sugared pk() and pkh(), c: over a key fragment: two fragments that
    # read as one leaf, offered wherever a B leaf is
    "pk": "Bondemusk",
    "pkh": "Bndemusk",
}
_TYPED_LEAVES = (*LEAVES, "pk", "pkh")
_LEAF_WEIGHT = {"0": 0.2, "1": 0.4, "multi": 0.6, "multi_a": 0.6, "pk": 0.9, "pkh": 0.5}

_RULES = {
    "B": ("c:", "d:", "j:", "n:", "and_v", "and_b", "or_b", "or_d", "or_i", "andor", "thresh"),
    "V": ("v:", "and_v", "or_c", "or_i", "andor"),
    "K": ("and_v", "or_i", "andor"),
    "W": ("a:", "s:"),
}
_RULE_ARITY = {
    **dict.fromkeys(WRAPPERS, 1),
    **dict.fromkeys(BINARY, 2),
    "andor": 3,
    "thresh": 1,
}
_RULE_WEIGHT = {"n:": 0.6, "thresh": 1.2}
_MIN_SIZE = -6
_MAX_TRIES = 5


# --------------------------------------------------------------------------
# keys
# --------------------------------------------------------------------------


def key_expr(hexkey: str, context: str) -> KeyExpression:
    """Return the KEY expression `miniscript.parse` builds for this key.

    `hexkey` is a 66-hex compressed key.  Under tapscript the key is x-only:
    what parse() makes of the 64-hex spelling `hexkey[2:]`, which btclib holds
    as the even-y SEC form with `x_only=True`.
    """
    raw = bytes.fromhex(hexkey)
    if len(raw) != 33 or raw[0] not in (2, 3):
        raise ValueError(f"not a 66-hex compressed public key: {hexkey}")
    if context == TAPSCRIPT:
        return KeyExpression(pub_key=b"\x02" + raw[1:], x_only=True)
    return KeyExpression(pub_key=raw)


# --------------------------------------------------------------------------
# generation state
# --------------------------------------------------------------------------


class _G:
    """What one generation carries around: the rng, the pools, the budget."""

    __slots__ = (
        "rng",
        "context",
        "tap",
        "keys",
        "pool",
        "kpos",
        "digests",
        "fresh",
        "steps",
        "max_steps",
        "kcache",
    )

    def __init__(self, rng, context, keys, digests, fresh=True, max_steps=1000):
        if context not in (P2WSH, TAPSCRIPT):
            raise ValueError(f"unknown context: {context}")
        if not keys:
            raise ValueError("empty key pool")
        self.rng = rng
        self.context = context
        self.tap = context == TAPSCRIPT
        self.keys = list(keys)
        self.pool = list(keys)
        rng.shuffle(self.pool)
        self.kpos = 0
        self.digests = digests
        self.fresh = fresh
        self.steps = 0
        self.max_steps = max_steps
        self.kcache = {}

    def kexpr(self, hexkey):
        found = self.kcache.get(hexkey)
        if found is None:
            found = key_expr(hexkey, self.context)
            self.kcache[hexkey] = found
        return found

    def key(self):
        """Return one KEY expression, unused so far where there is one."""
        if self.fresh and self.kpos < len(self.pool):
            hexkey = self.pool[self.kpos]
            self.kpos += 1
        else:
            hexkey = self.rng.choice(self.keys)
        return self.kexpr(hexkey)

    def key_group(self, count):
        """Return `count` KEY expressions for one multi()/multi_a()."""
        if self.fresh and self.kpos + count <= len(self.pool):
            chosen = self.pool[self.kpos : self.kpos + count]
            self.kpos += count
        elif count <= len(self.keys):
            if self.fresh:
                self.kpos = len(self.pool)
            chosen = self.rng.sample(self.keys, count)
        else:
            chosen = [self.rng.choice(self.keys) for _ in range(count)]
        return tuple(self.kexpr(hexkey) for hexkey in chosen)

    def digest(self, name):
        pool = self.digests.get(name) if self.digests else None
        if pool:
            value = self.rng.choice(list(pool))
            return value if isinstance(value, bytes) else bytes.fromhex(value)
        return bytes(self.rng.getrandbits(8) for _ in range(DATA_SIZE[name]))

    def mk(self, fragment, subs=(), keys=(), threshold=0, data=b""):
        return Miniscript(fragment, self.context, tuple(subs), tuple(keys), threshold, data)


def _wchoice(rng, items, weights):
    total = 0.0
    for weight in weights:
        total += weight
    mark = rng.random() * total
    acc = 0.0
    for item, weight in zip(items, weights):
        acc += weight
        if mark < acc:
            return item
    return items[-1]


def _wshuffle(rng, items, weights):
    items = list(items)
    weights = list(weights)
    out = []
    while items:
        picked = _wchoice(rng, list(range(len(items))), weights)
        out.append(items.pop(picked))
        weights.pop(picked)
    return out


def _split(rng, total, parts):
    """Split `total` into `parts` positive integers (total >= parts)."""
    sizes = [1] * parts
    left = total - parts
    if parts == 1:
        return [total]
    # skewed now and then, so that chains appear as well as bushes
    if rng.random() < 0.3:
        sizes[rng.randrange(parts)] += left
        return sizes
    for _ in range(left):
        sizes[rng.randrange(parts)] += 1
    return sizes


# --------------------------------------------------------------------------
# timelocks
# --------------------------------------------------------------------------


def _tl_kind(fragment, value):
    if fragment == "older":
        return "t" if value & _SEQ_TYPE_FLAG else "h"
    return "t" if value >= _LOCKTIME_THRESHOLD else "h"


def _timelock(rng, fragment, mode):
    """Return an older()/after() value, of the kind the mode asks for if any."""
    kind = None if mode is None else mode[0 if fragment == "older" else 1]
    if rng.random() < 0.7:
        if kind is None:
            return rng.choice(TIMELOCK_VALUES)
        fitting = [v for v in TIMELOCK_VALUES if _tl_kind(fragment, v) == kind]
        return rng.choice(fitting)
    value = rng.randint(1, _MAX_TL)
    if kind is None:
        return value
    if fragment == "older":
        if kind == "t":
            return value | _SEQ_TYPE_FLAG
        return (value & ~_SEQ_TYPE_FLAG) or 1
    if kind == "t":
        return rng.randint(_LOCKTIME_THRESHOLD, _MAX_TL)
    return rng.randint(1, _LOCKTIME_THRESHOLD - 1)


def _new_mode(rng):
    return (rng.choice("ht"), rng.choice("ht"))


# --------------------------------------------------------------------------
# leaves
# --------------------------------------------------------------------------


def _leaf_allowed(g, name):
    if name == "multi":
        return not g.tap
    if name == "multi_a":
        return g.tap
    return True


def _multi_shape(g):
    rng = g.rng
    pool = len(g.keys)
    if rng.random() < 0.06:
        top = pool if g.tap else min(pool, 20)
        top = min(top, 20)
    else:
        top = min(pool, 5)
    top = max(top, 1)
    count = rng.randint(1, top)
    return count, rng.randint(1, count)


def _leaf(g, name, mode=None):
    rng = g.rng
    if name in ("0", "1"):
        return g.mk(name)
    if name in ("pk_k", "pk_h"):
        return g.mk(name, keys=(g.key(),))
    if name in ("pk", "pkh"):
        return g.mk("c:", (g.mk("pk_k" if name == "pk" else "pk_h", keys=(g.key(),)),))
    if name in ("older", "after"):
        return g.mk(name, threshold=_timelock(rng, name, mode))
    if name in DATA_SIZE:
        return g.mk(name, data=g.digest(name))
    count, threshold = _multi_shape(g)
    return g.mk(name, keys=g.key_group(count), threshold=threshold)


def _random_leaf(g, exclude=None):
    names = [n for n in LEAVES if _leaf_allowed(g, n) and n != exclude]
    return _leaf(g, g.rng.choice(names))


# --------------------------------------------------------------------------
# backward typing rules
# --------------------------------------------------------------------------


def _canon(chars):
    return "".join(c for c in _ORDER if c in chars)


def _only(want, allowed):
    for c in want:
        if c not in allowed:
            return False
    return True


def _keep(want, chars):
    return "".join(c for c in want if c in chars)


def _drop(want, chars):
    return "".join(c for c in want if c not in chars)


def _feasible(basic, want):
    """Refuse the requests no expression can meet (cheap necessary conditions)."""
    if "z" in want and ("o" in want or "n" in want):
        return False
    if "f" in want and ("e" in want or "d" in want):
        return False
    if basic == "V":
        return not ("d" in want or "u" in want or "e" in want)
    if basic == "K":
        return "z" not in want
    if basic == "W":
        return not ("z" in want or "o" in want or "n" in want)
    return True


def _one_s(rng, want, x, y):
    """Put the 's' an or/and needs on one side (or on both where asked)."""
    r = rng.random()
    if r < 0.45:
        return x + "s", y
    if r < 0.9:
        return x, y + "s"
    return x + "s", y + "s"


def _req_wrapper(g, frag, basic, want):
    if frag == "a:":
        if basic != "W" or not _only(want, "udfemsx"):
            return None
        return [("B", _drop(want, "x"))]
    if frag == "s:":
        if basic != "W" or not _only(want, "udfemsx"):
            return None
        return [("B", want + "o")]
    if frag == "c:":
        if basic != "B" or not _only(want, "ondfemus"):
            return None
        return [("K", _drop(want, "us"))]
    if frag == "d:":
        allowed = "ondxmseu" if g.tap else "ondxmse"
        if basic != "B" or not _only(want, allowed):
            return None
        return [("V", "z" + _keep(want, "ms"))]
    if frag == "v:":
        if basic != "V" or not _only(want, "zonmsfx"):
            return None
        return [("B", _keep(want, "zonms"))]
    if frag == "j:":
        if basic != "B" or not _only(want, "oumsndxe"):
            return None
        return [("B", "n" + _keep(want, "oums") + ("f" if "e" in want else ""))]
    # n:
    if basic != "B":
        return None
    return [("B", _drop(want, "ux"))]


def _req_and_v(g, basic, want):
    if basic == "W" or "d" in want or "e" in want:
        return None
    rng = g.rng
    x = ""
    y = _keep(want, "ux")
    if "z" in want:
        x += "z"
        y += "z"
    if "o" in want:
        if rng.random() < 0.5:
            x += "z"
            y += "o"
            if "n" in want:
                y += "n"
        else:
            x += "o"
            y += "z"
            if "n" in want:
                x += "n"
    elif "n" in want:
        if rng.random() < 0.5:
            x += "n"
        else:
            x += "z"
            y += "n"
    if "m" in want:
        x += "m"
        y += "m"
    if "s" in want:
        x, y = _one_s(rng, want, x, y)
    if "f" in want and basic != "V" and "s" not in x:
        if rng.random() < 0.6:
            y += "f"
        else:
            x += "s"
    return [("V", x), (basic, y)]


def _req_and_b(g, basic, want):
    if basic != "B" or "z" in want or "o" in want:
        return None
    rng = g.rng
    x = ""
    y = ""
    if "n" in want:
        x += "n"
    if "e" in want:
        x += "se"
        y += "se"
    if "d" in want:
        x += "d"
        y += "d"
    if "m" in want:
        x += "m"
        y += "m"
    if "s" in want and "e" not in want:
        x, y = _one_s(rng, want, x, y)
    if "f" in want:
        r = rng.random()
        if r < 0.4:
            x += "f"
            y += "f"
        elif r < 0.7:
            x += "sf"
        else:
            y += "sf"
    return [("B", x), ("W", y)]


def _req_or(g, frag, basic, want):
    rng = g.rng
    if frag == "or_b":
        if basic != "B" or not _only(want, "dumsex"):
            return None
        x = "d"
        y = "d"
        if "e" in want or "m" in want:
            x += "e"
            y += "e"
        if "m" in want:
            x += "m"
            y += "m"
        if "s" in want:
            x += "s"
            y += "s"
        elif "m" in want:
            x, y = _one_s(rng, want, x, y)
        return [("B", x), ("W", y)]
    if frag == "or_c":
        if basic != "V" or not _only(want, "zomsfx"):
            return None
        x = "du"
        y = ""
    elif frag == "or_d":
        if basic != "B" or "n" in want:
            return None
        x = "du"
        y = _keep(want, "ufde")
    else:
        return _req_or_i(g, basic, want)
    if "o" in want:
        x += "o"
        y += "z"
    if "z" in want:
        x += "z"
        y += "z"
    if "m" in want:
        x += "em"
        y += "m"
    if "s" in want:
        x += "s"
        y += "s"
    elif "m" in want:
        x, y = _one_s(rng, want, x, y)
    return [("B", x), (basic, y)]


def _req_or_i(g, basic, want):
    if basic == "W" or "z" in want or "n" in want:
        return None
    rng = g.rng
    both = _keep(want, "ufs")
    x = both
    y = both
    if "o" in want:
        x += "z"
        y += "z"
    if "m" in want:
        x += "m"
        y += "m"
        if "s" not in want:
            x, y = _one_s(rng, want, x, y)
    flip = rng.random() < 0.5
    if "e" in want:
        # one branch cannot be dissatisfied, the other has one dissatisfaction
        if flip:
            x += "f"
            y += "e"
        else:
            x += "e"
            y += "f"
    elif "d" in want:
        if flip:
            x += "d"
        else:
            y += "d"
    return [(basic, x), (basic, y)]


def _req_andor(g, basic, want):
    if basic == "W" or "n" in want:
        return None
    rng = g.rng
    x = "du"
    y = ""
    z = ""
    if "z" in want:
        x += "z"
        y += "z"
        z += "z"
    if "o" in want:
        if rng.random() < 0.5:
            x += "z"
            y += "o"
            z += "o"
        else:
            x += "o"
            y += "z"
            z += "z"
    if "u" in want:
        y += "u"
        z += "u"
    if "d" in want:
        z += "d"
    if "m" in want:
        x += "em"
        y += "m"
        z += "m"
    if "s" in want:
        z += "s"
        if rng.random() < 0.5:
            x += "s"
        else:
            y += "s"
    elif "m" in want:
        r = rng.random()
        if r < 0.34:
            x += "s"
        elif r < 0.67:
            y += "s"
        else:
            z += "s"
    if "f" in want or "e" in want:
        z += "f" if "f" in want else "e"
        if basic != "V" and "s" not in x:
            if rng.random() < 0.5:
                x += "s"
            else:
                y += "f"
    return [("B", x), (basic, y), (basic, z)]


def _req_thresh(g, basic, want, size):
    """Return (requests, threshold, sizes) for a thresh(), or None."""
    if basic != "B" or "n" in want or "f" in want or "x" in want:
        return None
    rng = g.rng
    left = size - 1
    if "z" in want or "o" in want:
        count = 1
    else:
        most = 1 + max(0, (left - 1) // 2)
        most = min(most, 9 if rng.random() < 0.08 else 5)
        if most >= 2 and rng.random() < 0.85:
            count = rng.randint(2, most)
        else:
            count = rng.randint(1, most)
    threshold = rng.randint(1, count)
    common = "du" + _keep(want, "zo")
    if "e" in want:
        common += "es"
    if "m" in want:
        common += "em"
    signed = [False] * count
    least = 0
    if "s" in want:
        least = count - threshold + 1
    elif "m" in want:
        least = count - threshold
    if least and "e" not in want:
        how_many = rng.randint(least, count)
        for position in rng.sample(range(count), how_many):
            signed[position] = True
    reqs = []
    for position in range(count):
        extra = "s" if signed[position] else ""
        reqs.append(("W" if position else "B", common + extra))
    base = [1] + [2] * (count - 1)
    spare = left - sum(base)
    if spare > 0:
        for _ in range(spare):
            base[rng.randrange(count)] += 1
    elif spare < 0:
        base = [size - 1] * count
    return reqs, threshold, base


def _requests(g, frag, basic, want):
    if frag in WRAPPERS:
        return _req_wrapper(g, frag, basic, want)
    if frag == "and_v":
        return _req_and_v(g, basic, want)
    if frag == "and_b":
        return _req_and_b(g, basic, want)
    if frag == "andor":
        return _req_andor(g, basic, want)
    return _req_or(g, frag, basic, want)


def _checked_requests(g, frag, basic, want):
    """Draw the requests of a rule, redrawing its random choices a few times."""
    for _ in range(3):
        reqs = _requests(g, frag, basic, want)
        if reqs is None:
            return None
        reqs = [(b, _canon(w)) for b, w in reqs]
        if all(_feasible(b, w) for b, w in reqs):
            return reqs
    return None


# --------------------------------------------------------------------------
# type-directed generation
# --------------------------------------------------------------------------


def _has(node, basic, want):
    props = node.properties
    if not props or basic not in props:
        return False
    for c in want:
        if c not in props:
            return False
    return True


def _child_modes(g, frag, count, mode, free):
    """Return the (mode, free) each argument is generated under.

    An or's branches are alternatives, so while nothing and-ed sits above
    them they may each take timelocks of their own kind; everything under a
    conjunction shares one kind, which is what keeps the result "k".
    """
    if mode is None:
        return [(None, False)] * count
    if frag in WRAPPERS:
        return [(mode, free)]
    rng = g.rng
    if frag in ("or_b", "or_c", "or_d", "or_i"):
        if free:
            return [(_new_mode(rng), True) for _ in range(count)]
        return [(mode, False)] * count
    if frag == "andor":
        last = (_new_mode(rng), True) if free else (mode, False)
        return [(mode, False), (mode, False), last]
    return [(mode, False)] * count


def _try_rule(g, frag, basic, want, size, mode, free):
    """Build one node by one rule; None on failure, False where inapplicable."""
    if frag == "thresh":
        drawn = _req_thresh(g, basic, want, size)
        if drawn is None:
            return False
        reqs, threshold, sizes = drawn
        reqs = [(b, _canon(w)) for b, w in reqs]
        if not all(_feasible(b, w) for b, w in reqs):
            return False
    else:
        reqs = _checked_requests(g, frag, basic, want)
        if reqs is None:
            return False
        threshold = 0
        arity = len(reqs)
        if size - 1 >= arity:
            sizes = _split(g.rng, size - 1, arity)
        else:
            sizes = [size - 1] * arity
    modes = _child_modes(g, frag, len(reqs), mode, free)
    subs = []
    for (sub_basic, sub_want), sub_size, (sub_mode, sub_free) in zip(reqs, sizes, modes):
        sub = _gen(g, sub_basic, sub_want, sub_size, sub_mode, sub_free)
        if sub is None:
            return None
        subs.append(sub)
    return g.mk(frag, subs, threshold=threshold)


def _gen(g, basic, want, size, mode, free):
    g.steps += 1
    if g.steps > g.max_steps or size < _MIN_SIZE:
        return None
    if not _feasible(basic, want):
        return None
    rng = g.rng
    leaves = [
        name
        for name in _TYPED_LEAVES
        if _leaf_allowed(g, name) and _LEAF_TYPES[name][0] == basic and _only(want, _LEAF_TYPES[name])
    ]
    in_budget = []
    over_budget = []
    for frag in _RULES[basic]:
        if size >= _RULE_ARITY[frag] + 1:
            in_budget.append(frag)
        else:
            over_budget.append(frag)
    if size <= 1:
        order = ["LEAF"] if leaves else []
    else:
        cands = list(in_budget)
        weights = [_RULE_WEIGHT.get(frag, 1.0) for frag in cands]
        if leaves:
            cands.append("LEAF")
            weights.append(1.5 if size == 2 else 0.25)
        order = _wshuffle(rng, cands, weights)
    # what does not fit the budget is tried last, the cheapest first
    for arity in (1, 2, 3):
        group = [frag for frag in over_budget if _RULE_ARITY[frag] == arity]
        rng.shuffle(group)
        order.extend(group)
    tries = 0
    for frag in order:
        if tries >= _MAX_TRIES:
            break
        kpos = g.kpos
        if frag == "LEAF":
            weights = [_LEAF_WEIGHT.get(name, 1.0) for name in leaves]
            node = _leaf(g, _wchoice(rng, leaves, weights), mode)
        else:
            node = _try_rule(g, frag, basic, want, size, mode, free)
            if node is False:
                continue
        tries += 1
        if node is not None and _has(node, basic, want):
            return node
        g.kpos = kpos
        if g.steps > g.max_steps:
            break
    return None


def gen_typed(rng, context, keys, digests, basic="B", want="", size=10, fresh_keys=True):
    """Return a random expression of type `basic` with every property in `want`.

    Type-directed: a fragment that can produce the type is chosen, what it
    needs of its arguments is derived from the BIP379 tables, and the
    arguments are generated the same way under a split size budget (`size` is
    roughly the number of fragments).  Every node built is checked against the
    real `properties`; None where nothing was found within the bounded retries.
    """
    if basic not in ("B", "V", "K", "W"):
        raise ValueError(f"unknown basic type: {basic}")
    for c in want:
        if c not in _ORDER:
            raise ValueError(f"unknown property: {c}")
    want = _canon(want)
    inner = _drop(want, "k")
    for _ in range(3):
        g = _G(rng, context, keys, digests, fresh_keys, max_steps=200 + 25 * max(size, 1))
        mode = _new_mode(rng) if "k" in want else None
        node = _gen(g, basic, inner, size, mode, mode is not None)
        if node is not None and _has(node, basic, want):
            return node
    return None


def gen_sane(rng, context, keys, digests, size=10):
    """Return a top-level expression that is sane and satisfiable."""
    for attempt in range(16):
        budget = size if attempt < 10 else max(2, size // 2)
        node = gen_typed(rng, context, keys, digests, "B", "msk", budget, True)
        if node is not None and node.is_sane and node.is_satisfiable:
            return node
    g = _G(rng, context, keys, digests)
    return g.mk("c:", (g.mk("pk_k", keys=(g.key(),)),))


# --------------------------------------------------------------------------
# well-shaped, not type-directed
# --------------------------------------------------------------------------


def _shaped(g, size):
    rng = g.rng
    if size <= 1:
        return _random_leaf(g)
    r = rng.random()
    if r < 0.17:
        g.steps = 0
        node = _gen(g, _wchoice(rng, "BVKW", (0.5, 0.2, 0.1, 0.2)), "", size, None, False)
        if node is not None:
            return node
    kind = _wchoice(rng, ("wrap", "binary", "andor", "thresh", "leaf"), (0.33, 0.37, 0.1, 0.12, 0.08))
    if kind == "leaf":
        return _random_leaf(g)
    if kind == "wrap":
        return g.mk(rng.choice(WRAPPERS), (_shaped(g, size - 1),))
    if kind == "binary":
        sizes = _split(rng, max(size - 1, 2), 2)
        return g.mk(rng.choice(BINARY), [_shaped(g, s) for s in sizes])
    if kind == "andor":
        sizes = _split(rng, max(size - 1, 3), 3)
        return g.mk("andor", [_shaped(g, s) for s in sizes])
    count = rng.randint(1, max(1, min(4, size - 1)))
    sizes = _split(rng, max(size - 1, count), count)
    subs = [_shaped(g, s) for s in sizes]
    return g.mk("thresh", subs, threshold=rng.randint(1, count))


def gen_shaped(rng, context, keys, digests, size=8):
    """Return a structurally random, well-shaped, mostly ill-typed expression."""
    g = _G(rng, context, keys, digests, fresh=True, max_steps=300)
    return _shaped(g, size)


# --------------------------------------------------------------------------
# tree walking without recursion
# --------------------------------------------------------------------------


def _index(root):
    """Return (nodes, parent, position) in pre-order, iteratively."""
    nodes = []
    parent = []
    position = []
    stack = [(root, -1, 0)]
    while stack:
        node, up, pos = stack.pop()
        here = len(nodes)
        nodes.append(node)
        parent.append(up)
        position.append(pos)
        for i in range(len(node.subs) - 1, -1, -1):
            stack.append((node.subs[i], here, i))
    return nodes, parent, position


def _rebuilt(nodes, parent, position, target, replacement):
    """Return the root with nodes[target] replaced, ancestors built anew."""
    current = replacement
    i = target
    while parent[i] != -1:
        up = nodes[parent[i]]
        subs = list(up.subs)
        subs[position[i]] = current
        current = Miniscript(up.fragment, up.context, tuple(subs), up.keys, up.threshold, up.data)
        i = parent[i]
    return current


def histogram(node):
    """Return fragment name -> count over the tree (iterative)."""
    counts = {}
    stack = [node]
    while stack:
        current = stack.pop()
        counts[current.fragment] = counts.get(current.fragment, 0) + 1
        stack.extend(current.subs)
    return counts


# --------------------------------------------------------------------------
# mutation
# --------------------------------------------------------------------------

_MUTATIONS = (
    ("wrap_change", 1.5),
    ("wrap_drop", 1.2),
    ("wrap_add", 1.2),
    ("swap", 1.2),
    ("rename", 1.5),
    ("leaf", 1.0),
    ("threshold", 1.0),
    ("timelock", 0.8),
    ("leaf_rename", 0.6),
    ("key", 0.4),
)


def _applies(op, node):
    frag = node.fragment
    if op in ("wrap_change", "wrap_drop"):
        return frag in WRAPPERS
    if op in ("wrap_add", "leaf"):
        return True
    if op == "swap":
        subs = node.subs
        return len(subs) >= 2 and any(subs[i] is not subs[0] for i in range(1, len(subs)))
    if op == "rename":
        return frag in BINARY
    if op == "threshold":
        if frag == "thresh":
            return len(node.subs) >= 2
        return frag in ("multi", "multi_a") and len(node.keys) >= 2
    if op == "timelock":
        return frag in ("older", "after")
    if op == "leaf_rename":
        return frag in ("0", "1", "pk_k", "pk_h", "older", "after") or frag in DATA_SIZE
    if op == "key":
        return bool(node.keys)
    return False


def _mutated(g, op, node):
    rng = g.rng
    frag = node.fragment
    ctx = node.context
    if op == "wrap_change":
        other = rng.choice([w for w in WRAPPERS if w != frag])
        return Miniscript(other, ctx, node.subs)
    if op == "wrap_drop":
        return node.subs[0]
    if op == "wrap_add":
        return Miniscript(rng.choice(WRAPPERS), ctx, (node,))
    if op == "swap":
        subs = list(node.subs)
        i, j = rng.sample(range(len(subs)), 2)
        subs[i], subs[j] = subs[j], subs[i]
        return Miniscript(frag, ctx, tuple(subs), node.keys, node.threshold, node.data)
    if op == "rename":
        other = rng.choice([b for b in BINARY if b != frag])
        return Miniscript(other, ctx, node.subs)
    if op == "leaf":
        return _random_leaf(g, exclude=frag if not node.subs else None)
    if op == "threshold":
        top = len(node.subs) if frag == "thresh" else len(node.keys)
        value = rng.choice([k for k in range(1, top + 1) if k != node.threshold])
        return Miniscript(frag, ctx, node.subs, node.keys, value, node.data)
    if op == "timelock":
        value = node.threshold
        for _ in range(8):
            r = rng.random()
            if r < 0.5:
                value = rng.choice(TIMELOCK_VALUES)
            elif r < 0.7:
                value = node.threshold ^ _SEQ_TYPE_FLAG
            elif r < 0.85:
                value = node.threshold + rng.choice((-1, 1))
            else:
                value = rng.randint(1, _MAX_TL)
            if 1 <= value <= _MAX_TL and value != node.threshold:
                break
        if not 1 <= value <= _MAX_TL or value == node.threshold:
            value = 1 if node.threshold != 1 else 2
        return Miniscript(frag, ctx, threshold=value)
    if op == "leaf_rename":
        if frag in ("0", "1"):
            return Miniscript("1" if frag == "0" else "0", ctx)
        if frag in ("pk_k", "pk_h"):
            return Miniscript("pk_h" if frag == "pk_k" else "pk_k", ctx, keys=node.keys)
        if frag in ("older", "after"):
            other = "after" if frag == "older" else "older"
            return Miniscript(other, ctx, threshold=node.threshold)
        same = [h for h in HASHES if h != frag and DATA_SIZE[h] == DATA_SIZE[frag]]
        return Miniscript(same[0], ctx, data=node.data)
    # key
    keys = list(node.keys)
    slot = rng.randrange(len(keys))
    for _ in range(8):
        fresh = g.kexpr(rng.choice(g.keys))
        if fresh != keys[slot]:
            break
    keys[slot] = fresh
    return Miniscript(frag, ctx, node.subs, tuple(keys), node.threshold, node.data)


def mutate(rng, node, context, keys, digests):
    """Return the tree after one random single edit that keeps it well-shaped."""
    g = _G(rng, context, keys, digests, fresh=False)
    nodes, parent, position = _index(node)
    ops = [name for name, _ in _MUTATIONS]
    weights = [weight for _, weight in _MUTATIONS]
    for op in _wshuffle(rng, ops, weights):
        where = [i for i in range(len(nodes)) if _applies(op, nodes[i])]
        if not where:
            continue
        target = rng.choice(where)
        return _rebuilt(nodes, parent, position, target, _mutated(g, op, nodes[target]))
    return node


# --------------------------------------------------------------------------
# deep chains
# --------------------------------------------------------------------------

_CHAIN_STYLES = (
    "mixed",
    "and_v",
    "and_b",
    "or_i",
    "or_d",
    "andor",
    "wrap_n",
    "wrap_ul",
    "thresh",
)


def _typed_b(node):
    return bool(node.properties) and "B" in node.properties


def _chain_leaf(g, what):
    """Small B leaves for the chains: 'du' (Bdu), 'b' (any B), 'sig' (c:pk_k)."""
    rng = g.rng
    if what == "sig" or (what in ("du", "b") and rng.random() < 0.3):
        return g.mk("c:", (g.mk("pk_k" if rng.random() < 0.8 else "pk_h", keys=(g.key(),)),))
    if what == "du" or rng.random() < 0.7:
        name = rng.choice(HASHES)
        return g.mk(name, data=g.digest(name))
    r = rng.random()
    if r < 0.4:
        return g.mk("older", threshold=_timelock(rng, "older", ("h", "h")))
    if r < 0.8:
        return g.mk("after", threshold=_timelock(rng, "after", ("h", "h")))
    return g.mk("1")


def _chain_step(g, cur, style):
    """Return one more level over `cur` (a B), itself a B; None if ill-typed."""
    rng = g.rng
    mk = g.mk
    props = cur.properties
    if style == "mixed":
        style = rng.choice(
            ("and_v", "and_v", "and_b", "or_i", "or_d", "andor", "or_b", "or_c", "thresh", "wrap")
        )
    if style == "and_v":
        r = rng.random()
        if r < 0.6:
            return mk("and_v", (mk("v:", (_chain_leaf(g, "b"),)), cur))
        if r < 0.9:
            return mk("and_v", (mk("v:", (cur,)), _chain_leaf(g, "b")))
        return mk("and_v", (mk("v:", (cur,)), mk("1")))
    if style == "and_b":
        if rng.random() < 0.6:
            return mk("and_b", (cur, mk("a:", (_chain_leaf(g, "b"),))))
        return mk("and_b", (_chain_leaf(g, "b"), mk("a:", (cur,))))
    if style == "or_i":
        r = rng.random()
        if r < 0.25:
            return mk("or_i", (cur, mk("0")))
        if r < 0.5:
            return mk("or_i", (mk("0"), cur))
        if r < 0.75:
            return mk("or_i", (cur, _chain_leaf(g, "b")))
        return mk("or_i", (_chain_leaf(g, "b"), cur))
    if style == "or_d":
        if "d" in props and "u" in props and rng.random() < 0.4:
            return mk("or_d", (cur, _chain_leaf(g, "b")))
        return mk("or_d", (_chain_leaf(g, "du"), cur))
    if style == "andor":
        r = rng.random()
        if "d" in props and "u" in props and r < 0.3:
            return mk("andor", (cur, _chain_leaf(g, "b"), _chain_leaf(g, "b")))
        if r < 0.65:
            return mk("andor", (_chain_leaf(g, "du"), cur, _chain_leaf(g, "b")))
        return mk("andor", (_chain_leaf(g, "du"), _chain_leaf(g, "b"), cur))
    if style == "or_b":
        if "d" not in props:
            return None
        if rng.random() < 0.5:
            return mk("or_b", (cur, mk("a:", (_chain_leaf(g, "du"),))))
        return mk("or_b", (_chain_leaf(g, "du"), mk("a:", (cur,))))
    if style == "or_c":
        return mk("and_v", (mk("or_c", (_chain_leaf(g, "du"), mk("v:", (cur,)))), mk("1")))
    if style == "thresh":
        if not ("d" in props and "u" in props):
            return None
        if rng.random() < 0.5:
            return mk("thresh", (cur,), threshold=1)
        count = rng.randint(1, 2)
        subs = [_chain_leaf(g, "du")] + [mk("a:", (cur,))]
        if count == 2:
            subs.append(mk("a:", (_chain_leaf(g, "du"),)))
        return mk("thresh", subs, threshold=rng.randint(1, len(subs)))
    if style == "wrap_n":
        return mk("n:", (cur,))
    if style == "wrap_ul":
        r = rng.random()
        if r < 0.45:
            return mk("or_i", (cur, mk("0")))
        if r < 0.9:
            return mk("or_i", (mk("0"), cur))
        return mk("and_v", (mk("v:", (cur,)), mk("1")))
    # "wrap": any wrapper run that lands on a B again
    r = rng.random()
    if r < 0.4:
        return mk("n:", (cur,))
    if r < 0.7 and "n" in props:
        return mk("j:", (cur,))
    if r < 0.85:
        verified = mk("v:", (cur,))
        if "z" in verified.properties:
            return mk("d:", (verified,))
        return mk("and_v", (verified, mk("1")))
    return mk("or_i", (cur, mk("0")))


def _wide_thresh(g, target):
    rng = g.rng
    subs = [_chain_leaf(g, "sig")]
    total = subs[0].script_size
    while True:
        inner = _chain_leaf(g, "sig" if rng.random() < 0.7 else "du")
        sub = g.mk("s:" if rng.random() < 0.5 and "o" in inner.properties else "a:", (inner,))
        # the OP_ADD of each argument and three bytes at most for the threshold
        if total + sub.script_size + len(subs) + 1 + 3 > target:
            break
        subs.append(sub)
        total += sub.script_size
    node = g.mk("thresh", subs, threshold=rng.randint(1, len(subs)))
    while node.script_size > target and len(subs) > 1:
        subs.pop()
        node = g.mk("thresh", subs, threshold=rng.randint(1, len(subs)))
    return node


def deep_chain(rng, context, keys, digests, target_script_size, style=None):
    """Return a typed expression nested until its script is about the target.

    Never larger than `target_script_size` (unless the smallest leaf already
    is), and three times out of four exactly that size, the gap being filled
    with ``n:`` wrappers of one byte each.  `.is_valid` therefore holds
    whenever the target is within the context's script size limit.  The style
    is random unless given: one of `_CHAIN_STYLES`.
    """
    g = _G(rng, context, keys, digests, fresh=True)
    if style is None:
        style = rng.choice(_CHAIN_STYLES)
    if style == "thresh":
        cur = _wide_thresh(g, target_script_size)
    else:
        cur = _chain_leaf(g, "sig" if rng.random() < 0.5 else "du")
        if style in ("wrap_n", "wrap_ul") and rng.random() < 0.5:
            cur = g.mk("1") if rng.random() < 0.5 else _chain_leaf(g, "b")
        misses = 0
        while misses < 8 and cur.script_size < target_script_size:
            kpos = g.kpos
            cand = _chain_step(g, cur, style)
            if cand is None or not _typed_b(cand):
                g.kpos = kpos
                cand = g.mk("n:", (cur,))
            if cand.script_size > target_script_size:
                g.kpos = kpos
                misses += 1
                continue
            cur = cand
    if rng.random() < 0.75:
        while cur.script_size < target_script_size:
            cur = g.mk("n:", (cur,))
    return cur
