"""C08 — the script engine gives Bitcoin Core's verdict (DESIGN §3 C08).

Two kinds of streams:
  * model-of-btclib streams (`ctx.stream`): numbers / booleans / span parsing, hand models mirroring btclib;
  * specification streams (`_spec`): the real engine against the Lean transcription of Core's interpreter
    (`Core.evalWith`, `Core.executeWitnessScript`, `Core.verifyScript`).  A disagreement there is a
    divergence from Core, i.e. a *property* finding with its own key.
The transcription itself is validated on Core's vendored script_tests.json (expected error code included).
"""
from __future__ import annotations

import json
import os

from btclib import utils
from btclib.script import script as S
from btclib.script.engine import script as ES
from btclib.script.engine import script_op_codes as OPC
from btclib.script.engine import tapscript as TS
from btclib.script.engine.flags import ALL_FLAGS, NO_FLAGS, ScriptFlag
from btclib.exceptions import BTClibValueError
from btclib.script import engine as ENG
from btclib.script.witness import Witness

from . import common, shared
from . import c08_gen as G
from . import c08_spend as SP
from .common import hx, unhx

PROP = "C08"
EXE = "drv_c08"
GEN_MODULES = ["Script"]
RULE = ("programs come from a typed-stack grammar over all 256 op codes (pushes of every width and minimality, "
        "nested/unbalanced conditionals, limit-straddling families) x sampled flag subsets x sigversions; "
        "non-trivial = the implementation executed at least one op code (did not refuse at the size check); "
        "distinct = distinct (stream, op line)")
TRUSTED = [
    "Model/C08/Core.lean + Verify.lean: transcription of Bitcoin Core's interpreter.cpp, the *statement* of the "
    "property; validated each run on Core's script_tests.json (verdict and error code)",
    "signature checks are an oracle of the model; the harness answers it with btclib.script.sig_hash + btclib.ecc "
    "(C09/C02/C03), never with the engine under test",
    "hash functions of the driver are the shared Lean models, validated against hashlib each run",
    "hand models of btclib's number/bool/span code are tied by correspondence only",
    "the btclib-shaped loop models (Model/C08/Btclib.lean for engine/script.py, Model/C08/BtclibTap.lean for "
    "engine/tapscript.py + taproot.parse's pre-scan) are tied to the code by the bt.eval* / bt.tapscript streams only; the "
    "tapscript model has no loop-level refinement theorem (op level: OP_CHECKSIG; dispatch list)",
    "Model/C08/BtclibVerify.lean (validate_push_only, taproot_get_annex) is tied to engine/__init__.py by the bt.pushonly / "
    "bt.annex streams only; the rest of verify_input has no btclib-shaped model (core.verify_input stream only)",
]
ASSUMPTIONS = [
    "flag sets are closed under Core's assertions (WITNESS => P2SH, CLEANSTACK => P2SH and WITNESS)",
    "btclib_eval_refines_core_partial and signature_ops_refine_Core_shared carry the hypothesis that the model's `op_checksig` "
    "parameter is Core's per-signature sequence over the checker Core's side uses (Btclib.sharedChecksig); that btclib's "
    "real op_checksig is that sequence is NOT proved, is false on the five recorded divergence classes, and is tied by the "
    "bt.eval.signed / core.eval streams (a difference is accepted only under a predicate naming one of those classes)",
    "btclib_eval_refines_core_partial: initial stack of at most 1000 elements; Sim.covered script (true of every script: "
    "every_opcode_is_covered)",
]


# ------------------------------------------------------------------ implementation side (btclib models)
def _flags_of(names: str) -> ScriptFlag:
    f = NO_FLAGS
    if names != "-":
        for n in names.split(","):
            f |= ScriptFlag[n]
    return f


def impl(line: str) -> str:
    t = line.split(" ")
    op = t[0]
    if op in ("num.encode", "corenum.encode"):
        return common.call_impl(utils.encode_num, int(t[1]))
    if op == "num.decode":
        return common.call_impl(utils.decode_num, unhx(t[1]))
    if op in ("num.tonum", "corenum.tonum"):
        fl = ScriptFlag.MINIMALDATA if t[2] == "1" else NO_FLAGS
        return common.call_impl(OPC._to_num, unhx(t[1]), fl, int(t[3]))
    if op in ("num.tobool", "corenum.tobool"):
        return common.call_impl(OPC._to_bool, unhx(t[1]))
    if op in ("parse.spans", "parse.getop"):
        b = unhx(t[1])
        try:
            sp = list(S.op_code_spans(b))
        except Exception as e:  # noqa: BLE001
            return "err " + common.err_class(e)
        stop = sp[-1][2] if sp else 0
        return "ok " + (",".join(f"{o}:{s}:{e}" for o, s, e in sp) if sp else "-") + f" tail={len(b) - stop}"
    if op in ("bt.pushonly", "core.pushonly"):
        try:
            ENG.validate_push_only(unhx(t[1]))
        except BTClibValueError:
            return "ok False"
        except Exception as e:  # noqa: BLE001
            return "err " + common.err_class(e)
        return "ok True"
    if op in ("bt.annex", "core.annex"):
        try:
            annex, rest = ENG.taproot_get_annex(Witness(SP.unhexlist(t[1])))
        except Exception as e:  # noqa: BLE001
            return "err " + common.err_class(e)
        return f"ok {hx(annex)}|{SP.hexlist(rest)}" if op == "bt.annex" else f"ok {SP.hexlist(rest)}"
    if op == "fad":
        try:
            r, n = ES.find_and_delete(unhx(t[1]), unhx(t[2]))
        except Exception as e:  # noqa: BLE001
            return "err " + common.err_class(e)
        return f"ok {hx(r)} {n}"
    if op in ("eval", "execwit"):
        return SP.impl_eval(t)
    if op == "bteval":
        return SP.impl_eval(["eval", *t[1:8], "0", "deny"])
    if op == "bttap":
        return SP.impl_eval(["execwit", "tapscript", *t[1:8], "deny"])
    if op == "verify":
        return SP.impl_verify(t)
    return "bad-op"


# ------------------------------------------------------------------ property oracles (real code only)
def _o_num_roundtrip(w):
    i = w["i"]
    try:
        b = utils.encode_num(i)
    except Exception as e:  # noqa: BLE001
        return common.err_class(e) == "value" and not (-2**63 <= i < 2**63), f"encode_num({i}) raised {type(e).__name__}"
    back = utils.decode_num(b)
    again = utils.encode_num(back)
    ok = back == i and again == b and (len(b) == 0) == (i == 0) and (not b or b[-1] & 0x7F or (len(b) > 1 and b[-2] & 0x80))
    return bool(ok), f"i={i} enc={b.hex()} dec={back}"


def _o_num_minimal(w):
    b = bytes.fromhex(w["b"])
    mx = w["max"]
    try:
        x = OPC._to_num(b, ScriptFlag.MINIMALDATA, mx)
        acc = True
    except Exception as e:  # noqa: BLE001
        if common.err_class(e) != "value":
            return False, f"_to_num raised {type(e).__name__}"
        acc = False
    # Core: size <= max and not ((last & 0x7f) == 0 and (size <= 1 or (prev & 0x80) == 0))
    want = len(b) <= mx and not (b and (b[-1] & 0x7F) == 0 and (len(b) <= 1 or (b[-2] & 0x80) == 0))
    ok = acc == want and (not acc or utils.encode_num(x) == b)
    return ok, f"b={b.hex()} max={mx} accepted={acc} core={want}"


def _o_bool(w):
    b = bytes.fromhex(w["b"])
    got = OPC._to_bool(b)
    want = any(b[:-1]) or (len(b) > 0 and b[-1] not in (0, 0x80))
    return got == want, f"b={b.hex()} _to_bool={got} CastToBool={want}"


def _o_spans(w):
    b = bytes.fromhex(w["b"])
    try:
        sp = list(S.op_code_spans(b))
    except Exception as e:  # noqa: BLE001
        return False, f"op_code_spans raised {type(e).__name__}"
    pos = 0
    for o, s, e in sp:
        if s != pos or e <= s or b[s] != o:
            return False, f"span {(o, s, e)} does not continue at {pos}"
        pos = e
    tail = b[pos:]
    # what is left is unreadable: empty, or a push running past the end
    if tail and not (0 < tail[0] <= 78):
        return False, f"walk stopped at byte {pos} on op code {tail[0]:#x}"
    # parse/serialize: the commands of a script without unreadable tail and with minimal pushes round-trip
    cmds = S.parse(b)
    if tail:
        return cmds[-1] == S.ERROR_COMMAND, f"tail {tail.hex()} parse={cmds[-1:]}"
    minimal = all(e - s == len(S.serialize([b[e - _dl(o, b, s):e]])) if 0 < o <= 78 else True for o, s, e in sp)
    if minimal:
        return S.serialize(cmds) == b, f"serialize(parse(b)) != b for {b.hex()[:120]}"
    # a non-minimal push comes back minimal (`4c00` as OP_0): idempotent from there on
    again = S.serialize(cmds)
    return S.serialize(S.parse(again)) == again, "serialize(parse(.)) is not idempotent"


def _core_is_push_only(b: bytes) -> bool:
    """CScript::IsPushOnly over an own transcription of GetScriptOp (nothing of btclib's parser)"""
    pc = 0
    while pc < len(b):
        o = b[pc]
        pc += 1
        if 0 < o <= 78:
            if o < 76:
                n = o
            else:
                w = 1 << (o - 76)
                if len(b) - pc < w:
                    return False
                n = int.from_bytes(b[pc:pc + w], "little")
                pc += w
            if len(b) - pc < n:
                return False
            pc += n
        if o > 0x60:
            return False
    return True


def _o_push_only(w):
    b = bytes.fromhex(w["b"])
    want = _core_is_push_only(b)
    got = impl("bt.pushonly " + hx(b))
    if got != f"ok {want}":
        return False, f"validate_push_only({b.hex()[:160]}) -> {got}, IsPushOnly = {want}"
    # the flag route: _check_script_sig_policy under SIGPUSHONLY alone refuses exactly the same scripts
    try:
        ENG._check_script_sig_policy(b, ScriptFlag.SIGPUSHONLY)
        pol = True
    except BTClibValueError:
        pol = False
    except Exception as e:  # noqa: BLE001
        return False, f"_check_script_sig_policy raised {type(e).__name__}"
    if pol != want:
        return False, f"_check_script_sig_policy(SIGPUSHONLY) on {b.hex()[:160]} -> {pol}, IsPushOnly = {want}"
    try:
        ENG._check_script_sig_policy(b, NO_FLAGS)
    except Exception as e:  # noqa: BLE001
        return False, f"_check_script_sig_policy(NO_FLAGS) raised {type(e).__name__}"
    return True, ""


def _o_annex(w):
    st = [bytes.fromhex(x) for x in w["stack"]]
    wit = Witness(st)
    before = tuple(wit.stack)
    annex, rest = ENG.taproot_get_annex(wit)
    has = len(st) >= 2 and len(st[-1]) > 0 and st[-1][0] == 0x50      # BIP341
    want = (st[-1], st[:-1]) if has else (b"", st)
    if (annex, rest) != want:
        return False, f"taproot_get_annex({[x.hex() for x in st]}) = {(annex.hex(), [x.hex() for x in rest])}"
    return tuple(wit.stack) == before, "taproot_get_annex wrote to the witness"


def push_only_scripts(rng, n):
    """mostly push-only byte strings: pushes of every width and minimality, OP_1NEGATE..OP_16 and OP_RESERVED; then one
    operator inserted, a byte flipped, or the end cut (an unreadable last push)"""
    out = [b"", b"\x00", b"\x50", b"\x60", b"\x61", b"\x4c", b"\x4c\x01", b"\x01", b"\x4e\x00\x00\x00\x00", b"\xff",
           b"\x51\x61", b"\x01\x61", b"\x4d\x01\x00\x61", b"\x4d\x02\x00\x61", b"\x02\x4e\x73\x51"]
    while len(out) < n:
        parts = []
        for _ in range(rng.randrange(0, 7)):
            r = rng.random()
            if r < 0.3:
                parts.append(bytes([rng.choice([0, *range(0x4f, 0x61)])]))
            else:
                ln = rng.choice([0, 1, 2, 3, 20, 33, 72, 75, 76, 80, 255, 256, 300])
                parts.append(G.push(G.rand_bytes(rng, ln), rng.choice([None, None, None, 76, 77, 78])))
        b = b"".join(parts)
        r = rng.random()
        if r < 0.15:
            k = rng.randrange(len(b) + 1)
            b = b[:k] + bytes([rng.randrange(0x61, 0x100)]) + b[k:]
        elif r < 0.3 and b:
            k = rng.randrange(len(b))
            b = b[:k] + bytes([b[k] ^ (1 << rng.randrange(8))]) + b[k + 1:]
        elif r < 0.45 and b:
            b = b[: rng.randrange(len(b))]
        elif r < 0.5:
            b = G.rand_bytes(rng, rng.randrange(6))
        out.append(b)
    return out[:max(n, 20)]


def annex_stacks(rng, n):
    out = [[], [b""], [b"\x50"], [b"", b""], [b"\x01", b"\x50"], [b"\x50", b"\x50"], [b"\x01", b""], [b"\x01", b"\x51"],
           [b"\x50\x01", b"\x02", b"\x50" + b"\x00" * 40], [b"\x01", b"\x00\x50"]]
    while len(out) < n:
        st = [G.rand_bytes(rng, rng.choice([0, 1, 2, 32, 33, 64, 65])) for _ in range(rng.randrange(0, 5))]
        if st and rng.random() < 0.6:
            k = rng.choice([-1, -1, -1, 0])
            st[k] = rng.choice([b"\x50", b"\x50" + st[k], b"\x51" + st[k], b"", b"\x00\x50"])
        out.append(st)
    return out[:max(n, 10)]


def _dl(o, b, s):
    """data length of the push at s"""
    if o < 76:
        return o
    w = 1 << (o - 76)
    return int.from_bytes(b[s + 1:s + 1 + w], "little")


ORACLES = {
    "num.roundtrip": _o_num_roundtrip,
    "num.minimal": _o_num_minimal,
    "bool.casttobool": _o_bool,
    "parse.spans": _o_spans,
    "engine.invariants": SP.o_engine_invariants,
    "pushonly.core": _o_push_only,
    "annex.bip341": _o_annex,
}


# ------------------------------------------------------------------ specification streams
def spec(ctx, name, lines, classify=None, nontrivial=None):
    """Real engine vs the Lean transcription of Core: a difference is a property finding.

    The model may answer `need <query>`: the harness answers the signature oracle (SP.answer) and re-asks."""
    if not lines:
        return
    impl_out = [impl(ln) for ln in lines]
    work = list(lines)
    outs = [None] * len(lines)
    pending = list(range(len(lines)))
    for _round in range(48):
        res = ctx.model(EXE, [work[i] for i in pending])
        if res is None:
            break
        nxt = []
        for i, r in zip(pending, res):
            if r.startswith("need "):
                work[i] = SP.answer(work[i], r[5:])
                nxt.append(i)
            else:
                outs[i] = r
        pending = nxt
        if not pending:
            break
    st = ctx.streams.setdefault(name, {"cases": 0, "mismatches": 0, "model": EXE})
    st["cases"] += len(lines)
    for i, ln in enumerate(lines):
        io = impl_out[i]
        nt = nontrivial(ln, io) if nontrivial else True
        ctx.seen(name, ln, nt)
        ctx.count(name, io.split(" ")[0] + ("" if io.startswith("ok") else " " + " ".join(io.split(" ")[1:2])))
        if outs[i] is None:
            if res is None:
                continue
            raise common.HarnessError(f"oracle protocol did not converge on `{ln[:200]}`")
        ctx.traces += 1
        if outs[i] != io:
            st["mismatches"] += 1
            key = classify(work[i], io, outs[i]) if classify else name
            ctx.fail("property", name, f"engine and Core transcription differ on `{ln[:400]}`", key=key,
                     op_line=ln, impl=io[:1000], model=outs[i][:1000])
    if lines:
        ctx.sample({"stream": name, "op": lines[0][:300], "impl": impl_out[0][:200], "model": (outs[0] or "")[:200]})


def core_vectors(ctx):
    """Validate the transcription on Core's own vectors: verdict *and* error code."""
    vecs = SP.core_script_vectors()
    lines = [v["line"] for v in vecs]
    work = list(lines)
    outs = [None] * len(lines)
    pending = list(range(len(lines)))
    for _ in range(64):
        res = ctx.model(EXE, [work[i] for i in pending])
        if res is None:
            return
        nxt = []
        for i, r in zip(pending, res):
            if r.startswith("need "):
                work[i] = SP.answer(work[i], r[5:], vec=vecs[i])
                nxt.append(i)
            else:
                outs[i] = r
        pending = nxt
        if not pending:
            break
    st = ctx.streams.setdefault("core.script_tests", {"cases": 0, "mismatches": 0, "model": EXE})
    for v, out in zip(vecs, outs):
        st["cases"] += 1
        ctx.seen("core.script_tests", v["line"], True)
        ctx.count("core.script_tests", v["expect"])
        want = "ok" if v["expect"] == "OK" else "err " + SP.ERRNAME.get(v["expect"], v["expect"])
        ctx.traces += 1
        if out != want:
            st["mismatches"] += 1
            # the specification itself is off: not a finding about btclib, a defect of the model (correspondence kind)
            ctx.fail("correspondence", "core.script_tests",
                     f"Core vector #{v['index']} expects {want}, transcription says {out}: {v['comment'][:120]}",
                     key="core.script_tests", op_line=v["line"][:600], impl=want, model=out)


SIG_OPS = (0xAC, 0xAD, 0xAE, 0xAF)


def _scope_before(script: bytes) -> bool:
    """`Sim.covered` as it stood at commit 87ac95f (before the signature op codes entered it): every instruction of
    Core's walk except OP_CHECKSIG, OP_CHECKSIGVERIFY, OP_CHECKMULTISIG, OP_CHECKMULTISIGVERIFY"""
    return not any(o in SIG_OPS for o, _, _ in S.op_code_spans(script))


def bt_stream(ctx, name, lines, legacy=True):
    """the btclib-shaped Lean model against the real engine (correspondence).  `op_checksig` of the model is Core's
    per-signature sequence over a checker the harness answers (`need <query>` protocol, as for the `core.*` streams), so a
    difference that a predicate on the input recognises as one of the recorded divergence classes of btclib's
    `op_checksig` is a property finding under that key; every other difference is a correspondence failure."""
    work = list(lines)
    outs = [None] * len(lines)
    pending = list(range(len(lines)))
    for _round in range(48):
        res = ctx.model(EXE, [work[i] for i in pending])
        if res is None:
            return
        nxt = []
        for i, r in zip(pending, res):
            if r.startswith("need "):
                work[i] = SP.answer(work[i], r[5:])
                nxt.append(i)
            else:
                outs[i] = r
        pending = nxt
        if not pending:
            break
    if pending:
        raise common.HarnessError(f"oracle protocol did not converge on `{lines[pending[0]][:200]}`")
    st = ctx.streams.setdefault(name, {"cases": 0, "mismatches": 0, "model": EXE})
    n_uns = 0
    for i, ln in enumerate(lines):
        if outs[i] == "unsupported":
            n_uns += 1
            continue
        io = impl(ln)
        st["cases"] += 1
        ctx.seen(name, ln, not io.startswith("err"))
        ctx.count(name, " ".join(io.split(" ")[:1 if not io.startswith("err") else 2]))
        ctx.traces += 1
        if outs[i] != io:
            st["mismatches"] += 1
            key = None
            if len(ln.split(" ")) > 8:
                key = SP.classify_eval(SP.bt_as_eval(work[i]), io, outs[i])
            if not legacy and key not in SP.KNOWN_CLASSES:
                key = None
            if key in SP.KNOWN_CLASSES:
                ctx.fail("property", name, f"engine and btclib-shaped model over Core's per-signature sequence differ on `{ln[:400]}`",
                         key=key, op_line=ln, impl=io[:1000], model=outs[i][:1000])
            else:
                ctx.fail("correspondence", name, f"model and implementation differ on `{ln[:300]}`", key=name,
                         op_line=ln, impl=io[:2000], model=outs[i][:2000])
    if lines:
        ctx.sample({"stream": name, "op": lines[0][:300], "impl": impl(lines[0])[:300], "model": (outs[0] or "")[:300]})
    ctx.count(name + ".coverage", "unsupported", n_uns)
    ctx.count(name + ".coverage", "covered", len(lines) - n_uns)
    if not legacy:
        names = {0xAC: "OP_CHECKSIG", 0xAD: "OP_CHECKSIGVERIFY", 0xBA: "OP_CHECKSIGADD", 0xAB: "OP_CODESEPARATOR"}
        for ln, o in zip(lines, outs):
            try:
                ops = {op for op, _, _ in S.op_code_spans(unhx(ln.split(" ")[2]))} & set(names)
            except Exception:  # noqa: BLE001
                ops = set()
            for op in ops:
                ctx.count(name + ".sigops", f"{names[op]}:{'accepted' if o == 'ok' else 'refused'}")
        return
    # what fraction of the generated programs lies inside the set the loop-level theorem
    # `btclib_eval_refines_core_partial` speaks about (`Sim.covered`, decided by the driver), and inside the set it
    # spoke about before the signature op codes entered it
    cov = ctx.model(EXE, ["btcovered " + ln.split(" ")[3] for ln in lines]) or []
    n_in = sum(1 for o in cov if o == "ok True")
    n_before = sum(1 for ln in lines if _scope_before(unhx(ln.split(" ")[3])))
    ctx.count(name + ".theorem-scope", "inside", n_in)
    ctx.count(name + ".theorem-scope", "outside", len(cov) - n_in)
    ctx.count(name + ".theorem-scope", "inside before the signature op codes (87ac95f)", n_before)
    ctx.note(f"{name}: {n_in}/{len(cov)} generated programs satisfy Sim.covered (scope of btclib_eval_refines_core_partial); "
             f"{n_before}/{len(cov)} did before the signature op codes were covered")
    # which signature op codes ran to their success / failure answer in the model: last stack element of a `…CHECKSIG` program
    for ln, o in zip(lines, outs):
        sc = unhx(ln.split(" ")[3])
        ops = {op for op, _, _ in S.op_code_spans(sc)} & set(SIG_OPS)
        for op in ops:
            ctx.count(name + ".sigops", f"{S.OP_CODE_NAME_FROM_INT[op]}:{'accepted' if o.startswith('ok') else 'refused'}")


def tx_vectors(ctx):
    """Core's tx_valid / tx_invalid through the transcription (must give Core's verdict: validation of the
    specification) and through the real engine (must agree with the transcription input by input)."""
    from btclib.script import engine as E
    vecs = SP.core_tx_vectors()
    work = [v["line"] for v in vecs]
    outs = [None] * len(vecs)
    pending = list(range(len(vecs)))
    for _ in range(64):
        res = ctx.model(EXE, [work[i] for i in pending])
        if res is None:
            return
        nxt = []
        for i, r in zip(pending, res):
            if r.startswith("need "):
                work[i] = SP.answer(work[i], r[5:], vec=vecs[i])
                nxt.append(i)
            else:
                outs[i] = r
        pending = nxt
        if not pending:
            break
    st = ctx.streams.setdefault("core.tx_vectors", {"cases": 0, "mismatches": 0, "model": EXE})
    st2 = ctx.streams.setdefault("core.tx_vectors.engine", {"cases": 0, "mismatches": 0, "model": EXE})
    groups = {}
    for v, out, ln in zip(vecs, outs, work):
        groups.setdefault((v["file"], v["index"]), []).append(out)
        # the real engine on the same input
        try:
            E.verify_input(v["prevouts"], v["tx"], v["i"], SP.flags_of(v["flags"]))
            io = "ok"
        except Exception as e:  # noqa: BLE001
            io = SP._refusal(e, True)
        st2["cases"] += 1
        ctx.seen("core.tx_vectors.engine", v["line"], True)
        ctx.count("core.tx_vectors.engine", io)
        ctx.traces += 1
        if io != out:
            st2["mismatches"] += 1
            key = SP.classify_vector(ln, io, out, v)
            ctx.fail("property", "core.tx_vectors.engine",
                     f"engine and Core transcription differ on input {v['i']} of {v['file']} #{v['index']}",
                     key=key, op_line=v["line"][:3000], impl=io, model=out)
    for (fname, index), os_ in groups.items():
        st["cases"] += 1
        ctx.seen("core.tx_vectors", f"{fname}#{index}", True)
        all_ok = all(o == "ok" for o in os_)
        want = fname == "tx_valid.json"
        ctx.count("core.tx_vectors", fname + (":ok" if all_ok else ":refused"))
        ctx.traces += 1
        if all_ok != want:
            st["mismatches"] += 1
            ctx.fail("correspondence", "core.tx_vectors",
                     f"Core vector {fname} #{index} expects {'valid' if want else 'invalid'}, transcription says {os_}",
                     key="core.tx_vectors", op_line=f"{fname}#{index}", impl=str(want), model=str(os_))


def run(ctx):
    rng = ctx.rng
    shared.validate_hashes(ctx, EXE)

    # ---- layer 1: numbers and booleans
    ints = common.boundary_ints(rng, extra=[2**31, 2**39, 2**63, 2**15, 2**7, 2**23, 16, 17])
    ints += [common.rand_int(rng, 66) for _ in range(ctx.n(300))]
    for i in ints:
        ctx.check("num.roundtrip", {"i": i}, nontrivial=-2**63 <= i < 2**63)
    ctx.stream("num.encode", [f"num.encode {i}" for i in ints])
    spec(ctx, "core.num.encode", [f"corenum.encode {i}" for i in ints], lambda *_: "encode_num_vs_core")
    blobs = G.number_blobs(rng, ctx.n(1500))
    ctx.stream("num.decode", [f"num.decode {hx(b)}" for b in blobs])
    ctx.stream("num.tobool", [f"num.tobool {hx(b)}" for b in blobs])
    spec(ctx, "core.num.tobool", [f"corenum.tobool {hx(b)}" for b in blobs], lambda *_: "to_bool_vs_core")
    tn = [f"{hx(b)} {rng.randrange(2)} {rng.choice([4, 4, 5, *range(11)])}" for b in blobs]
    # 9-byte minimal encodings of values outside int64: `encode_num` inside `_to_num` refuses them
    for v in (2**63, -(2**63) - 1, 2**64, 2**71 - 1, -(2**71) + 1, 2**63 - 1, -(2**63)):
        for mx in (8, 9, 10):
            tn.append(f"{hx(G.enc(v))} 1 {mx}")
            tn.append(f"{hx(G.enc(v))} 0 {mx}")
    ctx.stream("num.tonum", ["num.tonum " + x for x in tn])
    # Core's CScriptNum is the specification up to 8 bytes (Props: to_num_is_CScriptNum, to_num_differs_at_nine_bytes)
    spec(ctx, "core.num.tonum", ["corenum.tonum " + x for x in tn if int(x.split(" ")[2]) <= 8],
         lambda *_: "to_num_vs_core")
    for b in blobs[: ctx.n(600)]:
        ctx.check("num.minimal", {"b": b.hex(), "max": rng.choice([4, 5])})
        ctx.check("bool.casttobool", {"b": b.hex()})

    # ---- layer 2: spans
    scripts = G.byte_scripts(rng, ctx.n(1500))
    ctx.stream("parse.spans", [f"parse.spans {hx(b)}" for b in scripts])
    spec(ctx, "core.parse.getop", [f"parse.getop {hx(b)}" for b in scripts], lambda *_: "op_code_spans_vs_getop")
    for b in scripts[: ctx.n(700)]:
        ctx.check("parse.spans", {"b": b.hex()})
    fad = G.fad_cases(rng, ctx.n(400))
    spec(ctx, "core.find_and_delete", [f"fad {hx(s)} {hx(t)}" for s, t in fad], lambda *_: "find_and_delete_vs_core")

    # ---- VerifyScript shell helpers: validate_push_only = IsPushOnly, taproot_get_annex = Core's annex rule (Props T6)
    po = push_only_scripts(rng, ctx.n(1200)) + scripts[: ctx.n(300)]
    ctx.stream("bt.pushonly", [f"bt.pushonly {hx(b)}" for b in po])
    spec(ctx, "core.pushonly", [f"core.pushonly {hx(b)}" for b in po], lambda *_: "push_only_vs_core")
    for b in po[: ctx.n(700)]:
        ctx.check("pushonly.core", {"b": b.hex()}, nontrivial=_core_is_push_only(b) and len(b) > 0)
    ax = annex_stacks(rng, ctx.n(400))
    ctx.stream("bt.annex", [f"bt.annex {SP.hexlist(st)}" for st in ax])
    spec(ctx, "core.annex", [f"core.annex {SP.hexlist(st)}" for st in ax], lambda *_: "annex_vs_core")
    for st in ax[: ctx.n(300)]:
        ctx.check("annex.bip341", {"stack": [x.hex() for x in st]},
                  nontrivial=len(st) >= 2 and st[-1][:1] == b"\x50")

    # ---- spec validation on Core's vectors
    core_vectors(ctx)
    tx_vectors(ctx)

    # ---- layer 4: EvalScript, signature-free programs
    SP.run_eval(ctx, spec)

    # ---- T3 chain: real engine ~ btclib-shaped model (the refinement to Core.eval is proved family by family)
    SP.run_bt(ctx, bt_stream)

    # ---- layer 5: VerifyScript shell
    SP.run_verify(ctx, spec)


def replay(ctx, rec):
    """`./check C08 --replay <file>`: re-execute one recorded op line (signature oracle answered on the way)
    or one oracle witness on the current tree."""
    res = {"still_fails": False}
    if rec.get("property_oracle"):
        w = rec["property_oracle"]
        ok, detail = ORACLES[w["oracle"]](w["witness"])
        res.update(oracle=w["oracle"], ok=ok, detail=detail, still_fails=not ok)
    elif rec.get("op_line"):
        line = rec["op_line"]
        io = impl(line)
        t = line.split(" ")
        mo = SP.resolve_model(line) if t[0] in ("eval", "execwit", "verify") else (ctx.model(EXE, [line]) or [None])[0]
        res.update(op_line=line[:2000], impl=io, model=mo, still_fails=mo is None or mo != io)
    else:
        res["note"] = "record names obligations/streams only; re-run the check itself"
        res["still_fails"] = bool(ctx.broken)
    return res
