"""C19 generators: argument specs (JSON-able, never deep), mutators of bytes / text / JSON, seed corpora.

A *spec* is what the harness passes around and records as a replay: plain JSON scalars, and
    {"b": hex}            bytes
    {"io": hex}           a caller-supplied BytesIO over these bytes
    {"ba": hex}           a bytearray
    {"mv": hex} {"mvw": hex}   a memoryview over bytes (read-only) / over a bytearray (writable)
    {"l": [...]} {"t": [...]}   list / tuple of specs
    {"d": [[k, v], ...]}  dict of specs
    {"deep": [kind, depth, leaf]}   kind 'list' | 'dict': nesting built iteratively at call time
    {"rep": [open, n, mid, close]}  the text open*n + mid + close*n  (nesting to depth n)
    {"obj": [class name, hex]}  a btclib object parsed back (check_validity=False) from its serialization
    {"dec": "…"}          decimal.Decimal
    {"flag": n}           script.engine.flags.ScriptFlag(n)
    {"call": [dotted name, [arg specs], {kw specs}]}   the object a btclib constructor returns
`materialize` turns a spec into the Python value, `spec_of` goes back where that is possible.
"""
from __future__ import annotations

import base64
import importlib
import json
import os
from decimal import Decimal
from io import BytesIO

TESTS = "/repo/tests"

BOUNDARY = [0, 1, 0x7F, 0x80, 0xFC, 0xFD, 0xFFFF, 0x10000, 2**32 - 1, 2**32, 2**64 - 1]
BOUNDARY_BYTES = [0x00, 0x01, 0x7F, 0x80, 0xFC, 0xFD, 0xFE, 0xFF]
# lengths of decimal digit runs around CPython's int()/str() conversion limit (4300 digits) and far above it:
# `int("9" * 4301)` is a bare ValueError unless the parser bounds the field first
DIGIT_RUNS = [4299, 4300, 4301, 10**4, 10**5]


def digit_run(rng):
    n = rng.choice(DIGIT_RUNS)
    d = rng.choice("19")
    return rng.choice(["", "", "-", "0", "+"]) + d * n


# ----------------------------------------------------------------------------- specs
def B(b):
    return {"b": bytes(b).hex()}


def IO(b):
    return {"io": bytes(b).hex()}


def L(xs):
    return {"l": list(xs)}


def T(xs):
    return {"t": list(xs)}


def D(pairs):
    return {"d": [[k, v] for k, v in pairs]}


_OBJ_CLASSES = {}


def _cls(name):
    if name not in _OBJ_CLASSES:
        mod, _, attr = name.rpartition(".")
        _OBJ_CLASSES[name] = getattr(importlib.import_module(mod), attr)
    return _OBJ_CLASSES[name]


class _IntSub(int):
    """an int subclass: what a declared `int` parameter admits besides int itself"""


class _BytesSub(bytes):
    pass


class _StrSub(str):
    pass


_ENUMS = {}


def _int_enum(n):
    import enum
    if n not in _ENUMS:
        _ENUMS[n] = enum.IntEnum(f"E{len(_ENUMS)}", {"M": n}).M
    return _ENUMS[n]


class ArgBuild(Exception):
    """an argument object could not be built: the constructor `name` raised `exc` on (mutated) arguments"""

    def __init__(self, name, exc):
        super().__init__(f"{name}: {type(exc).__name__}: {exc}")
        self.name, self.exc = name, exc


def materialize(s):
    if isinstance(s, dict):
        if "b" in s:
            return bytes.fromhex(s["b"])
        if "io" in s:
            return BytesIO(bytes.fromhex(s["io"]))
        if "ba" in s:
            return bytearray(bytes.fromhex(s["ba"]))
        if "mv" in s:                       # read-only memoryview
            return memoryview(bytes.fromhex(s["mv"]))
        if "mvw" in s:                      # memoryview over a writable buffer
            return memoryview(bytearray(bytes.fromhex(s["mvw"])))
        if "l" in s:
            return [materialize(x) for x in s["l"]]
        if "t" in s:
            return tuple(materialize(x) for x in s["t"])
        if "d" in s:
            return {materialize(k): materialize(v) for k, v in s["d"]}
        if "deep" in s:
            kind, depth, leaf = s["deep"]
            v = materialize(leaf)
            for _ in range(depth):
                v = [v] if kind == "list" else {"a": v}
            return v
        if "deep2" in s:                    # a binary spine of two-element lists (side left | right), built iteratively
            side, depth, leaf = s["deep2"]
            v = materialize(leaf)
            for _ in range(depth):
                v = [v, materialize(leaf)] if side == "left" else [materialize(leaf), v]
            return v
        if "rep" in s:
            o, n, mid, c = s["rep"]
            return o * n + mid + c * n
        if "obj" in s:
            name, hx = s["obj"]
            c = _cls(name)
            try:
                try:
                    return c.parse(bytes.fromhex(hx), check_validity=False)
                except TypeError:
                    return c.parse(bytes.fromhex(hx))
            except Exception as e:  # noqa: BLE001
                raise ArgBuild(name + ".parse", e) from e
        if "isub" in s:                     # an int SUBCLASS instance (declared `int` admits it)
            return _IntSub(s["isub"])
        if "ienum" in s:                    # an IntEnum member
            return _int_enum(s["ienum"])
        if "bsub" in s:                     # a bytes subclass instance
            return _BytesSub(bytes.fromhex(s["bsub"]))
        if "ssub" in s:                     # a str subclass instance
            return _StrSub(s["ssub"])
        if "hf" in s:                       # a hash constructor (HashF = Callable[[], HashObject])
            import hashlib
            return getattr(hashlib, s["hf"])
        if "curve" in s:                    # a catalogue curve
            from btclib.curves import curve as _cv
            return _cv.CURVES[s["curve"]]
        if "iter" in s:                     # a one-shot iterator (Iterable[...])
            return iter([materialize(x) for x in s["iter"]])
        if "set" in s:
            return {materialize(x) for x in s["set"]}
        if "dec" in s:
            return Decimal(s["dec"])
        if "flag" in s:
            from btclib.script.engine.flags import ScriptFlag
            return ScriptFlag(s["flag"])
        if "call" in s:                     # an object built by calling a btclib constructor / function
            name, cargs, ckw = s["call"]
            parts = name.split(".")
            f = None
            for i in range(len(parts), 0, -1):
                try:
                    f = importlib.import_module(".".join(parts[:i]))
                except ImportError:
                    continue
                for a in parts[i:]:
                    f = getattr(f, a)
                break
            ca = [materialize(x) for x in cargs]
            ck = {k: materialize(v) for k, v in ckw.items()}
            try:
                return f(*ca, **ck)
            except Exception as e:  # noqa: BLE001 - the constructor's own answer to hostile arguments
                raise ArgBuild(name, e) from e
        raise ValueError(f"bad spec {list(s)[:3]}")
    return s


def spec_of(v, depth=0):
    """best-effort inverse of materialize for plain values (JSON documents, bytes, …)."""
    if depth > 60:
        raise ValueError("too deep for a spec")
    if isinstance(v, (bytes, memoryview)):
        return B(bytes(v))
    if isinstance(v, bytearray):
        return {"ba": bytes(v).hex()}
    if isinstance(v, BytesIO):
        return IO(v.getvalue())
    if isinstance(v, list):
        return L(spec_of(x, depth + 1) for x in v)
    if isinstance(v, tuple):
        return T(spec_of(x, depth + 1) for x in v)
    if isinstance(v, dict):
        return D((spec_of(k, depth + 1), spec_of(x, depth + 1)) for k, x in v.items())
    if isinstance(v, Decimal):
        return {"dec": str(v)}
    if v is None or isinstance(v, (bool, int, float, str)):
        return v
    ser = getattr(v, "serialize", None)
    if ser is not None:
        try:
            b = ser(check_validity=False)
        except TypeError:
            b = ser()
        return {"obj": [type(v).__module__ + "." + type(v).__qualname__, b.hex()]}
    raise ValueError(f"no spec for {type(v).__name__}")


def short(spec, n=240):
    s = json.dumps(spec, default=str)
    return s if len(s) <= n else s[:n] + f"…({len(s)} chars)"


# ----------------------------------------------------------------------------- CompactSize
def varint(n):
    if n < 0xFD:
        return bytes([n])
    if n <= 0xFFFF:
        return b"\xfd" + n.to_bytes(2, "little")
    if n <= 0xFFFFFFFF:
        return b"\xfe" + n.to_bytes(4, "little")
    return b"\xff" + n.to_bytes(8, "little")


def varint_any(n, rng=None):
    """possibly non-minimal encodings too"""
    forms = [varint(n)]
    if n <= 0xFFFF:
        forms.append(b"\xfd" + n.to_bytes(2, "little"))
    if n <= 0xFFFFFFFF:
        forms.append(b"\xfe" + n.to_bytes(4, "little"))
    forms.append(b"\xff" + n.to_bytes(8, "little"))
    return rng.choice(forms) if rng else forms


# ----------------------------------------------------------------------------- byte mutations
def field_edits(b: bytes, off: int):
    """every boundary value written at offset `off` as: one byte, a CompactSize replacing one byte,
    a 2/4/8-byte little-endian field, a 4-byte big-endian field (structure-aware without knowing the
    structure: every field of the encoding starts at some offset)."""
    out = []
    for v in BOUNDARY_BYTES:
        out.append(b[:off] + bytes([v]) + b[off + 1:])
    for v in BOUNDARY:
        out.append(b[:off] + varint(v) + b[off + 1:])
        for w in (2, 4, 8):
            if v < 256 ** w and off + w <= len(b):
                out.append(b[:off] + v.to_bytes(w, "little") + b[off + w:])
        if v < 2**32 and off + 4 <= len(b):
            out.append(b[:off] + v.to_bytes(4, "big") + b[off + 4:])
    return out


def mutate_bytes(rng, b: bytes, others=()):
    n = len(b)
    r = rng.random()
    if n == 0:
        return bytes(rng.getrandbits(8) for _ in range(rng.choice([0, 1, 2, 9])))
    if r < 0.36:
        return rng.choice(field_edits(b, rng.randrange(n)))
    if r < 0.40:
        return b[rng.randrange(n + 1):]                        # a prefix dropped
    if r < 0.55:
        return b[:rng.randrange(n + 1)]                       # truncation at any offset
    if r < 0.63:
        tail = rng.choice([b"\x00", b"\xff", b"\x00" * 9, bytes(rng.getrandbits(8) for _ in range(rng.randrange(1, 40))),
                           b[:rng.randrange(n + 1)], b])
        return b + tail                                        # extension
    if r < 0.70:
        i = rng.randrange(n)
        return b[:i] + bytes([b[i] ^ (1 << rng.randrange(8))]) + b[i + 1:]
    if r < 0.77:
        i, j = sorted((rng.randrange(n + 1), rng.randrange(n + 1)))
        return b[:i] + b[j:]                                   # chunk removed
    if r < 0.84:
        i, j = sorted((rng.randrange(n + 1), rng.randrange(n + 1)))
        return b[:j] + b[i:j] * rng.choice([1, 2, 5]) + b[j:]  # chunk repeated
    if r < 0.90 and others:
        o = rng.choice(others)
        i = rng.randrange(n + 1)
        return b[:i] + o[rng.randrange(len(o) + 1):]           # splice with another seed
    if r < 0.95:
        i = rng.randrange(n)
        k = rng.randrange(1, 9)
        return b[:i] + bytes(rng.getrandbits(8) for _ in range(k)) + b[i + k:]
    i = rng.randrange(n)
    return b[:i] + bytes([rng.choice(BOUNDARY_BYTES)]) * rng.choice([2, 4, 8, 33]) + b[i:]


def random_bytes(rng):
    n = rng.choice([0, 1, 2, 3, 4, 5, 8, 9, 10, 20, 24, 32, 33, 36, 41, 64, 65, 78, 80, 81, 100, 200, 512])
    k = rng.random()
    if k < 0.15:
        return bytes([rng.choice(BOUNDARY_BYTES)]) * n
    if k < 0.3:
        return bytes(rng.choice(BOUNDARY_BYTES) for _ in range(n))
    return bytes(rng.getrandbits(8) for _ in range(n))


# ----------------------------------------------------------------------------- text mutations
EDGE_CHARS = ["\x00", "\n", "\r", "\t", " ", " ", "é", "İ", "ß", "１", "٣", " ",
              "​", "﻿", "\U0001f600", "\ud800", "\udfff", "́", "'", '"', "\\", "#", "/", "*", "<", ">",
              "(", ")", "{", "}", "[", "]", ",", ":", ";", "@", "%", "-", "+", "=", "1", "0", "l", "O", "I", "b", "q"]
EDGE_STRINGS = ["", " ", "\x00", "\n", "0", "-1", "1" * 400, "a" * 10000, "é", "\ud800", "\U0001f600" * 3, "１２",
                "٣٤", "0x", "0x10", "1e3", "NaN", "None", "null", "true", "İ", "ß", "ǅ", "bc1", "1", "xpub", "m/", "m",
                "‮", "%00", "%zz", "\\x00", "[", "]", "(", ")", "#", "()", "pk()", "\x7f", "\x80"]


def mutate_text(rng, s: str, others=()):
    n = len(s)
    r = rng.random()
    if n == 0:
        return rng.choice(EDGE_STRINGS)
    if r < 0.05:
        # a decimal field far beyond int()'s limit: in place of a digit run, or inserted anywhere
        import re
        m = list(re.finditer(r"\d+", s))
        if m and rng.random() < 0.75:
            k = rng.choice(m)
            return s[:k.start()] + digit_run(rng) + s[k.end():]
        i = rng.randrange(n + 1)
        return s[:i] + digit_run(rng) + s[i:]
    if r < 0.22:
        i = rng.randrange(n)
        return s[:i] + rng.choice(EDGE_CHARS) + s[i + 1:]
    if r < 0.36:
        i = rng.randrange(n + 1)
        return s[:i] + rng.choice(EDGE_CHARS) + s[i:]
    if r < 0.50:
        return s[:rng.randrange(n + 1)]
    if r < 0.58:
        return s[rng.randrange(n + 1):]
    if r < 0.66:
        i, j = sorted((rng.randrange(n + 1), rng.randrange(n + 1)))
        return s[:i] + s[j:]
    if r < 0.73:
        i, j = sorted((rng.randrange(n + 1), rng.randrange(n + 1)))
        return s[:j] + s[i:j] * rng.choice([1, 2, 7]) + s[j:]
    if r < 0.79:
        i = rng.randrange(n)
        c = s[i]
        return s[:i] + (c.upper() if c.islower() else c.lower()) + s[i + 1:]
    if r < 0.83:
        return rng.choice([s.upper(), s.lower(), s.swapcase(), s.title(), " " + s, s + " ", s + "\n", "﻿" + s, s + "\x00"])
    if r < 0.88 and others:
        o = rng.choice(others)
        return s[:rng.randrange(n + 1)] + o[rng.randrange(len(o) + 1):]
    if r < 0.93:
        # a digit run replaced by a boundary number
        import re
        m = list(re.finditer(r"\d+", s))
        if m:
            k = rng.choice(m)
            v = rng.choice(BOUNDARY + [-1, 2**31 - 1, 2**31, 10**30])
            return s[:k.start()] + str(v) + s[k.end():]
        return s + str(rng.choice(BOUNDARY))
    if r < 0.97:
        i = rng.randrange(n)
        return s[:i] + rng.choice(EDGE_CHARS) * rng.choice([2, 10, 300]) + s[i:]
    return rng.choice(EDGE_STRINGS)


def random_text(rng):
    r = rng.random()
    if r < 0.06:
        return digit_run(rng)
    if r < 0.4:
        return rng.choice(EDGE_STRINGS)
    n = rng.choice([1, 2, 5, 10, 34, 62, 90, 111, 300])
    if r < 0.6:
        return "".join(rng.choice(EDGE_CHARS) for _ in range(n))
    if r < 0.8:
        return "".join(rng.choice("0123456789abcdefABCDEF") for _ in range(n))
    return "".join(chr(rng.choice([rng.randrange(32, 127), rng.randrange(0, 0x3000), rng.randrange(0, 0x110000)])) for _ in range(n))


# ----------------------------------------------------------------------------- JSON mutations
def wrong_values(rng):
    return ["9" * 4301, "1" * 10**4, None, True, False, 0, 1, -1, 2**31, 2**32, 2**63, 2**64, -(2**63) - 1, 10**40, 1.5, -0.0, float("inf"), float("nan"), "", " ",
            "zz", "00", "0x00", "ff" * 33, "é", "\ud800", "a" * 5000, [], [[]], [None], [0], ["00"], [1, "a"], {}, {"a": 1}, {"": None},
            {"deep": ["list", 10000, 0]}, {"deep": ["dict", 10000, 0]}, {"deep": ["list", 900, "00"]}]


def json_paths(doc, prefix=()):
    """every position of a JSON document (dict keys and list indexes)"""
    out = [prefix]
    if isinstance(doc, dict) and set(doc) == {"deep"}:
        return out
    if isinstance(doc, dict):
        for k, v in doc.items():
            out += json_paths(v, prefix + (k,))
    elif isinstance(doc, list):
        for i, v in enumerate(doc[:40]):
            out += json_paths(v, prefix + (i,))
    return out


def json_set(doc, path, value, delete=False):
    """copy of doc with the position replaced (or removed)"""
    if not path:
        return value
    k = path[0]
    if isinstance(doc, dict):
        c = dict(doc)
        if len(path) == 1 and delete:
            c.pop(k, None)
        else:
            c[k] = json_set(doc[k], path[1:], value, delete)
        return c
    c = list(doc)
    if len(path) == 1 and delete:
        del c[k]
    else:
        c[k] = json_set(doc[k], path[1:], value, delete)
    return c


def json_spec(doc):
    """a JSON document (which may hold {"deep": …} markers from wrong_values) as a spec"""
    if isinstance(doc, dict):
        if "deep" in doc and len(doc) == 1:
            return doc
        return D((k, json_spec(v)) for k, v in doc.items())
    if isinstance(doc, list):
        return L(json_spec(v) for v in doc)
    if isinstance(doc, tuple):
        return T(json_spec(v) for v in doc)
    if isinstance(doc, (bytes, bytearray)):
        return B(doc)
    return doc


def mutate_json(rng, doc):
    paths = json_paths(doc)
    p = rng.choice(paths)
    r = rng.random()
    if r < 0.62:
        return json_set(doc, p, rng.choice(wrong_values(rng)))
    if r < 0.72 and p:
        return json_set(doc, p, None, delete=True)
    if r < 0.80:
        tgt = doc
        for k in p:
            tgt = tgt[k]
        if isinstance(tgt, dict):
            extra = dict(tgt)
            extra[rng.choice(["", "unknown", "version", "a" * 300, "é", "\ud800"])] = rng.choice(wrong_values(rng))
            return json_set(doc, p, extra)
        if isinstance(tgt, list):
            return json_set(doc, p, tgt + tgt[:1] * rng.choice([1, 300]) + [rng.choice(wrong_values(rng))])
        if isinstance(tgt, str):
            return json_set(doc, p, mutate_text(rng, tgt))
        if isinstance(tgt, bool):
            return json_set(doc, p, rng.choice([0, 1, "true", None]))
        if isinstance(tgt, int):
            return json_set(doc, p, rng.choice(BOUNDARY + [-1, -(2**63), 2**63, 2**31, tgt + 1, -tgt, float(tgt), str(tgt)]))
        return json_set(doc, p, rng.choice(wrong_values(rng)))
    if r < 0.93:
        tgt = doc
        for k in p:
            tgt = tgt[k]
        if isinstance(tgt, str):
            return json_set(doc, p, mutate_text(rng, tgt))
        if isinstance(tgt, int) and not isinstance(tgt, bool):
            return json_set(doc, p, rng.choice(BOUNDARY + [-1, 2**31, 2**63, -(2**31), tgt ^ 1]))
        return json_set(doc, p, rng.choice(wrong_values(rng)))
    return rng.choice(wrong_values(rng))


# ----------------------------------------------------------------------------- vendored seeds
def load_json(*parts):
    with open(os.path.join(TESTS, *parts), encoding="utf8") as f:
        return json.load(f)


def load_bin(*parts):
    with open(os.path.join(TESTS, *parts), "rb") as f:
        return f.read()


def psbt_vectors():
    """every base64 / hex PSBT string in the vendored BIP vectors (valid and invalid)"""
    out = []

    def walk(v):
        if isinstance(v, str):
            if v.startswith("cHNidP"):
                out.append(("b64", v))
            elif v.lower().startswith("70736274ff"):
                out.append(("hex", v))
        elif isinstance(v, dict):
            for x in v.values():
                walk(x)
        elif isinstance(v, list):
            for x in v:
                walk(x)
    for f in ("bip174_test_vectors.json", "bip370_test_vectors.json", "bip371_test_vectors.json",
              "bip373_test_vectors.json", "bip375_test_vectors.json", "btclib_test_vectors.json"):
        try:
            walk(load_json("psbt", "_data", f))
        except OSError:
            pass
    seen, uniq = set(), []
    for k, v in out:
        if v not in seen:
            seen.add(v)
            uniq.append((k, v))
    return uniq


def psbt_bytes():
    out = []
    for k, v in psbt_vectors():
        try:
            out.append(base64.b64decode(v) if k == "b64" else bytes.fromhex(v))
        except ValueError:
            pass
    return out


def tx_hexes(limit=400):
    out = []
    for f in ("tx_valid.json", "tx_invalid.json"):
        try:
            for row in load_json("script_engine", "_data", f):
                if isinstance(row, list) and len(row) == 3 and isinstance(row[1], str):
                    out.append(row[1])
        except OSError:
            pass
    return out[:limit]


def script_hexes():
    out = []
    try:
        for row in load_json("script", "_data", "taproot_test_vector.json").get("scriptPubKey", []):
            out.append(row["expected"]["scriptPubKey"])
    except Exception:  # noqa: BLE001
        pass
    return out


def descriptors_text():
    out = []
    try:
        d = load_json("_data", "descriptor_checksums.json")

        def walk(v):
            if isinstance(v, str) and "(" in v:
                out.append(v)
            elif isinstance(v, dict):
                for x in v.values():
                    walk(x)
            elif isinstance(v, list):
                for x in v:
                    walk(x)
        walk(d)
    except OSError:
        pass
    return out


def miniscripts_text():
    out = []
    try:
        d = load_json("_data", "miniscript_fixed_tests.json")

        def walk(v):
            if isinstance(v, str) and "(" in v and " " not in v:
                out.append(v)
            elif isinstance(v, dict):
                for x in v.values():
                    walk(x)
            elif isinstance(v, list):
                for x in v:
                    walk(x)
        walk(d)
    except OSError:
        pass
    return out


def key_io_strings():
    out = []
    for f in ("key_io_valid.json", "key_io_invalid.json"):
        try:
            for row in load_json("_data", f):
                if isinstance(row, list) and row and isinstance(row[0], str):
                    out.append(row[0])
        except OSError:
            pass
    return out
