"""C17 — block commitments: merkle roots/branches, BIP158 filters, compact blocks, compact targets (DESIGN §3 C17)."""
from __future__ import annotations

import contextlib
import copy
import os
from datetime import datetime, timedelta, timezone

from btclib import hashes
from btclib.block import Block, block_filter, merkle_proof
from btclib.block import proof_of_work as pw
from btclib.block.block_filter import BasicBlockFilter
from btclib.hashes import hash256, merkle_root_and_mutated_from_hashes, merkle_root_from_branch, sha256
from btclib.p2p import compact_blocks as cbm
from btclib.p2p.compact_blocks import CmpctBlock, PrefilledTransaction, reconstruct
from btclib.tx import OutPoint, Tx, TxIn, TxOut

from . import c17_oracles as xo
from . import common
from .common import hx, unhx

PROP = "C17"
EXE = "drv_c17"
GEN_MODULES = ["Pow", "Filter"]
RULE = ("op lines from one seeded PRNG; exhaustive parts: every leaf count 1..40 x every index, every compact exponent "
        "0..34(+corners) x significand corners x sign bit; random parts structure-aware (valid encodings, then truncations "
        "/ bit flips / padding); a case is non-trivial when the implementation did not refuse it; distinct = distinct "
        "(stream, op line)")
TRUSTED = [
    "Model/C17/CorePow.lean is a hand transcription of Bitcoin Core's arith_uint256::SetCompact/GetCompact, "
    "CalculateNextWorkRequired, GetBlockProof (the reference the generated btclib functions are proved equal to)",
    "hand-written models Model/C17/{Merkle,Golomb,Bip158,CompactBlocks}.lean tied by correspondence only",
    "SHA-256 / SipHash-2-4 executable models (Model/Common) are modelled, not verified (validated against hashlib by the hashes builder)",
    "cb.reconstruct stream: compact_blocks._short_id is replaced in-process by a table so that 48-bit collisions can be "
    "forced; the real _short_id is tied separately (cb.shortid)",
    "next_bits: the integer parameter `timespan` stands for int((last - first).total_seconds()) (the translator "
    "substitutes that exact expression; another spelling breaks the obligation); the datetime glue itself is exercised "
    "by the pow.next streams with whole-second UTC datetimes and by the pow.next_bits.tz / .same_zone oracles under four "
    "process time zones (naive and aware datetimes over DST changes) against integer seconds",
    "block.validity: Block.parse / Block(...) take no pow limit; the oracle swaps the DEFAULT ARGUMENT of "
    "Block.assert_valid to regtest for those calls (mined regtest blocks), and uses the untouched default on mainnet "
    "block 481824",
]
ASSUMPTIONS = ["collision resistance of SHA-256d is what merkle soundness reduces to (theorem exhibits the collision)"]

_DATA = "/repo/tests/block/_data"
_T0 = datetime(2021, 3, 4, 5, 6, 7, tzinfo=timezone.utc)
_HASHES = {"h256": hash256, "sha256": sha256}


def _toy(b: bytes) -> bytes:
    out = []
    for i in range(32):
        acc = i + 1
        for k in range((len(b) + 31 - i) // 32):
            j = i + 32 * k
            acc ^= b[j] if j < len(b) else 0
        out.append(acc & 0xFF)
    return bytes(out)


_HASHES["toy"] = _toy


def _csv(items):
    items = list(items)
    return ",".join(items) if items else "_"


def _uncsv(s):
    return [] if s == "_" else s.split(",")


# ------------------------------------------------------------------ reference code kept in the harness
def ref_branch(leaves, i, hf):
    """Core's merkle branch (btclib has the verifier only)."""
    level, out = list(leaves), []
    while len(level) > 1:
        j = i - 1 if i % 2 else i + 1
        out.append(level[j] if j < len(level) else level[i])
        if len(level) % 2:
            level.append(level[-1])
        level = [hf(level[k] + level[k + 1]) for k in range(0, len(level), 2)]
        i //= 2
    return out


U256 = 1 << 256


def core_set_compact(n):
    """arith_uint256::SetCompact, transcribed: (value mod 2^256, fNegative, fOverflow)."""
    size = n >> 24
    word = n & 0x007FFFFF
    if size <= 3:
        word >>= 8 * (3 - size)
        val = word
    else:
        val = (word << (8 * (size - 3))) % U256
    neg = word != 0 and (n & 0x00800000) != 0
    ovf = word != 0 and (size > 34 or (word > 0xFF and size > 33) or (word > 0xFFFF and size > 32))
    return val, neg, ovf


def core_get_compact(v):
    size = (v.bit_length() + 7) // 8
    if size <= 3:
        c = ((v % (1 << 64)) << (8 * (3 - size))) % (1 << 32)
    else:
        c = ((v >> (8 * (size - 3))) % (1 << 64)) % (1 << 32)
    if c & 0x00800000:
        c >>= 8
        size += 1
    return c | ((size << 24) % (1 << 32))


def core_next(nbits, timespan, pow_limit, target_timespan=14 * 24 * 60 * 60):
    t = max(timespan, target_timespan // 4)
    t = min(t, target_timespan * 4)
    new = (core_set_compact(nbits)[0] * t) % U256
    new //= target_timespan
    if new > pow_limit:
        new = pow_limit
    return core_get_compact(new)


def core_block_proof(nbits):
    val, neg, ovf = core_set_compact(nbits)
    if neg or ovf or val == 0:
        return 0
    return ((U256 - 1 - val) // (val + 1) + 1) % U256


def canonical_bits(n):
    """the image of bits_from_target (mirrors `Btc.Pow.canonical` in Proofs/C17/PowCanon.lean, plus "does not overflow")."""
    e, s = n >> 24, n & 0xFFFFFF
    if n == 0:
        return True
    if not (0x8000 <= s < 0x800000) or e < 1:
        return False
    if e < 3 and s % (256 ** (3 - e)):
        return False
    return (s << (8 * (e - 3)) if e >= 3 else s >> (8 * (3 - e))) < U256


# ------------------------------------------------------------------ implementation side
def _gcs_err(e):
    c = common.err_class(e)
    if c != "value":
        return "err " + c
    m = str(e)
    kind = ("short" if "not enough binary data" in m else "range" if "out of range" in m
            else "excess" if "bytes after" in m else "padding" if "non-zero padding" in m else "other:" + m[:40])
    return "err " + kind


def _mk_err(e):
    c = common.err_class(e)
    if c != "value":
        return "err " + c
    m = str(e)
    kind = ("mutated" if "mutated merkle branch" in m else "toohigh" if "leaf index too high" in m
            else "negative" if "negative leaf index" in m else "length" if "invalid size" in m or "instead of" in m
            else "empty" if "empty merkle tree" in m else "other:" + m[:40])
    return "err " + kind


def _gcs_encode(p, values):
    w = block_filter._BitWriter()
    last = 0
    for v in values:
        block_filter._golomb_encode(w, v - last, p)
        last = v
    return w.flush()


def _gcs_decode(p, upper, n, data):
    """`BasicBlockFilter._decode` with P and the bound as parameters, on the private reader/decoder."""
    r = block_filter._BitReader(data)
    value, out = 0, []
    for _ in range(n):
        value += block_filter._golomb_decode(r, p)
        if value >= upper:
            raise block_filter.BTClibValueError(f"block filter element out of range: {value}")
        out.append(value)
    r.assert_exhausted()
    return out


_BLOCK1 = None


def _header(nonce):
    global _BLOCK1
    if _BLOCK1 is None:
        with open(os.path.join(_DATA, "block_1.bin"), "rb") as f:
            _BLOCK1 = Block.parse(f.read())
    h = copy.copy(_BLOCK1.header)
    h.nonce = nonce
    return h


_HDR_BY_HASH = {}
_HDR_BY_SER = {}      # serialized header -> BlockHeader (cb.key)
_POW_CASES = {}       # op line -> the BlockHeader asked about (pow.valid)
_BLK_CASES = {}       # op line -> the Block the implementation side is asked about (blk.root / blk.wc)
_REAL_BLOCKS = {}     # block hash -> parsed block of the BIP158 vector file


def _block_for(bh: bytes, outs, prevs):
    h = _HDR_BY_HASH[bh]
    coinbase = Tx(1, 0, [TxIn(OutPoint(b"\x00" * 32, 0xFFFFFFFF))],
                  [TxOut(i, s, check_validity=False) for i, s in enumerate(outs)], check_validity=False)
    txs = [coinbase]
    if prevs:
        txs.append(Tx(1, 0, [TxIn(OutPoint(b"\x11" * 32, k)) for k in range(len(prevs))], [], check_validity=False))
    return Block(h, txs, check_validity=False)


def _tx(tag):
    return Tx(1, tag, [TxIn(OutPoint(b"\x11" * 32, 0))], [TxOut(1000, b"\x51")], check_validity=False)


@contextlib.contextmanager
def _table_short_ids(table):
    """compact_blocks._short_id replaced by a table wtxid -> short id (collisions on demand)."""
    real = cbm._short_id
    cbm._short_id = lambda key, wtxid: table[bytes(wtxid)]
    try:
        yield
    finally:
        cbm._short_id = real


def _cb_reconstruct(pre, sids, pool):
    txs = {}
    table = {}
    for sid, tag in pool:
        t = txs.setdefault(tag, _tx(tag))
        table[t.hash] = sid
    pre_txs = [PrefilledTransaction(i, _tx(10**6 + i), check_validity=False) for i in pre]
    cb = CmpctBlock(_header(1), 7, list(sids), pre_txs, check_validity=False)
    by_hash = {t.hash: tag for tag, t in txs.items()}
    with _table_short_ids(table):
        try:
            part = reconstruct(cb, [txs[tag] for _, tag in pool])
        except Exception as e:  # noqa: BLE001
            c = common.err_class(e)
            if c != "value":
                return "err " + c
            m = str(e)
            return "err " + ("empty" if "no transactions" in m else "dup" if "not unique" in m
                             else "positions" if "out of order" in m or "past the block" in m else "other:" + m[:40])
    pre_set = set(pre)
    out = []
    for i, t in enumerate(part.transactions):
        out.append("P" if i in pre_set else "-" if t is None else str(by_hash[t.hash]))
    return "ok " + _csv(out)


def _cb_roundtrip(pre, blk, pool, table):
    """the whole exchange on the real code: the caller's CmpctBlock for `blk` (prefilled `pre`, short ids of the rest
    from the table), reconstruct against `pool`, missing_indexes, fill with the block's transactions there."""
    txs = {tag: _tx(tag) for tag in set(blk) | set(pool)}
    by_hash = {t.hash: tag for tag, t in txs.items()}
    tbl = {t.hash: table.get(tag, 0) for tag, t in txs.items()}
    free = [j for j in range(len(blk)) if j not in pre]
    pre_txs = [PrefilledTransaction(i, txs[blk[i]] if i < len(blk) else _tx(10**6 + i), check_validity=False) for i in pre]
    cb = CmpctBlock(_header(1), 7, [table.get(blk[j], 0) for j in free], pre_txs, check_validity=False)
    with _table_short_ids(tbl):
        try:
            part = reconstruct(cb, [txs[tag] for tag in pool])
        except Exception as e:  # noqa: BLE001
            c = common.err_class(e)
            if c != "value":
                return "err " + c
            m = str(e)
            return "err " + ("empty" if "no transactions" in m else "dup" if "not unique" in m
                             else "positions" if "out of order" in m or "past the block" in m else "other:" + m[:40])
    missing = part.missing_indexes
    try:
        filled = part.fill([txs[blk[i]] for i in missing], check_validity=False)
    except Exception as e:  # noqa: BLE001
        c = common.err_class(e)
        return "err " + ("count" if c == "value" and "invalid transactions count" in str(e) else c)
    return f"ok {_csv(str(i) for i in missing)} {_csv(str(by_hash[t.hash]) for t in filled.transactions)}"


def impl(line: str) -> str:
    t = line.split(" ")
    op = t[0]
    try:
        if op == "core.setcompact":
            bits = int(t[1]).to_bytes(4, "big")
            neg = pw.is_negative_bits(bits)
            try:
                v = int.from_bytes(pw.target_from_bits(bits), "big")
            except pw.BTClibValueError:
                return f"ovf {neg}"
            return f"ok {v} {neg}"
        if op == "core.getcompact":
            return "ok " + str(int.from_bytes(pw.bits_from_target(int(t[1]).to_bytes(32, "big")), "big"))
        if op == "core.next":
            first, last = xo.datetimes_for(int(t[2]))      # aware (UTC / DST zones / offsets) or naive, by the number
            return common.call_impl(
                lambda: int.from_bytes(pw.next_bits(int(t[1]).to_bytes(4, "big"), first, last,
                                                    pow_limit_bits=int(t[3]).to_bytes(4, "big")), "big"))
        if op == "core.work":
            return common.call_impl(pw.block_work, int(t[1]).to_bytes(4, "big"))
        if op == "mk.root":
            try:
                r, m = merkle_root_and_mutated_from_hashes([unhx(x) for x in _uncsv(t[2])], _HASHES[t[1]])
            except Exception as e:  # noqa: BLE001
                return _mk_err(e)
            return f"ok {hx(r)} {m}"
        if op == "mk.branch":
            leaves = [unhx(x) for x in _uncsv(t[2])]
            i = int(t[3])
            if not i < len(leaves):
                return "err index"
            return "ok " + _csv(hx(b) for b in ref_branch(leaves, i, _HASHES[t[1]]))
        if op == "mk.verify":
            try:
                r = merkle_root_from_branch(unhx(t[2]), [unhx(x) for x in _uncsv(t[3])], int(t[4]), _HASHES[t[1]])
            except Exception as e:  # noqa: BLE001
                return _mk_err(e)
            return "ok " + hx(r)
        if op == "mk.verifyc":
            try:
                r = merkle_root_from_branch(unhx(t[2]), [unhx(x) for x in _uncsv(t[3])], int(t[4]), _HASHES[t[1]],
                                            merkle_proof._assert_inner_node_is_not_a_tx)
            except Exception as e:  # noqa: BLE001
                if common.err_class(e) == "value" and "inner node of the merkle branch is a valid transaction" in str(e):
                    return "err innertx"
                return _mk_err(e)
            return "ok " + hx(r)
        if op == "mk.proof":
            return common.call_impl(merkle_proof.verify, unhx(t[1]), [unhx(x) for x in _uncsv(t[2])], int(t[3]), unhx(t[4]))
        if op == "mk.istx":
            try:
                merkle_proof._assert_inner_node_is_not_a_tx(unhx(t[1]))
            except merkle_proof.BTClibValueError:
                return "ok True"
            return "ok False"
        if op == "gcs.encode":
            return "ok " + hx(_gcs_encode(int(t[1]), [int(x) for x in _uncsv(t[2])]))
        if op == "gcs.decode":
            try:
                vs = _gcs_decode(int(t[1]), int(t[2]), int(t[3]), unhx(t[4]))
            except Exception as e:  # noqa: BLE001
                return _gcs_err(e)
            return "ok " + _csv(str(v) for v in vs)
        if op == "f.build":
            outs = [unhx(x) for x in _uncsv(t[2])]
            prevs = [unhx(x) for x in _uncsv(t[3])]
            real = _REAL_BLOCKS.get(unhx(t[1]))
            f = BasicBlockFilter.from_block(real if real is not None else _block_for(unhx(t[1]), outs, prevs), prevs)
            return f"ok {f.element_count} {hx(f.encoded_set)}"
        if op == "f.hashes":
            try:
                vs = BasicBlockFilter(unhx(t[1]), int(t[2]), unhx(t[3]), check_validity=False).element_hashes
            except Exception as e:  # noqa: BLE001
                return _gcs_err(e)
            return "ok " + _csv(str(v) for v in vs)
        if op == "f.match":
            try:
                r = BasicBlockFilter(unhx(t[1]), int(t[2]), unhx(t[3]), check_validity=False).match_any(
                    [unhx(x) for x in _uncsv(t[4])])
            except Exception as e:  # noqa: BLE001
                return _gcs_err(e)
            return f"ok {r}"
        if op == "f.range":
            return "ok " + str(block_filter._hash_to_range(int(t[1]), int(t[2]), unhx(t[3]), int(t[4])))
        if op == "cb.shortid":
            return "ok " + str(cbm._short_id((int(t[1]), int(t[2])), unhx(t[3])))
        if op == "cb.fill":
            from btclib.p2p.compact_blocks import PartialBlock
            part = [None if x == "-" else _tx(int(x)) for x in _uncsv(t[1])]
            sup = [_tx(int(x)) for x in _uncsv(t[2])]
            by_hash = {tx.hash: x for x, tx in [(int(x), _tx(int(x))) for x in _uncsv(t[1]) + _uncsv(t[2]) if x != "-"]}
            try:
                blk = PartialBlock(_header(1), part, check_validity=False).fill(sup, check_validity=False)
            except Exception as e:  # noqa: BLE001
                c = common.err_class(e)
                return "err " + ("count" if c == "value" and "invalid transactions count" in str(e) else c)
            return "ok " + _csv(str(by_hash[tx.hash]) for tx in blk.transactions)
        if op == "cb.roundtrip":
            pre = [int(x) for x in _uncsv(t[1])]
            blk = [int(x) for x in _uncsv(t[2])]
            pool = [int(x) for x in _uncsv(t[3])]
            table = dict(tuple(int(y) for y in x.split(":")) for x in _uncsv(t[4]))
            return _cb_roundtrip(pre, blk, pool, table)
        if op == "cb.key":
            hdr = _HDR_BY_SER[unhx(t[1])]
            k0, k1 = CmpctBlock(hdr, int(t[2]), [], [], check_validity=False).short_id_key
            return f"ok {k0} {k1}"
        if op == "blk.root":
            blk = _BLK_CASES[line]
            try:
                blk.assert_valid_merkle_root()
            except Exception as e:  # noqa: BLE001
                c = common.err_class(e)
                m = str(e)
                return "err " + (c if c != "value" else "root" if "invalid merkle root" in m else "duplicate"
                                 if "duplicate transaction" in m else "empty" if "empty merkle tree" in m else "other:" + m[:40])
            return "ok"
        if op == "blk.wc":
            blk = _BLK_CASES[line]
            try:
                blk.assert_valid_witness_commitment()
            except Exception as e:  # noqa: BLE001
                c = common.err_class(e)
                m = str(e)
                return "err " + (c if c != "value" else "unexpected" if "unexpected witness" in m else "nonce"
                                 if "invalid witness nonce" in m else "commitment" if "commitment" in m else "other:" + m[:40])
            return "ok"
        if op == "pow.valid":
            hdr = _POW_CASES[line]
            try:
                hdr.assert_valid_pow(unhx(t[2]))
            except Exception as e:  # noqa: BLE001
                c = common.err_class(e)
                m = str(e)
                return "err " + (c if c != "value" else "negative" if "negative proof-of-work" in m else "zero"
                                 if "zero proof-of-work" in m else "above" if "above the limit" in m else "overflow"
                                 if "overflows" in m else "work" if "invalid proof-of-work: " in m else "other:" + m[:40])
            return "ok"
        if op == "pow.chainwork":
            return common.call_impl(pw.chain_work, [unhx(x) for x in _uncsv(t[1])])
        if op == "cb.reconstruct":
            pool = [tuple(int(y) for y in x.split(":")) for x in _uncsv(t[3])]
            return _cb_reconstruct([int(x) for x in _uncsv(t[1])], [int(x) for x in _uncsv(t[2])], pool)
    except Exception as e:  # noqa: BLE001
        c = common.err_class(e)
        return "err " + (c if not c.startswith("foreign") else c)
    return "bad-op"


# ------------------------------------------------------------------ property oracles (real code only)
def _o_pow_roundtrip(w):
    """bits_from_target never rounds up, loses less than one unit of the dropped precision, and is a
    retraction: target_from_bits . bits_from_target . target_from_bits = target_from_bits on its image."""
    t = int(w["target"])
    b = pw.bits_from_target(t.to_bytes(32, "big"))
    if pw.is_negative_bits(b):
        return False, f"bits_from_target({t:#x}) = {b.hex()} is negative"
    t2 = int.from_bytes(pw.target_from_bits(b), "big")
    e = b[0]
    unit = 256 ** (e - 3) if e >= 3 else 1
    ok = t2 <= t and t - t2 < unit and pw.bits_from_target(t2.to_bytes(32, "big")) == b
    ok = ok and canonical_bits(int.from_bytes(b, "big"))
    return ok, f"t={t:#x} bits={b.hex()} back={t2:#x}"


def _o_pow_canonical(w):
    n = int(w["bits"])
    b = n.to_bytes(4, "big")
    if not canonical_bits(n):
        return True, "not canonical"
    back = pw.bits_from_target(pw.target_from_bits(b))
    return back == b, f"bits={b.hex()} back={back.hex()}"


def _o_pow_core(w):
    """every public function against the transcription of Core (python twin of Model/C17/CorePow.lean)."""
    n = int(w["bits"])
    b = n.to_bytes(4, "big")
    val, neg, ovf = core_set_compact(n)
    if pw.is_negative_bits(b) != neg:
        return False, f"is_negative_bits({b.hex()}) != {neg}"
    try:
        t = int.from_bytes(pw.target_from_bits(b), "big")
        if ovf or t != val:
            return False, f"target_from_bits({b.hex()}) = {t:#x}, Core: value {val:#x} overflow {ovf}"
    except pw.BTClibValueError:
        if not ovf:
            return False, f"target_from_bits({b.hex()}) raised, Core does not flag overflow"
    if not ovf:
        g = int.from_bytes(pw.bits_from_target(val.to_bytes(32, "big")), "big")
        if g != core_get_compact(val):
            return False, f"bits_from_target({val:#x}) = {g:#x}, Core GetCompact {core_get_compact(val):#x}"
        ts = int(w.get("timespan", 1209600))
        lim = int(w.get("limit", 0x1D00FFFF))
        lv, _, lo = core_set_compact(lim)
        if not lo:
            got = int.from_bytes(pw.next_bits(b, _T0, _T0 + timedelta(seconds=ts), pow_limit_bits=lim.to_bytes(4, "big")), "big")
            if got != core_next(n, ts, lv):
                return False, f"next_bits({b.hex()}, {ts}, {lim:#x}) = {got:#x}, Core {core_next(n, ts, lv):#x}"
    return True, f"bits={b.hex()}"


def _o_pow_work(w):
    """block_work is Core's GetBlockProof, where Core's 0 (negative, overflow, zero target) is an exception here."""
    n = int(w["bits"])
    b = n.to_bytes(4, "big")
    want = core_block_proof(n)
    try:
        got = pw.block_work(b)
    except pw.BTClibValueError:
        return want == 0, f"block_work({b.hex()}) raised, Core {want}"
    return got == want, f"block_work({b.hex()}) = {got}, Core GetBlockProof = {want}"


def _leaves_of(w):
    return [bytes.fromhex(x) for x in w["leaves"]]


def _o_merkle_branch(w):
    """every leaf's branch recomputes the root (or the tree is flagged mutated); the display-order verifier
    agrees; any single-bit tampering of leaf / sibling / index is refused."""
    leaves = _leaves_of(w)
    i = w["i"]
    hf = _HASHES[w.get("hf", "h256")]
    root, mutated = merkle_root_and_mutated_from_hashes(leaves, hf)
    br = ref_branch(leaves, i, hf)
    try:
        got = merkle_root_from_branch(leaves[i], br, i, hf)
    except hashes.BTClibValueError as e:
        return mutated and "mutated" in str(e), f"n={len(leaves)} i={i} raised `{e}` mutated={mutated}"
    if got != root:
        return False, f"n={len(leaves)} i={i}: branch gives {got.hex()} root {root.hex()}"
    if w.get("hf", "h256") == "h256":
        rev = [s[::-1] for s in br]
        if not merkle_proof.verify(leaves[i][::-1], rev, i, root[::-1]):
            return False, f"merkle_proof.verify refuses the honest branch n={len(leaves)} i={i}"
        k = w.get("flip", 0)
        if br:
            j = k % len(br)
            bad = list(rev)
            bad[j] = bytes([bad[j][0] ^ (1 << (k % 8))]) + bad[j][1:]
            if merkle_proof.verify(leaves[i][::-1], bad, i, root[::-1]):
                return False, f"tampered sibling {j} verifies n={len(leaves)} i={i}"
            j2 = i ^ (1 << (k % len(br)))
            if merkle_proof.verify(leaves[i][::-1], rev, j2, root[::-1]) and not mutated:
                return False, f"index {j2} instead of {i} verifies n={len(leaves)}"
        bad_leaf = bytes([leaves[i][0] ^ (1 << (k % 8))]) + leaves[i][1:]
        if merkle_proof.verify(bad_leaf[::-1], rev, i, root[::-1]):
            return False, f"tampered leaf verifies n={len(leaves)} i={i}"
        if merkle_proof.verify(leaves[i][::-1], rev, i + (1 << len(br)), root[::-1]):
            return False, f"leftover index bits accepted n={len(leaves)} i={i}"
    return True, f"n={len(leaves)} i={i} mutated={mutated}"


def _o_merkle_dup_tail(w):
    """CVE-2012-2459: duplicating the last leaf of an odd level keeps the root and raises the flag."""
    leaves = _leaves_of(w)
    hf = _HASHES["h256"]
    root, _ = merkle_root_and_mutated_from_hashes(leaves, hf)
    if len(leaves) % 2 == 0 or len(leaves) < 3:
        return True, "even"
    r2, m2 = merkle_root_and_mutated_from_hashes(leaves + [leaves[-1]], hf)
    return r2 == root and m2, f"n={len(leaves)} dup root equal {r2 == root} flag {m2}"


def _o_gcs_roundtrip(w):
    """element_hashes(filter coded from the sorted values) = the values; parse . serialize = id; every value matches."""
    vals = sorted(w["values"])
    n = len(vals)
    bh = bytes.fromhex(w["bh"])
    data = _gcs_encode(block_filter.BASIC_FILTER_P, vals)
    upper = n * block_filter.BASIC_FILTER_M
    if any(v >= upper for v in vals):
        return True, "out of range"
    f = BasicBlockFilter(bh, n, data)
    if f.element_hashes != vals:
        return False, f"decoded {f.element_hashes[:5]}… instead of {vals[:5]}…"
    g = BasicBlockFilter.parse(f.serialize(), bh)
    return g == f and g.encoded_set == data, f"n={n}"


def _o_filter_no_false_negative(w):
    """a filter built from a block matches every script it was built from, and match_any finds any of them
    among arbitrary other queries."""
    outs = [bytes.fromhex(x) for x in w["outs"]]
    prevs = [bytes.fromhex(x) for x in w["prevs"]]
    h = _header(w["nonce"])
    _HDR_BY_HASH[h.hash] = h
    f = BasicBlockFilter.from_block(_block_for(h.hash, outs, prevs), prevs)
    members = {s for s in outs if s and s[0] != 0x6A} | {s for s in prevs if s}
    if f.element_count != len(members):
        return False, f"element_count {f.element_count} for {len(members)} distinct scripts"
    hs = f.element_hashes
    if hs != sorted(hs) or len(hs) != len(members):
        return False, "element hashes not the sorted mapped set"
    noise = [bytes.fromhex(x) for x in w.get("noise", [])]
    for s in members:
        if not f.match(s):
            return False, f"false negative: {s.hex()}"
        if not f.match_any(noise + [s] + noise):
            return False, f"match_any misses {s.hex()} among noise"
    if not members and f.match_any(noise):
        return False, "empty filter matches"
    return True, f"{len(members)} elements"


_BLOCK_BIG = None


def _o_cb_fill(w):
    """reconstruct + fill over a real block: any prefilled subset, any pool order / superset -> the block."""
    import random
    global _BLOCK_BIG
    if _BLOCK_BIG is None:
        with open(os.path.join(_DATA, "block_481824_complete.bin"), "rb") as f:
            _BLOCK_BIG = Block.parse(f.read())
    rng = random.Random(w["seed"])
    blk = _BLOCK_BIG
    txs = blk.transactions[: w["n"]]
    n = len(txs)
    mode = w.get("prefill", rng.choice(["none", "coinbase", "subset", "subset0"]))
    if mode == "none":
        pre = []                                              # the coinbase too comes from the pool, by short id
    elif mode == "coinbase":
        pre = [0]
    elif mode == "subset":
        pre = sorted({rng.randrange(n) for _ in range(rng.randrange(1, 5))} - {0})   # arbitrary, index 0 NOT prefilled
    else:
        pre = sorted({0} | {rng.randrange(n) for _ in range(rng.randrange(0, 4))})
    keyed = CmpctBlock(blk.header, w["nonce"], [], [], check_validity=False)
    cb = CmpctBlock(blk.header, w["nonce"], [keyed.short_id(t.hash) for i, t in enumerate(txs) if i not in pre],
                    [PrefilledTransaction(i, txs[i]) for i in pre])
    pool = [t for i, t in enumerate(txs) if i not in pre]
    withheld = sorted(rng.sample(range(len(pool)), min(len(pool), rng.randrange(0, 3))))
    kept = [t for j, t in enumerate(pool) if j not in withheld]
    extra = list(blk.transactions[w["n"]: w["n"] + rng.randrange(0, 5)]) + [_tx(5), _tx(6)]
    kept = kept + extra + kept[:2]
    rng.shuffle(kept)
    part = reconstruct(cb, kept)
    want_missing = [i for i, t in enumerate(txs) if i not in pre and pool.index(t) in withheld]
    if part.missing_indexes != want_missing:
        return False, (f"prefilled {pre}, pool holds all but {want_missing}: reconstruct leaves {part.missing_indexes} "
                       f"missing instead of {want_missing} (n={n}, nonce={w['nonce']})")
    if not withheld and any(t is None for t in part.transactions):
        return False, f"pool holds every missing transaction yet positions {part.missing_indexes} are not filled"
    filled = part.fill([txs[i] for i in part.missing_indexes], check_validity=False)
    ok = filled.transactions == list(txs) and filled.header == blk.header
    return ok, f"n={n} prefilled={pre} withheld={len(withheld)}"


_BLOCKS = {}


def _block(name):
    if name not in _BLOCKS:
        with open(os.path.join(_DATA, name), "rb") as f:
            _BLOCKS[name] = Block.parse(f.read())
    return _BLOCKS[name]


def _o_block_commitments(w):
    """block-level glue on real blocks: header root = tree over txids (display order), every tx has a verifying
    proof, a swapped / duplicated-tail transaction list is refused, witness commitment binds the witnesses,
    assert_valid_pow agrees with the codec, chain_work is the sum of block_work."""
    import random
    from btclib.block.block import merkle_root_and_mutated_from_transactions
    rng = random.Random(w["seed"])
    blk = _block(w["block"])
    txs = blk.transactions
    ids = [t.id[::-1] for t in txs]
    root, mutated = merkle_root_and_mutated_from_hashes(ids, hash256)
    r2, m2 = merkle_root_and_mutated_from_transactions(txs)
    if (r2, m2) != (root[::-1], mutated) or r2 != blk.header.merkle_root or mutated:
        return False, f"{w['block']}: header root / tree root / transactions root disagree"
    blk.assert_valid_merkle_root()
    i = rng.randrange(len(txs))
    br = [x[::-1] for x in ref_branch(ids, i, hash256)]
    if not merkle_proof.verify(txs[i].id, br, i, blk.header.merkle_root):
        return False, f"{w['block']}: tx {i} does not verify against the header root"
    if len(txs) > 1:
        j = (i + 1) % len(txs)
        if merkle_proof.verify(txs[j].id, br, i, blk.header.merkle_root) and txs[j].id != txs[i].id:
            return False, f"{w['block']}: tx {j} verifies with the branch of tx {i}"
        sw = copy.copy(blk)
        sw.transactions = list(txs)
        sw.transactions[i], sw.transactions[j] = sw.transactions[j], sw.transactions[i]
        try:
            sw.assert_valid_merkle_root()
            return False, f"{w['block']}: swapped transactions {i},{j} accepted"
        except hashes.BTClibValueError:
            pass
    if len(txs) >= 3:
        # an odd prefix of the block under a header committing to it, then its last transaction repeated
        k = rng.randrange(3, len(txs) + 1) | 1
        k = k if k <= len(txs) else k - 2
        sub = copy.copy(blk)
        sub.transactions = list(txs[:k])
        sub.header = copy.copy(blk.header)
        sub.header.merkle_root = merkle_root_and_mutated_from_transactions(sub.transactions)[0]
        sub.assert_valid_merkle_root()
        sub.transactions = sub.transactions + [sub.transactions[-1]]
        if merkle_root_and_mutated_from_transactions(sub.transactions) != (sub.header.merkle_root, True):
            return False, f"{w['block']}: duplicated tail of {k} txs not (same root, mutated)"
        try:
            sub.assert_valid_merkle_root()
            return False, f"{w['block']}: CVE-2012-2459 duplicate of {k} txs accepted"
        except hashes.BTClibValueError:
            pass
    if blk.is_segwit:
        blk.assert_valid_witness_commitment()
    h = blk.header
    h.assert_valid_pow()
    val, neg, ovf = core_set_compact(int.from_bytes(h.bits, "big"))
    if neg or ovf or val == 0 or int.from_bytes(h.hash, "big") > val:
        return False, f"{w['block']}: assert_valid_pow passes against Core's rule"
    bad = copy.copy(h)
    bad.bits = bytes([h.bits[0], h.bits[1] | 0x80]) + h.bits[2:]
    try:
        bad.assert_valid_pow()
        return False, "negative bits accepted by assert_valid_pow"
    except hashes.BTClibValueError as e:
        if "negative" not in str(e):
            return False, f"negative bits not refused as negative by assert_valid_pow: {e}"
    seq = [h.bits, pw.MAINNET_POW_LIMIT_BITS, b"\x1b\x04\x04\xcb"]
    if pw.chain_work(seq) != sum(core_block_proof(int.from_bytes(b, "big")) for b in seq):
        return False, "chain_work is not the sum of Core's block proofs"
    return True, f"{w['block']} ({len(txs)} txs) tx {i}"


def _o_bip158_vector(w):
    """one row of the BIP158 test-vector file: from_block(block, prev scripts) serializes to the recorded
    filter, chains to the recorded header, matches every element, and parses back."""
    from btclib.block.block_filter import filter_header
    height, bh, blk_hex, prevs, prev_hdr, filt, hdr = w["row"][:7]
    blk = Block.parse(bytes.fromhex(blk_hex), check_validity=False)
    if blk.header.hash.hex() != bh:
        return False, f"height {height}: block hash {blk.header.hash.hex()} instead of {bh}"
    f = BasicBlockFilter.from_block(blk, [bytes.fromhex(x) for x in prevs])
    if f.serialize().hex() != filt:
        return False, f"height {height}: filter {f.serialize().hex()[:40]} instead of {filt[:40]}"
    if f.header(bytes.fromhex(prev_hdr)).hex() != hdr or filter_header(f.hash, bytes.fromhex(prev_hdr)).hex() != hdr:
        return False, f"height {height}: filter header differs from the vector"
    g = BasicBlockFilter.parse(bytes.fromhex(filt), bytes.fromhex(bh))
    if g != f:
        return False, f"height {height}: parse(vector) != built filter"
    for x in prevs:
        if x and not f.match(bytes.fromhex(x)):
            return False, f"height {height}: false negative on prev script {x}"
    return True, f"height {height}: {f.element_count} elements"


def craft_tx64(rng):
    """a serialized transaction of exactly 64 bytes (CVE-2017-12842): legacy (script_sig + script_pub_key = 4
    bytes) or with a witness (marker, flag, one witness item)."""
    from btclib.script import Witness
    if rng.random() < 0.7:
        a = rng.randrange(0, 5)
        tx = Tx(rng.getrandbits(31), rng.getrandbits(32),
                [TxIn(OutPoint(common.rand_bytes(rng, 32), rng.getrandbits(32)), common.rand_bytes(rng, a),
                      rng.getrandbits(32), check_validity=False)],
                [TxOut(rng.getrandbits(40), common.rand_bytes(rng, 4 - a), check_validity=False)], check_validity=False)
        raw = tx.serialize(include_witness=False, check_validity=False)
    else:
        # 4 + 2 + 1 + 41 + 1 + 9 + (1 + 1 + 0) + 4 = 64 with an empty script_sig, empty script_pub_key, one empty... no:
        # witness stack of one item of length 0 is "empty witness"?  use one item of 1 byte and drop a byte elsewhere
        tx = Tx(rng.getrandbits(31), rng.getrandbits(32),
                [TxIn(OutPoint(common.rand_bytes(rng, 32), rng.getrandbits(32)), b"", rng.getrandbits(32),
                      Witness([b""]), check_validity=False)],
                [TxOut(rng.getrandbits(40), b"", check_validity=False)], check_validity=False)
        raw = tx.serialize(include_witness=True, check_validity=False)
    return raw


def _o_merkle_inner_tx(w):
    """CVE-2017-12842: a 64-byte transaction presented as an inner node (its halves as leaf and sibling, at any
    level, either side) is refused by merkle_proof.verify although the bare arithmetic recomputes the root;
    honest 64-byte nodes that are no transaction are not refused."""
    raw = bytes.fromhex(w["tx"])
    if len(raw) != 64:
        return True, f"crafted tx is {len(raw)} bytes"
    try:
        merkle_proof._assert_inner_node_is_not_a_tx(raw)
        return False, f"_assert_inner_node_is_not_a_tx accepts the transaction {raw.hex()}"
    except merkle_proof.BTClibValueError:
        pass
    L, R = raw[:32], raw[32:]
    above = [bytes.fromhex(x) for x in w["above"]]
    root = hash256(raw)
    idx_bits = w["bits"]
    for k, sib in enumerate(above):
        root = hash256(sib + root) if (idx_bits >> k) & 1 else hash256(root + sib)
    for leaf, first, bit in ((L, R, 0), (R, L, 1)):
        index = bit | (idx_bits << 1)
        br = [first] + above
        if merkle_root_from_branch(leaf, br, index, hash256) != root:
            return False, "harness: crafted branch does not recompute the root"
        if merkle_proof.verify(leaf[::-1], [x[::-1] for x in br], index, root[::-1]):
            return False, f"branch through the 64-byte transaction {raw.hex()} verifies (side {bit}, depth {len(br)})"
    # the same transaction one level up: honest halves below, the tx as the pair at level 1
    if above:
        x, y = above[0], bytes.fromhex(w["other"])
        # leaf x with sibling y hashing to ... cannot hit a chosen value: only check a non-tx node is not refused
        node = x + y
        try:
            merkle_proof._assert_inner_node_is_not_a_tx(node)
        except merkle_proof.BTClibValueError:
            return True, "random node happens to be a transaction"
        r2 = hash256(node)
        if not merkle_proof.verify(x[::-1], [y[::-1]], 0, r2[::-1]):
            return False, "honest inner node refused"
    return True, f"tx {raw[:8].hex()}… depth {1 + len(above)}"


def _o_chain_work(w):
    """chain_work(seq) refuses iff some element is refused by block_work (= Core credits it no work), else it is
    the sum -- for EVERY order of the sequence (no history/cache dependence)."""
    import itertools
    seq = [bytes.fromhex(x) for x in w["seq"]]
    per = []
    for b in seq:
        want = core_block_proof(int.from_bytes(b, "big")) if len(b) == 4 else 0
        try:
            got = pw.block_work(b)
        except pw.BTClibValueError:
            got = 0
        if got != want:
            return False, f"block_work({b.hex()}) = {got}, Core {want}"
        per.append(want)
    total = None if any(x == 0 for x in per) else sum(per)
    for perm in itertools.permutations(range(len(seq))):
        s_ = [seq[i] for i in perm]
        try:
            got = pw.chain_work(s_)
        except pw.BTClibValueError:
            got = None
        if got != total:
            return False, f"chain_work({[x.hex() for x in s_]}) = {got} instead of {total}"
    return True, f"{len(seq)} headers, total {total}"


KEY_SAME_ZONE = "next_bits.same-zone-aware-dst"


def _o_next_bits_tz(w):
    """next_bits under a process time zone (os.environ['TZ'] + time.tzset()), naive and aware datetimes spanning the
    zone's DST changes, against Core's integer arithmetic over the reference seconds: wall-clock seconds for naive
    readings (the documented, zone-independent meaning), unix seconds between the instants for aware ones."""
    return xo.next_bits_tz(w, core_next)


def _o_next_bits_same_zone(w):
    """two aware datetimes carrying the SAME zoneinfo object: the instants are `seconds` apart; the answer must be
    Core's over those seconds.  (Python subtracts such a pair as wall-clock readings; a failure that is exactly that
    reading is reported as `same-zone wall clock`, anything else as itself.)"""
    ok, detail = xo.next_bits_tz(w, core_next)
    if ok:
        return ok, detail
    with xo.process_tz(w["tz"]):
        first, last, _ = xo.make_times(w)
    wall = xo._wall(last) - xo._wall(first)
    lim = int(w.get("limit", 0x1D00FFFF))
    got = int.from_bytes(pw.next_bits(int(w["bits"]).to_bytes(4, "big"), first, last, pow_limit_bits=lim.to_bytes(4, "big")), "big")
    if got == core_next(int(w["bits"]), wall, core_set_compact(lim)[0]):
        return False, f"same-zone wall clock ({wall} s instead of the elapsed seconds): " + detail
    return False, detail


ORACLES = {
    "block.validity": xo.block_validity,
    "block.validity.real": xo.block_validity_real,
    "pow.next_bits.tz": _o_next_bits_tz,
    "pow.next_bits.same_zone": _o_next_bits_same_zone,
    "merkle.inner_tx": _o_merkle_inner_tx,
    "pow.chain_work": _o_chain_work,
    "bip158.vector": _o_bip158_vector,
    "block.commitments": _o_block_commitments,
    "pow.roundtrip": _o_pow_roundtrip,
    "pow.canonical": _o_pow_canonical,
    "pow.core": _o_pow_core,
    "pow.work": _o_pow_work,
    "merkle.branch": _o_merkle_branch,
    "merkle.dup_tail": _o_merkle_dup_tail,
    "gcs.roundtrip": _o_gcs_roundtrip,
    "filter.no_false_negative": _o_filter_no_false_negative,
    "cb.fill": _o_cb_fill,
}


# ------------------------------------------------------------------ generators
SIG_CORNERS = [0, 1, 0x7F, 0x80, 0xFF, 0x100, 0x7FFF, 0x8000, 0xFFFF, 0x10000, 0x7FFFFF, 0x800000, 0x800001,
               0x8000FF, 0x80FF00, 0xFFFFFF, 0x00FFFF, 0x123456]


def rand_bits(rng):
    e = rng.choice(list(range(0, 36)) + [0x7F, 0x80, 0xFF, rng.randrange(256)])
    s = rng.choice(SIG_CORNERS + [rng.getrandbits(24), rng.getrandbits(23), rng.getrandbits(16) << 8])
    return (e << 24) | s


def rand_target(rng):
    n = rng.randrange(0, 33)
    v = rng.choice(SIG_CORNERS + [rng.getrandbits(24), rng.getrandbits(32)]) << (8 * rng.randrange(0, 30))
    v += rng.choice([0, 0, 1, rng.getrandbits(16), (1 << (8 * rng.randrange(0, 29))) - 1])
    if rng.random() < 0.3:
        v = rng.getrandbits(8 * n) if n else 0
    return v % U256


def rand_leaves(rng, n, dup=0.15):
    out = []
    for _ in range(n):
        if out and rng.random() < dup:
            out.append(rng.choice([out[-1], rng.choice(out)]))
        else:
            out.append(common.rand_bytes(rng, 32))
    return out


def rand_sorted(rng, n, upper):
    if upper <= 0:
        return []
    vs = []
    for _ in range(n):
        r = rng.random()
        if vs and r < 0.1:
            vs.append(rng.choice(vs))
        elif r < 0.3:
            vs.append(min(upper - 1, rng.choice([0, 1, (1 << 19) - 1, 1 << 19, (1 << 19) + 1, 3 << 19, upper - 1])))
        else:
            vs.append(rng.randrange(upper))
    return sorted(vs)


def rand_script(rng):
    r = rng.random()
    if r < 0.1:
        return b""
    if r < 0.25:
        return b"\x6a" + common.rand_bytes(rng, rng.randrange(0, 5))
    return common.rand_bytes(rng, rng.choice([1, 2, 22, 23, 25, 34, 35, 67]))


# ------------------------------------------------------------------ run
def run(ctx):
    rng = ctx.rng
    T = pw.POW_TARGET_TIMESPAN
    thorough = ctx.tier == "thorough"

    # ---------------------------------------------------------------- (a) proof of work
    exps = list(range(0, 36)) + [0x7F, 0x80, 0xFE, 0xFF]
    grid = [(e << 24) | (sign | s) for e in exps for s in SIG_CORNERS for sign in (0, 0x800000)]
    grid = sorted(set(grid))
    ctx.exhaustive_streams.append("pow.setcompact.grid (exponents 0..35,0x7f,0x80,0xfe,0xff x significand corners x sign bit)")
    rnd = [rand_bits(rng) for _ in range(ctx.n(3000, 200000))]
    ctx.stream("pow.setcompact.grid", [f"core.setcompact {n}" for n in grid],
               nontrivial=lambda ln, out: out.startswith("ok"))
    ctx.stream("pow.setcompact", [f"core.setcompact {n}" for n in rnd], nontrivial=lambda ln, out: out.startswith("ok"))
    ctx.stream("pow.work", [f"core.work {n}" for n in grid + rnd[:2000]])
    targets = [rand_target(rng) for _ in range(ctx.n(3000, 200000))]
    targets += [0, 1, 0x7F, 0x80, 0xFF, 0x100, 0x7FFF, 0x8000, 0x7FFFFF, 0x800000, 0x800001, 0xFFFFFF, 0x1000000,
                U256 - 1, 1 << 255, (1 << 255) - 1, 0xFFFF << 208, (1 << 224) - 1]
    targets += [(s << (8 * k)) % U256 for s in SIG_CORNERS for k in range(0, 32)]
    targets += [((s << (8 * k)) - 1) % U256 for s in SIG_CORNERS[1:] for k in range(0, 32)]
    ctx.stream("pow.getcompact", [f"core.getcompact {v}" for v in targets])
    spans = [T // 4 - 1, T // 4, T // 4 + 1, T - 1, T, T + 1, 4 * T - 1, 4 * T, 4 * T + 1, 0, 1, -1, -T, 10 * T]
    lines = []
    for _ in range(ctx.n(2500, 100000)):
        r = rng.random()
        nb = rng.choice([0x1D00FFFF, 0x1B0404CB, 0x1A05DB8B, 0x170331DB, 0x207FFFFF, 0x1E0FFFF0]) if r < 0.5 else rand_bits(rng)
        if r > 0.9:  # the 256-bit wrap: targets whose product leaves 2^256
            nb = (rng.randrange(30, 34) << 24) | rng.getrandbits(23)
        ts = rng.choice(spans) if rng.random() < 0.5 else rng.randrange(-T, 6 * T)
        lim = rng.choice([0x1D00FFFF, 0x1D00FFFF, 0x207FFFFF, 0x1E0377AE, rand_bits(rng)])
        lines.append(f"core.next {nb} {ts} {lim}")
    ctx.stream("pow.next", lines)
    # BlockHeader.assert_valid_pow over headers with chosen bits (hash = whatever the header hashes to)
    pv = []
    for _ in range(ctx.n(1200, 30000)):
        r = rng.random()
        if r < 0.45:
            nb = (rng.choice([0x20, 0x20, 0x1F, 0x21]) << 24) | rng.choice([0x7FFFFF, 0x7FFFFF, 0x00FFFF, rng.getrandbits(23)])
        elif r < 0.6:
            nb = (rng.choice([0x20, 0x1F]) << 24) | 0x800000 | rng.getrandbits(23)        # sign bit
        elif r < 0.7:
            nb = (rng.randrange(0, 0x23) << 24) | rng.choice([0, 0, 0x800000, rng.getrandbits(8)])   # zero / tiny targets
        else:
            nb = rand_bits(rng)
        lim = rng.choice([0x207FFFFF, 0x207FFFFF, 0x1D00FFFF, 0x1E0377AE, rand_bits(rng)])
        hdr = _header(rng.getrandbits(32))
        hdr.bits = nb.to_bytes(4, "big")
        if rng.random() < 0.5:                                   # look a little for a solving nonce
            tgt = core_set_compact(nb)[0]
            for k in range(6):
                if int.from_bytes(hdr.hash, "big") <= tgt:
                    break
                hdr.nonce = rng.getrandbits(32)
        line = f"pow.valid {hx(hdr.bits)} {hx(lim.to_bytes(4, 'big'))} {hx(hdr.hash)}"
        _POW_CASES[line] = hdr
        pv.append(line)
    ctx.stream("pow.valid", pv, nontrivial=lambda ln, out: out == "ok" or out.endswith("work") or out.endswith("above"))
    for n in grid + rnd[: ctx.n(1500, 50000)]:
        w = {"bits": n, "timespan": rng.choice(spans + [rng.randrange(0, 5 * T)]),
             "limit": rng.choice([0x1D00FFFF, 0x207FFFFF])}
        ctx.check("pow.core", w, nontrivial=not core_set_compact(n)[2])
        ctx.check("pow.canonical", {"bits": n}, nontrivial=canonical_bits(n))
        # Core's GetBlockProof is 0 for negative / overflowing / zero targets: block_work raises exactly there
        ctx.check("pow.work", {"bits": n}, key="block_work.vs_core", nontrivial=core_block_proof(n) != 0)
    for v in targets[: ctx.n(4000, 100000)]:
        ctx.check("pow.roundtrip", {"target": str(v)}, nontrivial=v != 0)
    # next_bits' datetime glue under process time zones: windows laid over each zone's DST changes (and controls)
    changes = {z: xo.dst_changes(z) for z in xo.ZONES}
    all_changes = sorted({c for v in changes.values() for c in v})
    ctx.exhaustive_streams.append("pow.next_bits.tz: process TZ in {UTC, Europe/Rome, America/New_York, Australia/Lord_Howe} x "
                                  "{naive, aware UTC, aware fixed offsets, aware zone+UTC, aware same zone}")
    for z in xo.ZONES:
        for kind in ("naive", "utc", "offset", "mixed", "same_zone"):
            for _ in range(ctx.n(12, 150)):
                zone = z if z != "UTC" and rng.random() < 0.6 else rng.choice(xo.ZONES[1:])
                y, m, d = rng.choice(changes[zone if kind in ("mixed", "same_zone") else z] or all_changes)
                start = datetime(y, m, d) - timedelta(days=rng.randrange(0, rng.choice([3, 14, 21])), seconds=rng.randrange(86400))
                secs = rng.choice([T, T - 1, T + 1, T // 4 + rng.randrange(0, 3 * T), 10 * 86400 + 1234, 21 * 86400,
                                   T // 4 - 1800, 4 * T + 1800, T // 4, 4 * T])
                w = {"tz": z, "zone": zone, "kind": kind, "seconds": secs, "flip": rng.random() < 0.5,
                     "first": [start.year, start.month, start.day, start.hour, start.minute, start.second],
                     "offset": rng.choice([630, -210, 60, 345, 0]),
                     "bits": rng.choice([0x1B0404CC, 0x1D00FFFF, 0x1A05DB8B, 0x170331DB, 0x1C7FFFFF]),
                     "limit": rng.choice([0x1D00FFFF, 0x1D00FFFF, 0x1E0377AE])}
                if kind != "same_zone":
                    ctx.check("pow.next_bits.tz", w)
                else:
                    ok_, detail_ = _o_next_bits_same_zone(w)
                    ctx.oracle("pow.next_bits.same_zone", ok_, detail_, witness={"oracle": "pow.next_bits.same_zone", "witness": w},
                               key=KEY_SAME_ZONE if detail_.startswith("same-zone wall clock") else None)
    canon = [int.from_bytes(pw.bits_from_target(v.to_bytes(32, "big")), "big") for v in targets[:3000]]
    for n in canon:
        ctx.check("pow.canonical", {"bits": n})

    # ---------------------------------------------------------------- (b) merkle
    max_n = 40 if not thorough else 70
    ctx.exhaustive_streams.append(f"merkle: every leaf count 1..{max_n} x every index (branch, verify, oracle)")
    roots, branches, verifies = [], [], []
    for n in range(0, max_n + 1):
        for variant in range(2 if n else 1):
            leaves = rand_leaves(rng, n, dup=0.0 if variant == 0 else 0.3)
            csv = _csv(hx(x) for x in leaves)
            roots.append(f"mk.root h256 {csv}")
            if n % 2 == 1 and n >= 3:
                roots.append(f"mk.root h256 {_csv(hx(x) for x in leaves + [leaves[-1]])}")
                ctx.check("merkle.dup_tail", {"leaves": [x.hex() for x in leaves]})
            for i in range(n):
                branches.append(f"mk.branch h256 {csv} {i}")
                br = ref_branch(leaves, i, hash256)
                verifies.append(f"mk.verify h256 {hx(leaves[i])} {_csv(hx(x) for x in br)} {i}")
                if variant == 0 or n <= 12:
                    ctx.check("merkle.branch", {"leaves": [x.hex() for x in leaves], "i": i, "flip": rng.randrange(1 << 16)})
    for _ in range(ctx.n(150, 3000)):
        n = rng.choice([1, 2, 3, 4, 5, 6, 7, 8, 9, 11, 16, 17, 31, 33, rng.randrange(1, 70)])
        hf = rng.choice(["h256", "toy", "sha256"])
        leaves = rand_leaves(rng, n, dup=rng.choice([0, 0.2, 0.6]))
        csv = _csv(hx(x) for x in leaves)
        roots.append(f"mk.root {hf} {csv}")
        i = rng.randrange(n)
        branches.append(f"mk.branch {hf} {csv} {i}")
        br = ref_branch(leaves, i, _HASHES[hf])
        leaf = leaves[i]
        idx = i
        r = rng.random()
        if r < 0.15 and br:      # tamper a sibling
            j = rng.randrange(len(br))
            br[j] = bytes([br[j][0] ^ 1]) + br[j][1:]
        elif r < 0.25 and br:    # wrong width
            j = rng.randrange(len(br))
            br[j] = br[j][: rng.choice([0, 31])] if rng.random() < 0.5 else br[j] + b"\x00"
        elif r < 0.35:           # index tampering: other side, leftover bits, negative
            idx = rng.choice([i ^ 1, i + (1 << len(br)), i + (1 << (len(br) + 3)), -1, -i - 1])
        elif r < 0.45 and br:    # the CVE-2012-2459 shape: right child equal to its sibling
            idx |= 1
            br[0] = leaf
        elif r < 0.5:
            leaf = leaf[: rng.choice([0, 31])]
        elif r < 0.55:
            br = br[:-1] if br and rng.random() < 0.5 else br + [common.rand_bytes(rng, 32)]
        verifies.append(f"mk.verify {hf} {hx(leaf)} {_csv(hx(x) for x in br)} {idx}")
        ctx.check("merkle.branch", {"leaves": [x.hex() for x in leaves], "i": i, "flip": rng.randrange(1 << 16), "hf": hf})
    # CVE-2017-12842: 64-byte transactions as inner nodes, through the checked verifier and merkle_proof.verify
    vc, pf, it = [], [], []
    for _ in range(ctx.n(150, 3000)):
        raw = craft_tx64(rng)
        depth = rng.randrange(0, 4)
        above = [common.rand_bytes(rng, 32) for _ in range(depth)]
        bits_ = rng.getrandbits(depth) if depth else 0
        ctx.check("merkle.inner_tx", {"tx": raw.hex(), "above": [x.hex() for x in above], "bits": bits_,
                                      "other": common.rand_bytes(rng, 32).hex()}, nontrivial=len(raw) == 64)
        it.append(f"mk.istx {hx(raw)}")
        mut = bytearray(raw)
        mut[rng.randrange(64)] ^= 1 << rng.randrange(8)
        it.append(f"mk.istx {hx(bytes(mut))}")
        it.append(f"mk.istx {hx(common.rand_bytes(rng, rng.choice([64, 64, 63, 65, 60])))}")
        if len(raw) != 64:
            continue
        # the tx sits at level k of the path: honest hashing below it is impossible to aim, so it is the bottom
        # pair (k = 0) or reached from a leaf whose first sibling makes the running hash irrelevant: bottom only
        side = rng.randrange(2)
        leaf, first = (raw[:32], raw[32:]) if side == 0 else (raw[32:], raw[:32])
        br = [first] + above
        index = side | (bits_ << 1)
        root = hash256(raw)
        for k, sib in enumerate(above):
            root = hash256(sib + root) if (bits_ >> k) & 1 else hash256(root + sib)
        r = rng.random()
        if r < 0.2:
            br[0] = bytes(mut[32:]) if side == 0 else bytes(mut[:32])     # one bit off: (almost surely) no tx any more
        vc.append(f"mk.verifyc h256 {hx(leaf)} {_csv(hx(x) for x in br)} {index}")
        pf.append(f"mk.proof {hx(leaf[::-1])} {_csv(hx(x[::-1]) for x in br)} {index} {hx(root[::-1])}")
    # the checked verifier and the display-order entry point on the honest / tampered cases as well
    for ln in verifies[: ctx.n(300, 3000)] + verifies[-ctx.n(150, 3000):]:
        t_ = ln.split(" ")
        if t_[1] == "h256":
            vc.append("mk.verifyc " + " ".join(t_[1:]))
            try:
                root_ = merkle_root_from_branch(unhx(t_[2]), [unhx(x) for x in _uncsv(t_[3])], int(t_[4]), hash256)
            except Exception:  # noqa: BLE001
                root_ = common.rand_bytes(rng, 32)
            if rng.random() < 0.1:
                root_ = root_[:-1]
            br_ = _uncsv(t_[3])
            if all(len(x) % 2 == 0 for x in br_):
                pf.append(f"mk.proof {hx(unhx(t_[2])[::-1])} {_csv(hx(unhx(x)[::-1]) for x in br_)} {t_[4]} {hx(root_[::-1])}")
    ctx.stream("merkle.istx", it)
    ctx.stream("merkle.verify_checked", vc)
    ctx.stream("merkle.proof_verify", pf, nontrivial=lambda ln, out: out == "ok True")
    ctx.stream("merkle.root", roots)
    ctx.stream("merkle.branch", branches)
    ctx.stream("merkle.verify", verifies)

    for name in ["block_1.bin", "block_170.bin", "block_200000.bin", "block_481824_complete.bin"]:
        for _ in range(ctx.n(3, 40)):
            ctx.check("block.commitments", {"block": name, "seed": rng.getrandbits(32)})
    # block validity on the real code alone: mined regtest blocks, every witness configuration x every tampering
    ctx.exhaustive_streams.append("block.validity: {no witness, coinbase-only witness, some tx witness} x every tampering "
                                  "(commitment / reserved value / witness / header root / transaction list) x 5 shapes")
    for cfg in ("none", "coinbase", "tx"):
        tampers = ["good"] + xo.ROOT_TAMPERS + ([] if cfg == "none" else xo.WITNESS_TAMPERS) + (xo.TX_TAMPERS if cfg == "tx" else [])
        for tam in tampers:
            shapes = [(0, 1), (1, 1), (2, 2), (3, 2), (rng.randrange(0, 9), rng.randrange(1, 6))]
            shapes += [(rng.randrange(0, 12), rng.randrange(1, 8)) for _ in range(ctx.n(0, 30))]
            for leg, seg in shapes:
                ctx.check("block.validity", {"cfg": cfg, "tamper": tam, "legacy": leg, "segwit": seg, "seed": rng.getrandbits(32)})
    reals = ["nonce.flip", "nonce.31", "nonce.33", "wit.malleate", "wit.extra"]
    for tam in (reals + reals[3:] if thorough else
                ["nonce.31", rng.choice(["nonce.flip", "nonce.33"]), rng.choice(["wit.malleate", "wit.extra"])]):
        ctx.check("block.validity.real", {"tamper": tam, "seed": rng.getrandbits(32)})

    # ---------------------------------------------------------------- (c) Golomb-Rice coded sets, BIP158
    enc, dec = [], []
    P, M = block_filter.BASIC_FILTER_P, block_filter.BASIC_FILTER_M
    for _ in range(ctx.n(700, 20000)):
        p = rng.choice([0, 1, 2, 3, 7, 8, 9, 19, 19, 19, 20, 32, rng.randrange(0, 40)])
        n = rng.choice([0, 1, 2, 3, 5, 8, 20, rng.randrange(0, 60)])
        upper = rng.choice([n * M, n * M, 1 << (p + rng.randrange(0, 5)), 1000, 1 << 40])
        vs = rand_sorted(rng, n, min(upper, 1 << (p + rng.choice([1, 4, 6, 9]))))   # unary quotients stay short
        enc.append(f"gcs.encode {p} {_csv(str(v) for v in vs)}")
        data = _gcs_encode(p, vs)
        r = rng.random()
        cnt = len(vs)
        if r < 0.12 and data:
            data = data[: rng.randrange(len(data))]
        elif r < 0.24 and data:
            k = rng.randrange(len(data))
            data = data[:k] + bytes([data[k] ^ (1 << rng.randrange(8))]) + data[k + 1:]
        elif r < 0.32:
            data = data + rng.choice([b"\x00", b"\x01", b"\x80", b"\x00\x00"])
        elif r < 0.4 and data:
            data = data[:-1] + bytes([data[-1] | 1])       # a padding bit set
        elif r < 0.48:
            cnt = max(0, cnt + rng.choice([-1, 1, 2]))
        elif r < 0.54:
            upper = max(0, (vs[-1] if vs else 0) + rng.choice([-1, 0, 1]))
        dec.append(f"gcs.decode {p} {upper} {cnt} {hx(data)}")
    ctx.stream("gcs.encode", enc)
    ctx.stream("gcs.decode", dec)
    fb, fh, fm, fr = [], [], [], []
    for _ in range(ctx.n(250, 6000)):
        h = _header(rng.getrandbits(32))
        _HDR_BY_HASH[h.hash] = h
        pool = [rand_script(rng) for _ in range(rng.choice([0, 1, 2, 5, 12, 30]))]
        outs = [rng.choice(pool) for _ in range(rng.randrange(0, len(pool) + 2))] if pool else []
        prevs = [rng.choice(pool) for _ in range(rng.randrange(0, len(pool) + 1))] if pool else []
        fb.append(f"f.build {hx(h.hash)} {_csv(hx(s) for s in outs)} {_csv(hx(s) for s in prevs)}")
        noise = [rand_script(rng) for _ in range(rng.randrange(0, 6))]
        ctx.check("filter.no_false_negative", {"outs": [s.hex() for s in outs], "prevs": [s.hex() for s in prevs],
                                               "nonce": h.nonce, "noise": [s.hex() for s in noise]})
        f = BasicBlockFilter.from_block(_block_for(h.hash, outs, prevs), prevs)
        data, cnt = f.encoded_set, f.element_count
        r = rng.random()
        if r < 0.15 and data:
            k = rng.randrange(len(data))
            data = data[:k] + bytes([data[k] ^ (1 << rng.randrange(8))]) + data[k + 1:]
        elif r < 0.25 and data:
            data = data[: rng.randrange(len(data))]
        elif r < 0.3:
            data += b"\x00"
        elif r < 0.35:
            cnt += rng.choice([-1, 1]) if cnt else 1
        fh.append(f"f.hashes {hx(h.hash)} {cnt} {hx(data)}")
        queries = [rng.choice(pool + noise) for _ in range(rng.randrange(0, 5))] if pool + noise else []
        fm.append(f"f.match {hx(h.hash)} {cnt} {hx(data)} {_csv(hx(q) for q in queries if q) if any(queries) else '_'}")
        fr.append(f"f.range {rng.getrandbits(64)} {rng.getrandbits(64)} {hx(rand_script(rng))} {rng.choice([0, 1, M, cnt * M, 1 << 64])}")
    ctx.stream("filter.build", fb)
    ctx.stream("filter.hashes", fh)
    ctx.stream("filter.match", fm)
    ctx.stream("filter.range", fr)
    for _ in range(ctx.n(300, 6000)):
        n = rng.choice([0, 1, 2, 3, 10, 50, rng.randrange(0, 200)])
        ctx.check("gcs.roundtrip", {"values": rand_sorted(rng, n, n * M), "bh": common.rand_bytes(rng, 32).hex()},
                  nontrivial=n > 0)
    import json
    vec = json.load(open(os.path.join(_DATA, "blockfilters.json")))[1:]
    ctx.exhaustive_streams.append(f"bip158.vectors: every row of tests/block/_data/blockfilters.json ({len(vec)} rows)")
    vlines = []
    for row in vec:
        ctx.check("bip158.vector", {"row": row})
        blk = Block.parse(bytes.fromhex(row[2]), check_validity=False)
        _REAL_BLOCKS[blk.header.hash] = blk
        outs = [o.script_pub_key.script for tx in blk.transactions for o in tx.vout]
        line = f"f.build {hx(blk.header.hash)} {_csv(hx(x) for x in outs)} {_csv(hx(bytes.fromhex(x)) for x in row[3])}"
        vlines.append(line)
        # the model against the recorded filter itself (count as CompactSize < 253, then the set)
        out = ctx.model(EXE, [line])
        if out is not None:
            n_, set_ = out[0].split(" ")[1:3]
            ser = bytes([int(n_)]) + unhx(set_) if int(n_) < 253 else None
            ctx.oracle("bip158.vector.model", ser is not None and ser.hex() == row[5],
                       f"height {row[0]}: model filter {out[0][:60]} vs vector {row[5][:40]}", key="bip158.vector.model")
    ctx.stream("filter.vectors", vlines)

    # ---------------------------------------------------------------- (d) compact blocks
    sid_lines, rec = [], []
    for _ in range(ctx.n(300, 5000)):
        sid_lines.append(f"cb.shortid {rng.getrandbits(64)} {rng.getrandbits(64)} {hx(common.rand_bytes(rng, 32))}")
    ctx.stream("cb.shortid", sid_lines)
    for _ in range(ctx.n(600, 20000)):
        count = rng.choice([0, 1, 2, 3, 4, 6, 9])
        pre = sorted(rng.sample(range(count), rng.randrange(0, min(count, 3) + 1))) if count else []
        r = rng.random()
        if r < 0.06 and pre:
            pre[-1] = count + rng.randrange(0, 2)             # past the block
        elif r < 0.1 and len(pre) > 1:
            pre[0], pre[1] = pre[1], pre[0]                    # out of order
        nsid = max(0, count - len(pre))
        space = list(range(100, 100 + nsid + 2))
        sids = rng.sample(space, nsid)
        if r > 0.93 and nsid > 1:
            sids[1] = sids[0]                                  # the message's own short ids collide
        tags = {}
        pool = []
        for _ in range(rng.randrange(0, 2 * nsid + 3)):
            tag = rng.randrange(0, 2 * nsid + 3)
            sid = tags.setdefault(tag, rng.choice(space + [7]))   # few short ids: pool collisions are common
            pool.append((sid, tag))
        rec.append(f"cb.reconstruct {_csv(str(x) for x in pre)} {_csv(str(x) for x in sids)} "
                   f"{_csv(f'{s}:{t}' for s, t in pool)}")
    ctx.stream("cb.reconstruct", rec)
    fl = []
    for _ in range(ctx.n(300, 6000)):
        n = rng.randrange(0, 8)
        part = [rng.choice(["-", str(rng.randrange(1, 50))]) for _ in range(n)]
        missing = part.count("-")
        k = missing if rng.random() < 0.7 else max(0, missing + rng.choice([-1, 1, 2]))
        fl.append(f"cb.fill {_csv(part)} {_csv(str(rng.randrange(50, 99)) for _ in range(k))}")
    ctx.stream("cb.fill", fl)
    # the whole exchange (compactOf / reconstruct / partialView / missing_indexes / fill) model vs real code
    rt = []
    for _ in range(ctx.n(500, 12000)):
        n = rng.choice([0, 1, 2, 3, 4, 5, 6, 8, 11])
        blk = rng.sample(range(1, 60), n)
        if n > 1 and rng.random() < 0.04:
            blk[rng.randrange(n)] = rng.choice(blk)               # the same transaction twice in the block
        pre = sorted(rng.sample(range(n), rng.randrange(0, min(n, 4) + 1))) if n else []
        r = rng.random()
        if r < 0.08 and len(pre) > 1:                              # (positions past the block: cb.reconstruct stream)
            pre[0], pre[1] = pre[1], pre[0]                        # out of order
        elif r < 0.1 and pre:
            pre = pre + [pre[-1]]                                  # repeated
        strangers = rng.sample(range(60, 90), rng.randrange(0, 5))
        space = list(range(100, 100 + rng.choice([n + 2, n + 2, 3 * n + 5, 1000])))
        table = {tag: rng.choice(space) for tag in set(blk) | set(strangers)}
        if rng.random() < 0.6:                                     # the block's own short ids distinct: the common case
            ids = rng.sample(range(100, 100 + max(n, 1) + 6), len(set(blk)))
            table.update(dict(zip(sorted(set(blk)), ids)))
        held = [tag for tag in blk if rng.random() < rng.choice([0.0, 0.5, 0.9, 1.0])]
        pool = held + strangers + ([rng.choice(held)] if held and rng.random() < 0.3 else [])
        rng.shuffle(pool)
        rt.append(f"cb.roundtrip {_csv(str(x) for x in pre)} {_csv(str(x) for x in blk)} {_csv(str(x) for x in pool)} "
                  f"{_csv(f'{a}:{b}' for a, b in sorted(table.items()))}")
    ctx.stream("cb.roundtrip", rt, nontrivial=lambda ln, out: out.startswith("ok"))
    # short-id key of a message (sha256(header || nonce)) incl. the recorded pair of btclib's tests
    big = _block("block_481824_complete.bin")
    klines = []
    for nonce in [0x0123456789ABCDEF, 0, 2**64 - 1] + [rng.getrandbits(64) for _ in range(ctx.n(20, 300))]:
        hdr = big.header if nonce == 0x0123456789ABCDEF else rng.choice([big.header, _header(rng.getrandbits(32))])
        ser = hdr.serialize(check_validity=False)
        _HDR_BY_SER[ser] = hdr
        klines.append(f"cb.key {hx(ser)} {nonce}")
    ctx.stream("cb.key", klines)
    # the pair and the short ids Core's test framework answers for block 481824 under that nonce (recorded in
    # /repo/tests/p2p/compact_blocks_test.py)
    keyed = CmpctBlock(big.header, 0x0123456789ABCDEF, [], [], check_validity=False)
    got = (keyed.short_id_key, [keyed.short_id(big.transactions[i].hash) for i in (12, 14, 22)])
    want = ((0xD38D02203181CC3D, 0xD86BC57836E4DE25), [0x541F7307BCCC, 0x2DBDFF2FFEDA, 0xFAC67E2868DF])
    ctx.oracle("cb.recorded", got == want, f"short id key / ids of block 481824: {got} instead of {want}")

    # ---------------------------------------------------------------- (e) block-level commitments, chain work
    txs_all = big.transactions
    rl, wl = [], []
    for _ in range(ctx.n(120, 2500)):
        k = rng.choice([0, 1, 2, 3, 4, 5, 7, 8, 13, rng.randrange(1, 40)])
        sel = list(txs_all[:k])
        r = rng.random()
        if r < 0.15 and len(sel) > 1:
            i, j = rng.sample(range(len(sel)), 2)
            sel[i], sel[j] = sel[j], sel[i]
        ids = [t.id[::-1] for t in sel]
        good = merkle_root_and_mutated_from_hashes(ids, hash256)[0] if ids else b"\x00" * 32
        listed = list(sel)
        if 0.15 <= r < 0.35 and len(sel) >= 3:
            listed = sel + [sel[-1]] if len(sel) % 2 else sel[:-1] + [sel[-2]]      # duplicated tail / equal last pair
        elif 0.35 <= r < 0.45 and sel:
            listed = sel[:-1]
        root = good if r < 0.85 else common.rand_bytes(rng, 32)
        hdr = copy.copy(big.header)
        hdr.merkle_root = root[::-1]
        b = Block(hdr, listed, check_validity=False)
        line = f"blk.root h256 {hx(root)} {_csv(hx(t.id[::-1]) for t in listed)}"
        _BLK_CASES[line] = b
        rl.append(line)
        # witness commitment over a synthetic coinbase and real transactions
        from btclib.tx.tx_in import TxIn as _TxIn
        from btclib.script import Witness
        rest = list(txs_all[1:rng.choice([1, 2, 13, 15, 23, 24])])
        if rng.random() < 0.15:
            rest = [t for t in rest if not t.is_segwit]
        wt = [hash256(t.serialize(include_witness=True, check_validity=False)) for t in rest]
        nonce = common.rand_bytes(rng, 32)
        wroot = merkle_root_and_mutated_from_hashes([b"\x00" * 32] + wt, hash256)[0]
        commit = hash256(wroot + nonce)
        pre = bytes.fromhex("6a24aa21a9ed")
        q = rng.random()
        scripts = [b"\x51", pre + commit]
        stack = [nonce]
        if q < 0.1:
            scripts = [b"\x51"]
        elif q < 0.2:
            scripts = [pre + common.rand_bytes(rng, 32), pre + commit + b"\x01\x02"]     # last one wins, longer script
        elif q < 0.3:
            scripts = [pre + commit, pre + common.rand_bytes(rng, 32)]                   # last one wins: wrong
        elif q < 0.38:
            scripts = [pre + commit[:31]]                                                # too short to count
        elif q < 0.46:
            stack = [nonce[:31]]
        elif q < 0.54:
            stack = [nonce, nonce]
        elif q < 0.6:
            stack = []
        elif q < 0.68:
            scripts = [b"\x6a\x24\xaa\x21\xa9\xee" + commit, b"\x51"]
        cb_in = _TxIn(OutPoint(b"\x00" * 32, 0xFFFFFFFF), b"\x51\x51", 0xFFFFFFFF, Witness(stack), check_validity=False)
        cbtx = Tx(1, 0, [cb_in], [TxOut(0, sc, check_validity=False) for sc in scripts], check_validity=False)
        wb = Block(copy.copy(big.header), [cbtx] + rest, check_validity=False)
        line = (f"blk.wc h256 {wb.is_segwit} {_csv(hx(sc) for sc in scripts)} "
                f"{_csv(hx(x) for x in stack)} {_csv(hx(x) for x in wt)}")
        _BLK_CASES[line] = wb
        wl.append(line)
    ctx.stream("block.merkle_root", rl)
    ctx.stream("block.witness_commitment", wl)
    cw = []
    for _ in range(ctx.n(300, 6000)):
        n = rng.choice([0, 1, 2, 3, 6])
        seq = [(rng.choice([0x1D00FFFF, 0x1B0404CB, 0x170331DB, 0x207FFFFF]) if rng.random() < 0.8 else rand_bits(rng)).to_bytes(4, "big")
               for _ in range(n)]
        if rng.random() < 0.05 and seq:
            seq[rng.randrange(len(seq))] = common.rand_bytes(rng, rng.choice([0, 3, 5]))
        if any(len(x) == 0 for x in seq):
            continue
        cw.append(f"pow.chainwork {_csv(hx(x) for x in seq)}")
    # equal-magnitude positive / negative / zero / overflowing bits in every order (history independence)
    import itertools
    fam = [bytes.fromhex(x) for x in ("1d00ffff", "1d80ffff", "1b0404cb", "1b8404cb", "1d000000", "1d800000",
                                      "2200ffff", "2300ffff", "2380ffff", "03000001", "03800001", "01000000")]
    ctx.exhaustive_streams.append("pow.chainwork.orders: every ordered pair and a sample of ordered triples over 12 "
                                  "equal-magnitude positive/negative/zero/overflow bits")
    ordered = [list(p_) for p_ in itertools.product(fam, repeat=2)]
    ordered += [list(p_) for p_ in itertools.permutations(fam[:6], 3)]
    ordered += [[rng.choice(fam) for _ in range(rng.randrange(3, 7))] for _ in range(ctx.n(100, 3000))]
    cw += [f"pow.chainwork {_csv(hx(x) for x in q)}" for q in ordered]
    ctx.stream("pow.chainwork", cw)
    for q in [list(c) for c in itertools.combinations(fam, 2)] + [list(c) for c in itertools.combinations(fam[:8], 3)] \
            + [[fam[0], fam[1], fam[0]], [fam[0], fam[0], fam[1]], [fam[2], fam[3], fam[2], fam[0]]] \
            + [[rng.choice(fam + [rand_bits(rng).to_bytes(4, "big")]) for _ in range(rng.randrange(2, 5))]
               for _ in range(ctx.n(40, 800))]:
        ctx.check("pow.chain_work", {"seq": [x.hex() for x in q]})

    for mode in ("none", "coinbase", "subset", "subset0"):
        for k in range(ctx.n(4, 40)):
            ctx.check("cb.fill", {"seed": rng.getrandbits(32), "n": rng.choice([1, 2, 5, 20, 60]), "nonce": rng.getrandbits(64),
                                  "prefill": mode}, key="cb.reconstruct_fill")
