"""Validation of the translator on every run (DESIGN 2.2): each generated Lean function and its
Python original are executed on the same boundary-heavy argument tuples (`gen.*` streams)."""
from __future__ import annotations

import ast
import inspect
import os
import sys

from . import common

sys.path.insert(0, os.path.join(common.ROOT, "tools"))

_SPECS = None


def specs():
    global _SPECS
    if _SPECS is None:
        import extract
        _SPECS = {}
        for m in extract.load_plugins():
            try:
                fs = m.functions() if hasattr(m, "functions") else []
            except Exception:
                fs = []
            for s in fs:
                _SPECS[(m.NS, s.lean)] = s
    return _SPECS


def literals_of(spec):
    """integer literals in the function's source: boundaries worth probing."""
    vals = set()
    try:
        obj = spec.module
        for part in spec.pyname.split("."):
            obj = getattr(obj, part)
        tree = ast.parse(inspect.getsource(obj).lstrip() if not inspect.getsource(obj).startswith(" ") else
                         "if 1:\n" + inspect.getsource(obj))
        for n in ast.walk(tree):
            if isinstance(n, ast.Constant) and isinstance(n.value, int) and not isinstance(n.value, bool):
                vals.add(n.value)
    except Exception:
        pass
    return sorted(vals)


def parse_arg(kind, tok):
    if kind == "int":
        return int(tok)
    if kind == "bytes":
        return common.unhx(tok)
    if kind == "bool":
        return tok == "True"
    raise ValueError(kind)


def fmt_arg(kind, v):
    if kind == "int":
        return str(v)
    if kind == "bytes":
        return common.hx(v)
    if kind == "bool":
        return "True" if v else "False"
    raise ValueError(kind)


def impl_gen(ns, fn, toks, index):
    """Evaluate the Python original of generated function ns.fn on protocol tokens."""
    spec = specs().get((ns, fn))
    ent = next((f for f in index["modules"].get(ns, {}).get("functions", []) if f["lean"] == fn), None)
    if spec is None or ent is None:
        return "bad-op"
    args = [parse_arg(k, t) for (_, k), t in zip(ent["params"], toks)]
    if spec.call is not None:
        f = spec.call
    else:
        f = spec.module
        for part in spec.pyname.split("."):
            f = getattr(f, part)
    return common.call_impl(f, *args)


def gen_args(rng, spec, ent, n):
    kinds = [k for _, k in ent["params"]]
    if spec.gen is not None:
        return [tuple(spec.gen(rng)) for _ in range(n)]
    lits = literals_of(spec)
    ints = common.boundary_ints(rng, extra=lits)
    out = []
    # one-dimensional sweep of boundaries in each int position, others random
    for i, k in enumerate(kinds):
        if k == "int":
            for v in ints:
                out.append(tuple(v if j == i else _rand(rng, kk, lits) for j, kk in enumerate(kinds)))
    while len(out) < n:
        out.append(tuple(_rand(rng, k, lits) for k in kinds))
    rng.shuffle(out)
    return out[:max(n, 1)]


def _rand(rng, kind, lits):
    if kind == "int":
        r = rng.random()
        if lits and r < 0.4:
            return rng.choice(lits) + rng.choice([-1, 0, 1])
        return common.rand_int(rng)
    if kind == "bytes":
        return common.rand_bytes(rng, rng.choice([0, 1, 2, 3, 4, 5, 8, 20, 32, 33]))
    if kind == "bool":
        return rng.random() < 0.5
    raise ValueError(kind)


def run(ctx, modules):
    if not modules:
        return
    import json
    index = json.load(open(os.path.join(common.LEAN, "Generated", "index.json")))
    exe = ctx.harness.EXE
    for ns in modules:
        for ent in index["modules"].get(ns, {}).get("functions", []):
            spec = specs().get((ns, ent["lean"]))
            if spec is None:
                continue
            cases = []
            for args in gen_args(ctx.rng, spec, ent, ctx.n(400, 4000)):
                toks = [fmt_arg(k, v) for (_, k), v in zip(ent["params"], args)]
                line = " ".join(["gen", ns, ent["lean"]] + toks)
                cases.append((line, impl_gen(ns, ent["lean"], toks, index)))
            ctx.correspond(f"gen.{ns}.{ent['lean']}", exe, cases)
