"""C11 — PSBT roles are lossless, order-independent and never alias their arguments (DESIGN §3 C11).

Correspondence: the Lean model of `psbt.combine` / `_unsigned_tx` / `to_v0` / `to_v2` /
`assert_signatures_only` (structural part) against the real btclib, in-process, on
 * families: one base PSBT (vendored vectors of /repo/tests/psbt/_data + built ones, v0 and v2), its mergeable
   fields partitioned over k <= 5 copies, ALL permutations x ALL bracketings for small k (sampled above);
 * conflicting partitions, foreign versions / transactions (the malformed stream);
 * single-field tamperings of a signer's answer.
Oracles on the real code alone: equal serialisation / equal object over every order and bracketing (families whose
required lock times are partitioned: every flat order alike, accepted groupings equal the flat result; that a grouping is
refused half way is the ONE keyed finding combine.locktime-partition.grouping), every pair of
every operand kept, operands' serialisations unchanged and no shared mutable object after every role, identity
(tx.id / unique_id) preserved by sign / finalize / to_v0 / to_v2 over role sequences of length <= 6,
`assert_signatures_only` refuses every single-field tampering.
Version 0 on the wire (`wirev0` / `readv0`): the model's writeV0 / readV0 against btclib's own bytes, taken apart with
btclib's map readers (transaction in PSBT_GLOBAL_UNSIGNED_TX, maps read under psbt_version=0) and against
Psbt.parse(serialize()).  A signer's answer read whole (`asigonly`, `asigned`, `newsigners`): the models of
assert_signatures_only (with the verification of what arrived), assert_signed and new_signers against the real functions;
the two parameters of those models are handed over on the line: V (does this ONE signature verify: btclib's own
_assert_ecdsa_sigs_verify / _assert_taproot_sigs_verify on a copy of the psbt holding that entry alone) and O (the
master fingerprint the psbt attributes a key to, looked up by the harness from the BIP174/371/373 fields).  Requests with
p2wpkh, key-path p2tr and SCRIPT-PATH p2tr inputs (two `<key> OP_CHECKSIG` leaves); answers honest / partial / echoed /
swapped / with one added signature corrupted / sig-hash type stated / finalized / origin missing / non-signature field
tampered.  Oracle roles.alias-all: every public function of the anchor modules with a Psbt parameter and every public
method / property / constructor of Psbt, FOUND BY INTROSPECTION (a new one without an argument recipe is a harness
error), on signed psbts: arguments unchanged, result shares no mutable object, writing all over the result (deeply)
changes nothing that was handed in; the five documented in-place Updater functions (IN_PLACE) only have to return None.
An op line ends with `#<base64 pickle>` of the real operands, so that a line can be replayed on its own.
"""
from __future__ import annotations

import base64
import dataclasses
import importlib.util
import itertools
import json
import os
import pickle
from copy import deepcopy

from btclib.ecc import dsa
from btclib.exceptions import BTClibValueError
from btclib.bip32.key_origin import BIP32KeyOrigin
from btclib.psbt import psbt as M
from btclib.psbt.psbt import Psbt, combine, finalize, sign, assert_signatures_only
from btclib.psbt.psbt_in import PsbtIn
from btclib.psbt.psbt_out import PsbtOut
from btclib.script.script_pub_key import ScriptPubKey
from btclib.script.witness import Witness
from btclib.tx.out_point import OutPoint
from btclib.tx.tx import Tx
from btclib.tx.tx_in import TxIn
from btclib.tx.tx_out import TxOut

from . import common

PROP = "C11"
EXE = "drv_c11"
GEN_MODULES = ["Combine"]
RULE = ("one seeded PRNG; a family = one base psbt (vendored BIP174/370/371/373/375 vectors and built ones) whose "
        "mergeable fields are partitioned over k<=5 copies; every permutation and every bracketing for k<=4 "
        "in thorough, k<=3 in quick (above: sampled); non-trivial = the implementation did not refuse; distinct = "
        "distinct (stream, op line without its replay payload)")
TRUSTED = ["hand-written model Model/C11/{Combine,Roles,Wire,Signed}.lean tied by correspondence; field lists and rules are generated",
           "whether ONE signature verifies (V) and which fingerprint a key is attributed to (O) are parameters of the "
           "signer-answer models; the harness computes V with btclib's own verifiers on singletons and O from the psbt's fields",
           "txid modelled as injective (the model compares unsigned transactions, not hashes)",
           "validity of operands (assert_valid) and of signatures is not modelled: generators feed valid operands",
           "Python object aliasing is observed (serialisations before/after, id() of mutable parts), not modelled"]
ASSUMPTIONS = ["operands of combine are valid psbts (assert_valid)", "dict keys are compared as byte strings",
               "hypotheses carried by counted theorems: Compatible (T1, combine_perm); Operand + tx_modifiable < 256 (combine_idem); "
               "V0Shaped (wire_parse_serialize, toV0_toV2_id); no silent-payment output (second half of wire_preserves_tx); "
               "key-sorted answer map (last clause of assertSignaturesOnly_sound); acceptance of the inner combine (combine_bracket)",
               "txid modelled as injective"]

_SPEC = None


def spec():
    global _SPEC
    if _SPEC is None:
        p = os.path.join(common.ROOT, "tools", "specs", "combine.py")
        s = importlib.util.spec_from_file_location("specs_combine_c11", p)
        m = importlib.util.module_from_spec(s)
        s.loader.exec_module(m)
        _SPEC = m.extract_all()
    return _SPEC


# ------------------------------------------------------------------ canonical rendering of real objects
def _canon(v):
    if isinstance(v, (bytes, bytearray)):
        return "x" + bytes(v).hex()
    if isinstance(v, BIP32KeyOrigin):
        return ("origin", v.master_fingerprint.hex(), tuple(v.der_path))
    if isinstance(v, (tuple, list)):
        return tuple(_canon(x) for x in v)
    if isinstance(v, bool) or v is None or isinstance(v, (int, str)):
        return v
    if isinstance(v, Tx):
        return "s" + v.serialize(include_witness=True, check_validity=False).hex()
    if isinstance(v, (TxOut, Witness)):
        return "s" + v.serialize(check_validity=False).hex()
    raise TypeError(type(v).__name__)


def _takes_cv(v):
    return isinstance(v, (Tx, TxOut, Witness))


def _val(v):
    if isinstance(v, bool):
        raise TypeError("bool")
    if isinstance(v, int):
        return f"i{v}"
    if isinstance(v, (bytes, bytearray)):
        return "b" + bytes(v).hex()
    if isinstance(v, Witness):
        return "b" + (v.serialize(check_validity=False).hex() if len(v) else "")
    if isinstance(v, (Tx, TxOut)):
        return "o" + v.serialize(check_validity=False).hex() if isinstance(v, TxOut) else \
            "o" + v.serialize(include_witness=True, check_validity=False).hex()
    if isinstance(v, list):      # taproot_tree: positional, taken whole; falsy iff empty
        return "b" + (repr(_canon(v)).encode().hex() if v else "")
    return "o" + repr(_canon(v)).encode().hex()


def _key(k: bytes) -> int:
    return int.from_bytes(b"\x01" + k, "big")


def slot(v):
    if v is None:
        return "N"
    if isinstance(v, dict):
        return "d" + "|".join(f"{_key(k)}:{_val(x)}" for k, x in sorted(v.items(), key=lambda kv: _key(kv[0])))
    return _val(v)


def render(p: Psbt) -> str:
    u = spec()["universe"]
    es = [f"g0.{n}={slot(getattr(p, n))}" for n, *_ in u["glob"]]
    for i, x in enumerate(p.inputs):
        es += [f"i{i}.{n}={slot(getattr(x, n))}" for n, *_ in u["in"]]
    for i, x in enumerate(p.outputs):
        es += [f"o{i}.{n}={slot(getattr(x, n))}" for n, *_ in u["out"]]
    return f"{p.version};{len(p.inputs)};{len(p.outputs)};" + ",".join(es)


def payload(obj) -> str:
    return "#" + base64.b64encode(pickle.dumps(obj)).decode()


def unpayload(line: str):
    return pickle.loads(base64.b64decode(line.rsplit("#", 1)[1]))


def _err(e):
    c = common.err_class(e)
    return "err " + (c if not c.startswith("foreign") else "foreign:" + type(e).__name__)


# ------------------------------------------------------------------ expressions: nested combines
def trees(seq):
    """all bracketings of seq: plane trees whose internal nodes have >= 2 children (nested combine calls)."""
    seq = tuple(seq)
    if len(seq) == 1:
        return [seq[0]]
    out = []
    n = len(seq)
    for m in range(2, n + 1):
        for cuts in itertools.combinations(range(1, n), m - 1):
            blocks = [seq[a:b] for a, b in zip((0,) + cuts, cuts + (n,))]
            for parts in itertools.product(*[trees(b) if len(b) > 1 else [b[0]] for b in blocks]):
                out.append(tuple(parts))
    return out


def expr_tokens(t, toks):
    if isinstance(t, tuple):
        return "( " + " ".join(expr_tokens(x, toks) for x in t) + " )"
    return toks[t]


def eval_expr(t, ps):
    if isinstance(t, tuple):
        return combine([eval_expr(x, ps) for x in t])
    return ps[t]


def combine_line(t, ps, toks):
    return f"combine {expr_tokens(t, toks)} " + payload({"op": "combine", "expr": t, "psbts": ps})


def impl(line: str) -> str:
    d = unpayload(line)
    op = d["op"]
    try:
        if op == "combine":
            return "ok " + render(eval_expr(d["expr"], d["psbts"]))
        if op == "tx":
            return render_tx(d["psbt"], d["for_id"])
        if op == "sigonly":
            assert_signatures_only(d["request"], d["returned"])
            return "ok"
        if op == "tov0":
            return "ok " + render(d["psbt"].to_v0())
        if op == "tov2":
            return "ok " + render(d["psbt"].to_v2())
        if op == "wirev0":
            return render_wire(d["psbt"])
        if op == "readv0":
            return "ok " + render(Psbt.parse(d["psbt"].serialize()))
        if op == "asigonly":
            assert_signatures_only(d["request"], d["returned"])
            return "ok"
        if op == "asigned":
            M.assert_signed(d["psbt"], allow_partial=d["allow_partial"])
            return "ok"
        if op == "newsigners":
            return "ok " + ",".join(str(x) for x in sorted(int.from_bytes(f, "big") for f in
                                                            M.new_signers(d["request"], d["returned"])))
    except Exception as e:  # noqa: BLE001
        return _err(e)
    return "bad-op"


def render_tx(p: Psbt, for_id: bool) -> str:
    try:
        tx = M._unsigned_tx(p, for_identifier=for_id)
    except Exception as e:  # noqa: BLE001
        return _err(e)
    vin = ",".join(f"{slot(i.prev_out.tx_id)}:{i.prev_out.vout}:{i.sequence}" for i in tx.vin)
    vout = ",".join(f"{o.value}:{o.script_pub_key.script.hex()}" for o in tx.vout)
    return f"ok ver=i{tx.version} lock={tx.lock_time} vin={vin} vout={vout}"


def _tx_str(tx: Tx) -> str:
    vin = ",".join(f"{slot(i.prev_out.tx_id)}:{i.prev_out.vout}:{i.sequence}" for i in tx.vin)
    vout = ",".join(f"{o.value}:{o.script_pub_key.script.hex()}" for o in tx.vout)
    return f"ok ver=i{tx.version} lock={tx.lock_time} vin={vin} vout={vout}"


def render_wire(p: Psbt) -> str:
    """what a version 0 psbt IS on the wire, read off its own bytes with btclib's map readers: the transaction in
    PSBT_GLOBAL_UNSIGNED_TX, and every map as `PsbtIn.parse` / `PsbtOut.parse` read it under psbt_version=0 (the
    BIP370 fields are not there to be read: the maps are rendered without them)."""
    from io import BytesIO
    from btclib.psbt.psbt_utils import deserialize_map
    if p.version != 0:
        raise common.HarnessError("wirev0 asked of a psbt that is not version 0")
    try:
        raw = p.serialize()
    except Exception as e:  # noqa: BLE001
        return _err(e)
    st = BytesIO(raw)
    if st.read(5) != M.PSBT_MAGIC_BYTES:
        raise common.HarnessError("no magic bytes")
    gmap = deserialize_map(st)
    tx = Tx.parse(gmap[M.PSBT_GLOBAL_UNSIGNED_TX], check_validity=False)
    ins = [PsbtIn.parse(st, psbt_version=0) for _ in tx.vin]
    outs = [PsbtOut.parse(st, psbt_version=0) for _ in tx.vout]
    if st.read(1):
        raise common.HarnessError("trailing bytes")
    back = Psbt.parse(raw)          # the globals that are not BIP370's: read by the one reader there is
    u = spec()["universe"]
    es = [f"g0.{n}={slot(getattr(back, n))}" for n, _k, _p, v2 in u["glob"] if not v2]
    for i, x in enumerate(ins):
        es += [f"i{i}.{n}={slot(getattr(x, n))}" for n, _k, _p, v2 in u["in"] if not v2]
    for i, x in enumerate(outs):
        es += [f"o{i}.{n}={slot(getattr(x, n))}" for n, _k, _p, v2 in u["out"] if not v2]
    return _tx_str(tx) + " maps=" + ",".join(es)


def _sig_items(x, n):
    v = getattr(x, n)
    return list(v.items()) if isinstance(v, dict) else ([(None, v)] if v else [])


def verdict_table(p: Psbt) -> str:
    """the parameter V of the model: for every entry of every VERIFIED signature field of every input, does that one
    signature verify -- asked of btclib's own two verifiers on a copy of the psbt holding that entry alone."""
    names = spec()["signer"]["verified"]
    es = []
    for i, x in enumerate(p.inputs):
        for n in names:
            for k, val in _sig_items(x, n):
                q = deepcopy(p)
                y = q.inputs[i]
                for m in names:
                    setattr(y, m, {} if isinstance(getattr(y, m), dict) else b"")
                setattr(y, n, val if k is None else {k: val})
                try:
                    M._assert_ecdsa_sigs_verify(y, q.tx, i, None)
                    M._assert_taproot_sigs_verify(q, i, None)
                    ok = 1
                except BTClibValueError:
                    ok = 0
                es.append(f"{i}.{n}.{0 if k is None else _key(k)}:{ok}")
    return "v" + ",".join(es)


def origin_table(p: Psbt) -> str:
    """the parameter O of the model: the master fingerprint the psbt attributes the key of each signature entry to,
    looked up here independently of `new_signers` (BIP174 / BIP371 / BIP373 say where)."""
    es = []
    for i, x in enumerate(p.inputs):
        for n in spec()["sigfields"]:
            for k, _val in _sig_items(x, n):
                if n == "partial_sigs":
                    o = x.hd_key_paths.get(k)
                elif n.startswith("musig2_"):
                    o = x.hd_key_paths.get(k[:33])
                elif n == "taproot_key_spend_signature":
                    d = x.taproot_hd_key_paths.get(x.taproot_internal_key)
                    o = d[1] if d else None
                else:
                    d = x.taproot_hd_key_paths.get(k[:32])
                    o = d[1] if d else None
                if o is not None:
                    es.append(f"{i}.{n}.{0 if k is None else _key(k)}:{int.from_bytes(o.master_fingerprint, 'big')}")
    return "o" + ",".join(es)


def asigonly_line(req, ret):
    return f"asigonly {render(req)} {render(ret)} {verdict_table(ret)} " + \
        payload({"op": "asigonly", "request": req, "returned": ret})


def asigned_line(p, allow_partial):
    return f"asigned {int(allow_partial)} {render(p)} {verdict_table(p)} " + \
        payload({"op": "asigned", "psbt": p, "allow_partial": allow_partial})


def newsigners_line(req, ret):
    return f"newsigners {render(req)} {render(ret)} {origin_table(ret)} " + \
        payload({"op": "newsigners", "request": req, "returned": ret})


# ------------------------------------------------------------------ seeds and families
_SEEDS = None
PRV = [0x1111 + 7919 * i for i in range(1, 6)]


def _pub(prv):
    from btclib.to_pub_key import pub_keyinfo_from_prv_key
    return pub_keyinfo_from_prv_key(prv, compressed=True)[0]


def vendored():
    out = []
    d = "/repo/tests/psbt/_data"

    def walk(x):
        if isinstance(x, str):
            if x.startswith("cHNidP") and len(x) < 6000:
                try:
                    out.append(Psbt.b64decode(x))
                except Exception:  # noqa: BLE001 - invalid vectors are not seeds
                    pass
        elif isinstance(x, dict):
            for v in x.values():
                walk(v)
        elif isinstance(x, list):
            for v in x:
                walk(v)
    for fn in sorted(os.listdir(d)):
        if fn.endswith(".json"):
            walk(json.load(open(os.path.join(d, fn))))
    # distinct by serialisation
    seen, res = set(), []
    for p in out:
        s = p.serialize()
        if s not in seen and 0 < len(p.inputs) <= 4 and len(p.outputs) <= 4:
            seen.add(s)
            res.append(p)
    return res


def script_path_input(rng, amount):
    """a taproot input spendable by script path: internal key PRV[0], two `<key> OP_CHECKSIG` leaves of PRV[1], PRV[2]
    (BIP371 fields: leaf scripts under their control blocks, the leaf keys filed under their tapleaf hashes, the
    merkle root; half of the time the internal key's origin too, so that the key path can be signed as well)."""
    from btclib.script import taproot as T
    ik, lk = _pub(PRV[0]), [_pub(PRV[1]), _pub(PRV[2])]
    scripts = [[k[1:].hex(), "OP_CHECKSIG"] for k in lk]
    tree = [[(0xC0, scripts[0])], [(0xC0, scripts[1])]] if rng.random() < 0.7 else [(0xC0, scripts[0])]
    n_leaves = 2 if len(tree) == 2 else 1
    _, root = T.tree_helper(tree)
    leaves, hd = {}, {}
    for n in range(n_leaves):
        sc, cb = T.input_script_sig(ik, tree, n)
        sb = T.serialize(sc)
        leaves[cb] = (sb, 0xC0)
        hd[lk[n][1:]] = ([T.leaf_hash(0xC0, sb)], BIP32KeyOrigin(b"\xaa\xbb\xcc\xdd", f"m/86h/0h/0h/1/{n}"))
    if rng.random() < 0.5:
        hd[ik[1:]] = ([], BIP32KeyOrigin(b"\xaa\xbb\xcc\xdd", "m/86h/0h/0h/0/0"))
    return PsbtIn(witness_utxo=TxOut(amount, ScriptPubKey.p2tr(ik, tree)), taproot_internal_key=ik[1:],
                  taproot_merkle_root=root, taproot_leaf_scripts=leaves, taproot_hd_key_paths=hd)


def built(rng, version, taproot=None):
    """a signable psbt built here: p2wpkh inputs (and, half of the time, a key-path p2tr one) with known keys."""
    taproot = rng.choice([False, True, "script"]) if taproot is None else taproot
    n_in = rng.randrange(1, 4)
    vin, ins = [], []
    for i in range(n_in):
        prv = PRV[i % len(PRV)]
        pk = _pub(prv)
        vin.append(TxIn(OutPoint(common.rand_bytes(rng, 32), rng.randrange(3)), b"",
                        rng.choice([0xFFFFFFFF, 0xFFFFFFFD, 0, 5])))
        if taproot == "script" and i == 0:
            pin = script_path_input(rng, 50_000 + i)
        elif taproot and i == 0:       # a key-path taproot input: schnorr signing, taproot finalizing
            pin = PsbtIn(witness_utxo=TxOut(50_000 + i, ScriptPubKey.p2tr(pk)), taproot_internal_key=pk[1:],
                         taproot_hd_key_paths={pk[1:]: ([], BIP32KeyOrigin(b"\xaa\xbb\xcc\xdd", f"m/86h/0h/0h/0/{i}"))})
        else:
            pin = PsbtIn(witness_utxo=TxOut(50_000 + i, ScriptPubKey.p2wpkh(pk)),
                         hd_key_paths={pk: BIP32KeyOrigin(b"\xaa\xbb\xcc\xdd", f"m/84h/0h/0h/0/{i}")})
        ins.append(pin)
    vout = [TxOut(10_000 + j, ScriptPubKey.p2wpkh(_pub(PRV[(j + 2) % len(PRV)]))) for j in range(rng.randrange(1, 3))]
    tx = Tx(2, rng.choice([0, 0, 650_000, 1_700_000_000]), vin, vout)
    p = Psbt.from_tx(tx, ins)
    if version == 2:
        p = p.to_v2()
        p.tx_modifiable = rng.choice([None, 0, 1, 3, 7])
        p.assert_valid()
    return p


class KM:
    """KeyManager over the PRV keys (ECDSA only)."""

    def __init__(self, prvs):
        self.by_pub = {_pub(k): k for k in prvs}

    def sign_ecdsa(self, pub_key, origin, msg_hash):
        k = self.by_pub.get(pub_key)
        return None if k is None else dsa.sign_(msg_hash, k).serialize()

    def sign_schnorr(self, pub_key, origin, msg_hash, merkle_root):
        from btclib.ecc import ssa
        from btclib.script.taproot import output_prvkey_from_merkle_root
        k = {p[1:]: v for p, v in self.by_pub.items()}.get(pub_key)
        return None if k is None else ssa.sign_(msg_hash, output_prvkey_from_merkle_root(k, merkle_root)).serialize()

    def sign_schnorr_script_path(self, pub_key, origin, msg_hash, leaf_hash):
        from btclib.ecc import ssa
        k = {p[1:]: v for p, v in self.by_pub.items()}.get(pub_key)
        return None if k is None else ssa.sign_(msg_hash, k).serialize()


def seeds(rng):
    global _SEEDS
    if _SEEDS is None:
        _SEEDS = vendored()
    return _SEEDS


# fields a partition leaves in every copy: what the identifier reads (a copy without them is another
# transaction, or -- script_pub_key -- finding combine.sp-script-dropped) and tx_modifiable (handled apart)
LOCK_FIELDS = {"required_time_lock_time", "required_height_lock_time"}


def _sticky(sec, lockpart=False):
    st = set(spec()["idreads"][sec]) | {"tx_modifiable"}
    return st - LOCK_FIELDS if lockpart and sec == "in" else st


def _empty_like(v):
    if isinstance(v, dict):
        return {}
    if isinstance(v, Witness):
        return Witness()
    if isinstance(v, list):
        return []
    if isinstance(v, (bytes, bytearray)):
        return b""
    return None


def partition(rng, base: Psbt, k: int, lockpart=False):
    """k copies of base; every mergeable field (every pair of a dict field) lands in a random non-empty set of copies."""
    copies = [deepcopy(base) for _ in range(k)]
    calls = spec()["calls"]

    def spread(objs, sec):
        for name, rule in calls[sec]:
            if name in _sticky(sec, lockpart) or rule == "modifiable":
                continue
            v = getattr(objs[0], name)
            if not v and v != 0:
                continue
            if isinstance(v, dict):
                for o in objs:
                    setattr(o, name, {})
                for key, val in v.items():
                    who = [j for j in range(k) if rng.random() < 0.5] or [rng.randrange(k)]
                    for j in who:
                        getattr(objs[j], name)[key] = deepcopy(val)
                for o in objs:  # keep btclib's own ordering convention irrelevant: shuffle insertion order
                    items = list(getattr(o, name).items())
                    rng.shuffle(items)
                    setattr(o, name, dict(items))
            else:
                who = set([j for j in range(k) if rng.random() < 0.5] or [rng.randrange(k)])
                for j, o in enumerate(objs):
                    if j not in who:
                        setattr(o, name, _empty_like(v))
    spread(copies, "glob")
    for i in range(len(base.inputs)):
        spread([c.inputs[i] for c in copies], "in")
    for i in range(len(base.outputs)):
        spread([c.outputs[i] for c in copies], "out")
    if base.version == 2:
        for c in copies:
            if rng.random() < 0.5:
                c.tx_modifiable = rng.choice([None, 0, 1, 2, 3, 4, 5, 7, 0x80, 0xFF])
            for x in c.inputs:      # the sequence is an Updater's: not part of the v2 identifier
                if rng.random() < 0.3:
                    x.sequence = None
    ok = []
    for c in copies:
        try:
            c.assert_valid()
            ok.append(c)
        except BTClibValueError:
            # a label without its info etc.: put the copy back to the base's own fields
            ok.append(deepcopy(base))
    return ok


def family(rng, ctx):
    r = rng.random()
    sd = seeds(rng)
    if r < 0.7 and sd:
        base = deepcopy(rng.choice(sd))
    else:
        base = built(rng, rng.choice([0, 2]))
        if rng.random() < 0.6:
            base = sign(base, KM(rng.sample(PRV, rng.randrange(1, 4))))[0]
    for x in base.inputs:
        if x.sig_hash_type == 0:
            x.sig_hash_type = None      # finding combine.sighash0-order has its own oracle
    k = rng.choice([2, 2, 3, 3, 4, 5])
    ctx.count("family", f"v{base.version} k={k}")
    return base, partition(rng, base, k)


# ------------------------------------------------------------------ oracles (real code only)
def _mutable_ids(p: Psbt):
    ids = set()

    def walk(o):
        if isinstance(o, (dict, list, Witness, Tx, TxOut, TxIn, PsbtIn, PsbtOut, Psbt, BIP32KeyOrigin)):
            ids.add(id(o))
        if isinstance(o, dict):
            for v in o.values():
                walk(v)
        elif isinstance(o, (list, tuple)):
            for v in o:
                walk(v)
        elif dataclasses.is_dataclass(o):
            for f in dataclasses.fields(o):
                walk(getattr(o, f.name))
    walk(p)
    return ids


def _pairs(p: Psbt):
    """every key-value pair serialize can emit, as (section, index, field, key, value)."""
    out = set()
    u = spec()["universe"]

    def sect(obj, sec, i):
        for n, kind, pres, _ in u[sec]:
            v = getattr(obj, n)
            if pres == "never" or (sec == "glob" and n == "tx_modifiable"):
                continue
            if isinstance(v, dict):
                for k, x in v.items():
                    out.add((sec, i, n, k.hex(), repr(_canon(x))))
            elif v is None or (pres == "truthy" and not v):
                continue
            else:
                out.add((sec, i, n, "", repr(_canon(v)) if not isinstance(v, Witness) else _val(v)))
    sect(p, "glob", 0)
    for i, x in enumerate(p.inputs):
        sect(x, "in", i)
    for i, x in enumerate(p.outputs):
        sect(x, "out", i)
    return out


def _o_orders(w):
    """combine over every given order/bracketing: one serialisation, one object, nothing lost, nothing aliased."""
    d = unpayload(w["payload"])
    ps, exprs = d["psbts"], d["exprs"]
    before = [p.serialize() for p in ps]
    ids = set().union(*[_mutable_ids(p) for p in ps])
    want = set().union(*[_pairs(p) for p in ps])
    first = None
    for t in exprs:
        try:
            r = eval_expr(t, ps)
        except Exception as e:  # noqa: BLE001
            return False, f"order {t}: raised {type(e).__name__}: {e}"
        if [p.serialize() for p in ps] != before:
            return False, f"order {t}: an operand was modified by combine"
        if _mutable_ids(r) & ids:
            return False, f"order {t}: the result shares a mutable object with an operand"
        lost = want - _pairs(r)
        if lost:
            return False, f"order {t}: lost {sorted(lost)[:3]}"
        s = (r.serialize(), render(r))
        if first is None:
            first = (t, s)
        elif s[0] != first[1][0]:
            return False, f"orders {first[0]} and {t} serialise differently"
        elif s[1] != first[1][1]:
            return False, f"orders {first[0]} and {t} give different objects (same bytes)"
    return True, f"{len(exprs)} orders agree"


def _o_idem(w):
    p = unpayload(w["payload"])["psbt"]
    try:
        r = combine([p, p])
    except Exception as e:  # noqa: BLE001
        return False, f"combine([x,x]) raised {type(e).__name__}: {e}"
    return (r.serialize() == p.serialize() and render(r) == render(p) and r == p), "combine([x,x]) vs x"


def _ident(p: Psbt):
    return p.unique_id if p.version == 2 else p.tx.id


def _o_refuse(w):
    d = unpayload(w["payload"])
    ps = d["psbts"]
    try:
        combine(ps)
    except BTClibValueError:
        return True, "refused"
    except Exception as e:  # noqa: BLE001
        return False, f"refused with {type(e).__name__}"
    return False, f"accepted operands of versions {[p.version for p in ps]} / different identifiers"


def _o_roles(w):
    """a role sequence: identity and no-aliasing after every role."""
    d = unpayload(w["payload"])
    cur, seq = d["psbt"], d["roles"]
    history = [cur]
    for step in seq:
        before = [p.serialize() for p in history]
        ids = set().union(*[_mutable_ids(p) for p in history])
        role, arg = step
        try:
            if role == "sign":
                new = sign(cur, KM(arg))[0]
            elif role == "finalize":
                new = finalize(cur)
            elif role == "to_v0":
                new = cur.to_v0()
            elif role == "to_v2":
                new = cur.to_v2()
            elif role == "combine":
                others = [h for h in history if h.version == cur.version and _ident(h) == _ident(cur)]
                new = combine([cur] + others[:arg])
            elif role == "update":
                new = deepcopy(cur)
                new.inputs[0].unknown[b"\xf0" + bytes([arg])] = b"upd"
            else:
                return False, f"unknown role {role}"
        except BTClibValueError as e:
            if role == "finalize" and ("missing signatures" in str(e) or "missing taproot signature" in str(e)):
                continue
            return False, f"{role} raised {e}"
        except Exception as e:  # noqa: BLE001
            return False, f"{role} raised {type(e).__name__}: {e}"
        if [p.serialize() for p in history] != before:
            return False, f"{role} modified a psbt handed in"
        if _mutable_ids(new) & ids:
            return False, f"{role} returned an object sharing mutable state with a psbt handed in"
        if new.tx.id != cur.tx.id or new.tx != cur.tx:
            return False, f"{role} changed the unsigned transaction"
        if role in ("sign", "finalize", "update", "combine") and _ident(new) != _ident(cur):
            return False, f"{role} changed the identifier"
        if role == "to_v2" and cur.version == 2 and new.unique_id != cur.unique_id:
            return False, "to_v2 changed the unique id"
        history.append(new)
        cur = new
    return True, f"{len(seq)} roles"


def _o_tamper(w):
    """assert_signatures_only accepts the signer's answer and refuses the tampered one."""
    d = unpayload(w["payload"])
    req, ans, bad = d["request"], d["answer"], d["tampered"]
    try:
        assert_signatures_only(req, ans)
    except Exception as e:  # noqa: BLE001
        return False, f"the honest answer was refused: {e}"
    try:
        assert_signatures_only(req, bad)
    except BTClibValueError:
        return True, "refused"
    except Exception as e:  # noqa: BLE001
        return False, f"refused with {type(e).__name__}: {e}"
    return False, f"accepted an answer that changed {d['what']}"


ORACLES = {"combine.orders": _o_orders, "combine.idempotent": _o_idem, "combine.refuses": _o_refuse,
           "roles.identity-noalias": _o_roles, "signer.tamper": _o_tamper}


# ------------------------------------------------------------------ every role returns a fresh object
class StubSigner:
    """PsbtSigner stubs: `echo` hands its argument back (an abstaining device), `abstain` a copy with nothing
    added, `partial` a copy signed with some of the keys, `full` with all of them."""

    def __init__(self, mode, prvs=()):
        self.mode, self.prvs = mode, list(prvs)
        self.master_fingerprint = b"\xaa\xbb\xcc\xdd"

    def sign_psbt(self, psbt):
        if self.mode == "echo":
            return psbt
        if self.mode == "abstain":
            return deepcopy(psbt)
        return sign(psbt, KM(self.prvs))[0]

    def xpub(self, der_path):
        raise BTClibValueError("stub")

    capabilities = None

    def close(self):
        pass


def _scramble(p: Psbt):
    """write into every mutable part of a psbt (deeply): what a caller updating a result does."""
    def maps(o):
        for f in dataclasses.fields(o):
            v = getattr(o, f.name)
            if isinstance(v, dict):
                for k in list(v):
                    x = v[k]
                    if isinstance(x, list):
                        x.append(b"\xee")
                    elif isinstance(x, BIP32KeyOrigin):
                        try:
                            x.master_fingerprint = b"\xee\xee\xee\xee"
                        except Exception:  # noqa: BLE001 - frozen
                            pass
                v[b"\xee\xee"] = b"\xee"
            elif isinstance(v, Witness):
                try:
                    v.stack.append(b"\xee")
                except Exception:  # noqa: BLE001 - immutable stack
                    pass
            elif isinstance(v, list) and f.name not in ("inputs", "outputs"):
                v.append((0, 0xC0, b"\xee"))
            elif isinstance(v, (Tx, TxOut)):
                for attr in ("value", "lock_time", "version"):
                    try:
                        setattr(v, attr, getattr(v, attr) + 1)
                    except Exception:  # noqa: BLE001 - frozen: cannot be written through, which is fine
                        pass
                if isinstance(v, Tx):
                    try:
                        v.vout.append(v.vout[0])
                    except Exception:  # noqa: BLE001
                        pass
            elif isinstance(v, (bytes, bytearray)):
                setattr(o, f.name, bytes(v) + b"\xee")
            elif isinstance(v, int) and not isinstance(v, bool) and f.name not in ("version",):
                setattr(o, f.name, v + 1)
    for x in p.inputs:
        maps(x)
    for x in p.outputs:
        maps(x)
    maps(p)
    p.inputs.append(PsbtIn(check_validity=False))
    p.outputs.append(PsbtOut(check_validity=False))


def _run_role(role, arg, ps):
    from btclib.psbt_signer import request_signatures
    if role == "combine":
        return combine(ps)
    if role == "sign":
        return sign(ps[0], KM(arg))[0]
    if role == "finalize":
        return finalize(ps[0])
    if role == "to_v0":
        return ps[0].to_v0()
    if role == "to_v2":
        return ps[0].to_v2()
    if role == "request_signatures":
        return request_signatures(StubSigner(*arg), ps[0])
    if role == "software_signer":
        return StubSigner("full", arg).sign_psbt(ps[0])
    if role == "join":
        return M.join(ps, False, False, False, False)
    raise ValueError(role)


def _o_fresh(w):
    """role(args): the result is none of the arguments, shares no mutable object with them, and writing
    all over it leaves every argument exactly as it was before the call."""
    d = unpayload(w["payload"])
    role, arg, ps = d["role"], d["arg"], d["psbts"]
    before = [(render(p), p.serialize(check_validity=False)) for p in ps]
    ids = set().union(*[_mutable_ids(p) for p in ps])
    try:
        r = _run_role(role, arg, ps)
    except BTClibValueError as e:
        ok = [(render(p), p.serialize(check_validity=False)) for p in ps] == before
        return ok, f"{role} refused ({str(e)[:60]}); arguments unchanged={ok}"
    except Exception as e:  # noqa: BLE001
        return False, f"{role} raised {type(e).__name__}: {e}"
    if [(render(p), p.serialize(check_validity=False)) for p in ps] != before:
        return False, f"{role}{_a(arg)} modified an argument"
    if any(r is p for p in ps):
        return False, f"{role}{_a(arg)} returned its own argument: the result IS the psbt handed in"
    shared = _mutable_ids(r) & ids
    if shared:
        return False, f"{role}{_a(arg)} returned an object sharing {len(shared)} mutable parts with an argument"
    _scramble(r)
    if [(render(p), p.serialize(check_validity=False)) for p in ps] != before:
        return False, f"{role}{_a(arg)}: updating the result changed an argument"
    return True, f"{role}: fresh"


def _a(arg):
    return f"[{arg[0]}]" if isinstance(arg, tuple) and arg and isinstance(arg[0], str) else ""


# ------------------------------------------------------------------ conversions keep the transaction
LOCK_SHAPES = ["none", "height", "time", "both", "mixed", "some-height", "some-time"]
LOCK_FALLBACKS = ["none", "zero", "set"]


def lock_psbt(rng, shape=None, fbc=None):
    """a v2 psbt whose lock time is decided by BIP370's rule: fallback x required height/time, all combinations."""
    n_in = rng.randrange(2, 4) if shape in ("mixed", "some-height", "some-time") else rng.randrange(1, 4)
    TH = 500_000_000
    heights = [1, 2, 50, 650_000, TH - 2, TH - 1]
    times = [TH, TH + 1, 1_700_000_000, 0xFFFFFFFE, 0xFFFFFFFF]
    shape = shape or rng.choice(LOCK_SHAPES)
    ins = []
    for i in range(n_in):
        h = t = None
        if shape == "height" or (shape == "some-height" and (i == 0 or rng.random() < 0.5)):
            h = rng.choice(heights)
        elif shape == "time" or (shape == "some-time" and (i == 0 or rng.random() < 0.5)):
            t = rng.choice(times)
        elif shape == "both":
            h, t = rng.choice(heights), rng.choice(times)
        elif shape == "mixed":
            h, t = rng.choice([(rng.choice(heights), None), (None, rng.choice(times)),
                               (rng.choice(heights), rng.choice(times)), (None, None)])
        pk = _pub(PRV[i % len(PRV)])
        ins.append(PsbtIn(witness_utxo=TxOut(50_000 + i, ScriptPubKey.p2wpkh(pk)),
                          hd_key_paths={pk: BIP32KeyOrigin(b"\xaa\xbb\xcc\xdd", f"m/84h/0h/0h/0/{i}")},
                          previous_tx_id=common.rand_bytes(rng, 32), output_index=rng.randrange(3),
                          sequence=rng.choice([None, 0, 5, 0xFFFFFFFD, 0xFFFFFFFE]),
                          required_height_lock_time=h, required_time_lock_time=t))
    outs = [PsbtOut(amount=10_000 + j, script_pub_key=ScriptPubKey.p2wpkh(_pub(PRV[(j + 2) % len(PRV)])).script)
            for j in range(rng.randrange(1, 3))]
    fbc = fbc or rng.choice(LOCK_FALLBACKS + ["set", "set"])
    fb = {"none": None, "zero": 0}.get(fbc, rng.choice([1, 7, 650_000, TH - 1, TH, 1_600_000_000, 0xFFFFFFFF]))
    p = Psbt(2, ins, outs, 2, {}, fallback_lock_time=fb, tx_modifiable=rng.choice([None, 0, 3, 7]),
             check_validity=False)
    return p, f"fallback={'none' if fb is None else 'zero' if fb == 0 else 'set'} required={shape}"


def _o_convert(w):
    """to_v0 / to_v2 never change the transaction: same tx, same txid, and back again."""
    p = unpayload(w["payload"])["psbt"]
    try:
        p.assert_valid()
        tx = p.tx
    except BTClibValueError:
        try:
            p.to_v0()
        except BTClibValueError:
            return True, "no lock time satisfies every input: refused, as everywhere"
        return False, "to_v0 accepted a psbt that has no transaction"
    try:
        v0 = p.to_v0()
        v2 = v0.to_v2()
        v0b = v2.to_v0()
    except Exception as e:  # noqa: BLE001
        return False, f"conversion raised {type(e).__name__}: {e}"
    if v0.tx != tx or v0.tx.id != tx.id:
        return False, f"to_v0 changed the transaction: lock_time {tx.lock_time} -> {v0.tx.lock_time}"
    if v2.tx != tx or v2.tx.id != tx.id:
        return False, f"to_v2(to_v0(p)) is another transaction: lock_time {tx.lock_time} -> {v2.tx.lock_time}"
    if p.version == 2 and p.to_v2().unique_id != p.unique_id:
        return False, "to_v2 changed the unique id"
    if v0b.serialize() != v0.serialize() or Psbt.parse(v0.serialize()).tx != tx:
        return False, "to_v0 . to_v2 . to_v0 differs from to_v0, or the v0 bytes carry another transaction"
    # over the wire: what each version writes reads back as the same transaction (a field `serialize` drops --
    # a sequence of 0, an output index of 0 -- comes back as its default, i.e. as another transaction)
    for what, q in (("p", p), ("to_v2(p)", p.to_v2()), ("to_v2(to_v0(p))", v2), ("to_v0(p)", v0)):
        try:
            back = Psbt.parse(q.serialize())
        except Exception as e:  # noqa: BLE001
            return False, f"{what}: its own serialisation does not parse: {e}"
        if back.tx != tx:
            seqs = [(a.sequence, b.sequence) for a, b in zip(tx.vin, back.tx.vin) if a.sequence != b.sequence]
            return False, (f"{what} -> wire -> parse is another transaction: lock_time {tx.lock_time} -> "
                           f"{back.tx.lock_time}, sequences (sent, read back) {seqs[:3]}")
        if q.version == 2 and render(back) != render(q):      # version 0 states sequence and lock time in its tx
            return False, f"{what} -> wire -> parse reads back other fields"
    return True, f"lock_time {tx.lock_time}"


# ------------------------------------------------------------------ a falsy value held by a later operand only
def _o_falsy_later(w):
    """for a merged field whose absence is None: a falsy-but-present value (0, b"") held only by one
    operand is in the result, whichever position that operand has."""
    sec, name = w["sec"], w["field"]
    G1 = bytes.fromhex("0279be667ef9dcbbac55a06295ce870b07029bfcdb2dce28d959f2815b16f81798")
    G2 = bytes.fromhex("02c6047f9441ed7d6d3045406e95c07cd85c778e4b8cef3ca7abac09b95c709ee5")
    a = Psbt(2, [PsbtIn(previous_tx_id=b"\x11" * 32, output_index=0)],
             [PsbtOut(amount=1000, sp_v0_info=G1 + G2)], 2, {})
    tried = 0
    for val in (0, b""):
        b = deepcopy(a)
        o = b if sec == "glob" else (b.inputs[0] if sec == "in" else b.outputs[0])
        if getattr(o, name) is not None:
            continue
        setattr(o, name, val)
        try:
            b.assert_valid()
            if b.serialize() == a.serialize() or b.unique_id != a.unique_id:
                continue        # not a present value for this field / another transaction
        except Exception:  # noqa: BLE001
            continue
        tried += 1
        for ops, what in (([a, b], "later"), ([b, a], "first"), ([a, a, b], "last of three")):
            try:
                r = combine(ops)
            except Exception as e:  # noqa: BLE001
                return False, f"{sec}.{name}={val!r} held by the {what} operand: combine raised {e}"
            ro = r if sec == "glob" else (r.inputs[0] if sec == "in" else r.outputs[0])
            if getattr(ro, name) != val or type(getattr(ro, name)) is not type(val) or r.serialize() != b.serialize():
                return False, (f"{sec}.{name}={val!r} held only by the {what} operand is lost: "
                               f"result has {getattr(ro, name)!r}")
    return True, f"{sec}.{name}: {tried} falsy values kept"


ORACLES.update({"roles.fresh": _o_fresh, "convert.identity": _o_convert, "combine.falsy-later": _o_falsy_later})

def _o_orders_lock(w):
    """families whose required lock times are partitioned over the copies.  part=strict: nothing aliased or
    modified; every flat order agrees (acceptance and result); an accepted grouping gives the flat result and
    loses nothing; no grouping accepts what the flat combine refuses.  part=grouping: a grouping the flat combine
    accepts is not refused half way."""
    d = unpayload(w["payload"])
    ps, exprs, part = d["psbts"], d["exprs"], w["part"]
    before = [p.serialize() for p in ps]
    ids = set().union(*[_mutable_ids(p) for p in ps])
    want = set().union(*[_pairs(p) for p in ps])
    res = {}
    for t in exprs:
        try:
            r = eval_expr(t, ps)
        except BTClibValueError as e:
            res[t] = None
            continue
        except Exception as e:  # noqa: BLE001
            return part != "strict", f"order {t}: raised {type(e).__name__}: {e}"
        if part == "strict":
            if [p.serialize() for p in ps] != before:
                return False, f"order {t}: an operand was modified by combine"
            if _mutable_ids(r) & ids:
                return False, f"order {t}: the result shares a mutable object with an operand"
            lost = want - _pairs(r)
            if lost:
                return False, f"order {t}: lost {sorted(lost)[:3]}"
        res[t] = (r.serialize(), render(r))
    flat = [t for t in exprs if all(not isinstance(x, tuple) for x in t)]
    nested = [t for t in exprs if t not in flat]
    facc = {res[t] is not None for t in flat}
    if part == "strict":
        if len(facc) > 1:
            return False, "flat orders disagree on acceptance"
        outs = {res[t] for t in flat if res[t] is not None}
        if len(outs) > 1:
            return False, "flat orders give different results"
        for t in nested:
            if res[t] is not None and not outs:
                return False, f"grouping {t} accepted what the flat combine refuses"
            if res[t] is not None and res[t] not in outs:
                return False, f"grouping {t} gives another result than the flat combine"
        # the characterisation proved as Props.C11.combine_bracket / combine_bracket_accepted_iff, at EVERY node of
        # every bracketing: a node whose children were all accepted is accepted iff the flat combine of its leaves is
        nodes = 0
        for t in nested:
            bad = _node_verdicts(t, ps)
            nodes += 1
            if bad:
                return False, f"grouping {t}: {bad}"
        return True, f"{len(exprs)} orders, {nodes} nestings: a node is refused only where the flat combine of its leaves is"
    if True in facc:
        bad = [t for t in nested if res[t] is None]
        if bad:
            return False, (f"combine of all {len(ps)} operands at once is accepted, grouping {bad[0]} is refused "
                           f"({len(bad)} of {len(nested)} groupings)")
    return True, "acceptance does not depend on the grouping here"


def _leaves(t):
    return [x for c in t for x in _leaves(c)] if isinstance(t, tuple) else [t]


def _node_verdicts(t, ps):
    """None, or the first node (children all accepted) whose verdict differs from the flat combine of its leaves."""
    def ev(t):
        if not isinstance(t, tuple):
            return ps[t], None
        kids = []
        for c in t:
            r, bad = ev(c)
            if bad:
                return None, bad
            if r is None:
                return None, None           # an inner refusal: nothing to say about this node
            kids.append(r)
        try:
            flat = combine([ps[i] for i in _leaves(t)])
        except BTClibValueError:
            flat = None
        try:
            r = combine(kids)
        except BTClibValueError:
            r = None
        if (r is None) != (flat is None):
            return None, (f"node {t} (children accepted) is {'refused' if r is None else 'accepted'}, the flat combine of "
                          f"its leaves is {'refused' if flat is None else 'accepted'}")
        if r is not None and (r.serialize(), render(r)) != (flat.serialize(), render(flat)):
            return None, f"node {t} gives another psbt than the flat combine of its leaves"
        return r, None
    return ev(t)[1]


def _lock3():
    T = 1_700_000_000

    def mk(*req):
        return Psbt(2, [PsbtIn(previous_tx_id=b"\x11" * 32, output_index=i, required_height_lock_time=h,
                               required_time_lock_time=t) for i, (h, t) in enumerate(req)],
                    [PsbtOut(amount=1, script_pub_key=b"\x51")], 2, {})
    return (mk((50, T), (None, T), (None, None)), mk((None, T), (50, T), (None, None)),
            mk((None, T), (None, T), (None, T)))


def tie_family(rng):
    """copies of one v2 transaction (lock time T, a time) in which some PART of the copies gives every requiring
    input a height although the whole never does: a randomised form of the witness of finding
    combine.locktime-partition.grouping."""
    T = rng.choice([500_000_000, 1_700_000_000, 0xFFFFFFFF])
    m = rng.randrange(2, 4)                   # inputs that will carry a height somewhere
    k = rng.randrange(3, 5)
    hts = [rng.choice([1, 50, 499_999_999]) for _ in range(m)]
    prev = [common.rand_bytes(rng, 32) for _ in range(m + 1)]
    carriers = set([k - 1] + [j for j in range(k - 1) if rng.random() < 0.25])   # who states the last input's time
    ps = []
    for c in range(k):
        ins = []
        for j in range(m):
            has_h = (j % (k - 1) == c) or (c < k - 1 and rng.random() < 0.2)
            ins.append(PsbtIn(previous_tx_id=prev[j], output_index=j, required_time_lock_time=T,
                              required_height_lock_time=hts[j] if has_h else None))
        ins.append(PsbtIn(previous_tx_id=prev[m], output_index=m, required_time_lock_time=T if c in carriers else None))
        p = Psbt(2, ins, [PsbtOut(amount=1, script_pub_key=b"\x51")], 2, {}, check_validity=False)
        ps.append(p)
    return ps


def _o_lock_grouping(w):
    """the deterministic witness: three psbts of one transaction (same unique id, lock time T) that do not conflict."""
    a, b, c = _lock3()
    if not (a.unique_id == b.unique_id == c.unique_id):
        return True, "operands are not of one transaction"
    acc = {}
    for name, f in (("[a,b,c]", lambda: combine([a, b, c])), ("[a,[b,c]]", lambda: combine([a, combine([b, c])])),
                    ("[[a,c],b]", lambda: combine([combine([a, c]), b])), ("[[a,b],c]", lambda: combine([combine([a, b]), c]))):
        try:
            acc[name] = f().serialize()
        except BTClibValueError as e:
            acc[name] = None
    if acc["[a,b,c]"] is None:
        return all(v is None for v in acc.values()), f"flat refused; groupings {acc}"
    refused = [k for k, v in acc.items() if v is None]
    same = len({v for v in acc.values() if v is not None}) == 1
    return (not refused and same), (f"combine([a,b,c]) accepted; refused groupings: {refused or 'none'}; "
                                    f"accepted ones equal: {same}")


ORACLES.update({"combine.orders-lockpart": _o_orders_lock, "finding.locktime-grouping": _o_lock_grouping})


def _o_accounting(w):
    """new_signers / assert_signed agree with what a signer really added (anchors: new_signers, assert_signed)."""
    d = unpayload(w["payload"])
    req, keys = d["request"], d["keys"]
    ans = sign(req, KM(keys))[0]
    added = any(len(a.partial_sigs) > len(r.partial_sigs) or (a.taproot_key_spend_signature and not
                r.taproot_key_spend_signature) or
                len(a.taproot_script_spend_signatures) > len(r.taproot_script_spend_signatures)
                for r, a in zip(req.inputs, ans.inputs))
    before = (req.serialize(), ans.serialize())
    anonymous = any(a.taproot_key_spend_signature and not r.taproot_key_spend_signature and
                    a.taproot_internal_key not in a.taproot_hd_key_paths for r, a in zip(req.inputs, ans.inputs))
    try:
        who = M.new_signers(req, ans)
    except BTClibValueError as e:
        if anonymous and "no key origin" in str(e):
            return True, "a key-path signature whose internal key has no stated origin: refused, as documented"
        return False, f"new_signers raised {type(e).__name__}: {e}"
    except Exception as e:  # noqa: BLE001
        return False, f"new_signers raised {type(e).__name__}: {e}"
    if anonymous:
        return False, "new_signers attributed a key-path signature nothing in the psbt states the origin of"
    if bool(who) != added or not who <= {b"\xaa\xbb\xcc\xdd"}:
        return False, f"new_signers={[x.hex() for x in who]} although signatures added={added}"
    if M.new_signers(req, req):
        return False, "new_signers(request, request) names a signer"
    full = sign(req, KM(PRV))[0]
    try:
        M.assert_signed(full)
        M.assert_signed(ans, allow_partial=True) if added else None
    except Exception as e:  # noqa: BLE001
        return False, f"assert_signed refused a signed psbt: {e}"
    unsigned = all(not i.partial_sigs and not i.taproot_key_spend_signature and not i.taproot_script_spend_signatures
                   for i in req.inputs)
    if unsigned:
        try:
            M.assert_signed(req)
            return False, "assert_signed accepted an unsigned psbt"
        except BTClibValueError:
            pass
    bad = deepcopy(full)
    changed = False
    for x in bad.inputs:
        for k in list(x.partial_sigs):
            sg = x.partial_sigs[k]
            x.partial_sigs[k] = sg[:-3] + bytes([sg[-3] ^ 1]) + sg[-2:]
            changed = True
            break
    if changed:
        try:
            bad.assert_valid()
        except BTClibValueError:
            changed = False          # not a well-formed signature any more: assert_valid's business
    if changed:
        try:
            M.assert_signed(bad)
            return False, "assert_signed accepted a corrupted signature"
        except BTClibValueError:
            pass
    if (req.serialize(), ans.serialize()) != before:
        return False, "new_signers / assert_signed modified an argument"
    return True, f"signers {[x.hex() for x in who]}"


ORACLES.update({"signer.accounting": _o_accounting})


# ------------------------------------------------------------------ every entry point, with nothing to do
def _foreign_signer(musig2=False):
    from btclib.bip32 import rootxprv_from_seed
    from btclib.psbt_signer import SoftwareSigner
    return SoftwareSigner(rootxprv_from_seed(bytes(range(1, 33))), musig2=musig2)


def _idle_calls():
    from btclib import psbt_signer as S
    from btclib import psbt_signer_contract as SC
    from btclib import tx_or_psbt as TP
    from btclib.bip32 import rootxprv_from_seed, xpub_from_xprv
    from btclib.psbt import musig2 as MU
    from btclib.psbt import silent_payments as SP
    agg = _pub(PRV[0])
    return {
        "SoftwareSigner.sign_psbt[holds none of the keys]": lambda p: _foreign_signer().sign_psbt(p),
        "SoftwareSigner(musig2).sign_psbt[holds none of the keys]": lambda p: _foreign_signer(True).sign_psbt(p),
        "SoftwareSigner.sign_psbt[watch-only]":
            lambda p: S.SoftwareSigner(xpub_from_xprv(rootxprv_from_seed(bytes(range(1, 33))))).sign_psbt(p),
        "SignerDecorator.sign_psbt[holds none of the keys]": lambda p: S.SignerDecorator(_foreign_signer()).sign_psbt(p),
        "request_signatures[SoftwareSigner, holds none of the keys]": lambda p: S.request_signatures(_foreign_signer(), p),
        "request_signatures[SignerDecorator]": lambda p: S.request_signatures(S.SignerDecorator(_foreign_signer()), p),
        "assert_psbt_signer[signable]": lambda p: SC.assert_psbt_signer(_foreign_signer(), signable=p),
        "tx_or_psbt_from_any": lambda p: TP.tx_or_psbt_from_any(p.b64encode()),
        "sign[no key]": lambda p: sign(p, KM([0x7777]))[0],
        "new_signers": lambda p: M.new_signers(p, p),
        "assert_signed[allow_partial]": lambda p: M.assert_signed(p, allow_partial=True),
        "extract_tx": lambda p: M.extract_tx(p),
        "sp.eligible_pub_keys": lambda p: SP.eligible_pub_keys(p),
        "sp.output_scripts": lambda p: SP.output_scripts(p),
        "sp.assert_as_valid": lambda p: SP.assert_as_valid(p),
        "sp.assert_shares_as_valid": lambda p: SP.assert_shares_as_valid(p),
        "sp.assert_eligibility_as_valid": lambda p: SP.assert_eligibility_as_valid(p),
        "sp.assert_output_scripts_as_valid": lambda p: SP.assert_output_scripts_as_valid(p),
        "musig2.session_context": lambda p: MU.session_context(p, 0, agg),
        "musig2.partial_sigs_agg": lambda p: MU.partial_sigs_agg(p, 0, agg),
        "musig2.assert_valid_participants": lambda p: MU.assert_valid_participants(p.inputs[0]),
    }


def _o_idle(w):
    """an entry point that has nothing to do for this psbt (a signer holding none of its keys, a reader, a check):
    the psbt handed in is left exactly as it was, and a psbt handed back is a fresh object -- never the caller's."""
    d = unpayload(w["payload"])
    p, name = d["psbt"], w["entry"]
    fn = _idle_calls()[name]
    before = (render(p), p.serialize(check_validity=False))
    ids = _mutable_ids(p)
    try:
        r = fn(p)
    except BTClibValueError as e:
        ok = (render(p), p.serialize(check_validity=False)) == before
        return ok, f"{name} refused ({str(e)[:50]}); argument unchanged={ok}"
    except Exception as e:  # noqa: BLE001
        return False, f"{name} raised {type(e).__name__}: {e}"
    if (render(p), p.serialize(check_validity=False)) != before:
        return False, f"{name} modified the psbt handed in although it had nothing to do"
    if isinstance(r, Psbt):
        if r is p:
            return False, f"{name} returned the caller's own psbt object: updating the answer updates the request"
        shared = _mutable_ids(r) & ids
        if shared:
            return False, f"{name} returned a psbt sharing {len(shared)} mutable parts with the one handed in"
        if render(r) != before[0] and not name.startswith(("sign", "request", "Software", "Signer")):
            return False, f"{name} returned another psbt"
        _scramble(r)
        if (render(p), p.serialize(check_validity=False)) != before:
            return False, f"{name}: updating the answer changed the psbt handed in"
    return True, f"{name}: left alone"


ORACLES.update({"roles.idle": _o_idle})


# ------------------------------------------------------------------ every function of the package that is handed a psbt
ALIAS_MODULES = ["btclib.psbt.psbt", "btclib.psbt.psbt_view", "btclib.psbt.psbt_size", "btclib.psbt.musig2",
                 "btclib.psbt.silent_payments", "btclib.psbt", "btclib.psbt_signer", "btclib.psbt_signer_contract",
                 "btclib.tx_or_psbt"]
# Updater functions that return None and are DOCUMENTED to write into the psbt they are handed (no result to be fresh)
IN_PLACE = {"set_global_share", "set_input_share", "set_output_scripts", "Psbt.sort_inputs", "Psbt.sort_outputs"}


def discovered_entries():
    """{name: (kind, callable)} by introspection: every public function of the anchor modules with a parameter
    annotated Psbt / Sequence[Psbt], every public method, property and alternative constructor of Psbt."""
    import importlib
    import inspect
    import typing
    out = {}
    for mn in ALIAS_MODULES:
        m = importlib.import_module(mn)
        for name, f in sorted(vars(m).items()):
            if name.startswith("_") or not inspect.isfunction(f) or not f.__module__.startswith("btclib."):
                continue
            try:
                hints = typing.get_type_hints(f)
            except Exception:  # noqa: BLE001
                hints = dict(getattr(f, "__annotations__", {}))
            if any("psbt.Psbt" in str(t) or str(t) in ("Psbt", "Sequence[Psbt]") for k, t in hints.items() if k != "return"):
                out.setdefault(name, ("function", f))
    for name, f in sorted(vars(Psbt).items()):
        if name.startswith("_"):
            continue
        if isinstance(f, property):
            out["Psbt." + name] = ("property", f)
        elif isinstance(f, classmethod):
            out["Psbt." + name] = ("constructor", getattr(Psbt, name))
        elif inspect.isfunction(f):
            out["Psbt." + name] = ("method", f)
    return out


def _arg_for(pname, ann, ps, state):
    from btclib.curves.curve import secp256k1
    a = str(ann)
    if "Sequence[Psbt]" in a or "Sequence[btclib.psbt.psbt.Psbt]" in a:
        state["used"] = list(ps)
        return list(ps)
    if a.endswith("psbt.Psbt'>") or a == "Psbt":
        q = ps[len(state["used"]) % len(ps)]
        state["used"].append(q)
        return q
    table = {"vin_i": 0, "key_manager": KM(PRV), "signer": StubSigner("full", PRV), "aggregate_pub_key": _pub(PRV[0]),
             "participant_pub_key": _pub(PRV[1]), "prv_key": PRV[0], "prv_keys": [PRV[0]], "sec_nonce": bytearray(97),
             "share": _pub(PRV[1]), "A_sum": secp256k1.G, "enforce_same_tx_version": False,
             "enforce_same_tx_lock_time": False, "shuffle_inp": False, "shuffle_out": False}
    if pname in table:
        return table[pname]
    raise common.HarnessError(f"roles.alias: no argument recipe for parameter `{pname}: {a}`")


def _signed_tx(p):
    """the psbt's transaction with a script_sig and a witness on every input: what from_tx reads as unsigned,
    and so what it must not blank on the caller's object"""
    tx = p.tx
    for tx_in in tx.vin:
        tx_in.script_sig = b"\x51"
        tx_in.script_witness = Witness([b"\x01"])
    return tx


def _call_entry(name, ps):
    """(operand psbts / operand data, thunk)"""
    import inspect
    import typing
    kind, f = discovered_entries()[name]
    p = ps[0]
    if kind == "property":
        return [p], lambda: f.fget(p)
    if kind == "method":
        return [p], lambda: f(p)
    if kind == "constructor":
        short = name.split(".")[1]
        data = {"parse": lambda: p.serialize(), "b64decode": lambda: p.b64encode(), "from_dict": lambda: p.to_dict(),
                "from_tx": lambda: _signed_tx(p)}.get(short)
        if data is None:
            raise common.HarnessError(f"roles.alias: no recipe for the constructor {name}")
        d = data()
        return [d], lambda: f(d)
    sig = inspect.signature(f)
    try:
        hints = typing.get_type_hints(f)
    except Exception:  # noqa: BLE001
        hints = dict(f.__annotations__)
    state = {"used": []}
    args, kwargs = [], {}
    for pn, prm in sig.parameters.items():
        if prm.default is not inspect.Parameter.empty:
            continue
        v = _arg_for(pn, hints.get(pn, prm.annotation), ps, state)
        if prm.kind is inspect.Parameter.KEYWORD_ONLY:
            kwargs[pn] = v
        else:
            args.append(v)
    return state["used"], lambda: f(*args, **kwargs)


def _snap(o):
    if isinstance(o, Psbt):
        return (render(o), o.serialize(check_validity=False))
    if isinstance(o, Tx):
        return o.serialize(include_witness=True, check_validity=False)
    return repr(_deep_canon(o))


def _deep_canon(o):
    if isinstance(o, dict):
        return sorted((repr(_deep_canon(k)), _deep_canon(v)) for k, v in o.items())
    if isinstance(o, (list, tuple)):
        return [_deep_canon(x) for x in o]
    if isinstance(o, (bytes, bytearray)):
        return bytes(o).hex()
    return o if isinstance(o, (int, str, bool, type(None))) else repr(o)


def _mutables(o, acc, depth=0):
    """ids of every mutable object reachable from a result"""
    if depth > 8 or isinstance(o, (bytes, str, int, bool, type(None))):
        return acc
    if isinstance(o, Psbt):
        acc |= _mutable_ids(o)
        return acc
    frozen = dataclasses.is_dataclass(o) and not isinstance(o, type) and o.__dataclass_params__.frozen
    if isinstance(o, (dict, list, set, bytearray, Tx, TxIn, PsbtIn, PsbtOut)) or \
            (dataclasses.is_dataclass(o) and not isinstance(o, type) and not frozen):
        acc.add(id(o))      # a frozen dataclass (TxOut, Witness, OutPoint, ...) may be shared: only what it holds counts
    if isinstance(o, dict):
        for v in o.values():
            _mutables(v, acc, depth + 1)
    elif isinstance(o, (list, tuple, set, frozenset)):
        for v in o:
            _mutables(v, acc, depth + 1)
    elif dataclasses.is_dataclass(o) and not isinstance(o, type):
        for f in dataclasses.fields(o):
            _mutables(getattr(o, f.name, None), acc, depth + 1)
    return acc


def _scramble_any(o, depth=0):
    """write into every mutable part of a result, whatever it is"""
    if depth > 8:
        return
    if isinstance(o, Psbt):
        _scramble(o)
    elif isinstance(o, dict):
        for v in list(o.values()):
            _scramble_any(v, depth + 1)
        try:
            o["\xee" if any(isinstance(k, str) for k in o) or not o else b"\xee\xee"] = b"\xee"
        except Exception:  # noqa: BLE001
            pass
    elif isinstance(o, list):
        for v in list(o):
            _scramble_any(v, depth + 1)
        o.append(b"\xee")
    elif isinstance(o, tuple):
        for v in o:
            _scramble_any(v, depth + 1)
    elif isinstance(o, set):
        o.add(b"\xee")
    elif isinstance(o, bytearray):
        o[:] = b"\xee" * len(o)
    elif isinstance(o, (Tx, TxOut, TxIn, Witness, PsbtIn, PsbtOut)) or (dataclasses.is_dataclass(o) and not isinstance(o, type)):
        for f in dataclasses.fields(o):
            v = getattr(o, f.name, None)
            _scramble_any(v, depth + 1)
            try:
                if isinstance(v, int) and not isinstance(v, bool):
                    setattr(o, f.name, v + 1)
                elif isinstance(v, (bytes, bytearray)):
                    setattr(o, f.name, bytes(v) + b"\xee")
            except Exception:  # noqa: BLE001 - frozen
                pass


def _o_alias_all(w):
    """one entry point found by introspection, on real psbts: what it is handed is left as it was, what it hands
    back shares no mutable object with it, and writing all over the result changes nothing of what was handed in."""
    d = unpayload(w["payload"])
    name, ps = w["entry"], d["psbts"]
    operands, thunk = _call_entry(name, ps)
    watched = list(ps) + [o for o in operands if not any(o is q for q in ps)]
    before = [_snap(o) for o in watched]
    ids = set()
    for o in watched:
        _mutables(o, ids)
    try:
        r = thunk()
    except BTClibValueError as e:
        ok = name in IN_PLACE or [_snap(o) for o in watched] == before
        return ok, f"{name} refused ({str(e)[:50]}); arguments unchanged={ok}"
    except Exception as e:  # noqa: BLE001
        return False, f"{name} raised {type(e).__name__}: {e}"
    if name in IN_PLACE:
        return r is None, f"{name}: documented to update the psbt in place; returns {type(r).__name__}"
    if [_snap(o) for o in watched] != before:
        return False, f"{name} modified what it was handed"
    if any(r is o for o in watched if not isinstance(o, (bytes, str, int))):
        return False, f"{name} returned its own argument"
    shared = _mutables(r, set()) & ids
    if shared:
        return False, f"{name} returned an object sharing {len(shared)} mutable parts with what it was handed"
    _scramble_any(r)
    if [_snap(o) for o in watched] != before:
        return False, f"{name}: writing into the result changed what was handed in"
    return True, f"{name}: fresh ({type(r).__name__})"


ORACLES.update({"roles.alias-all": _o_alias_all})


# ------------------------------------------------------------------ streams
def exprs_for(rng, k, ctx):
    perms = list(itertools.permutations(range(k)))
    if k <= 3 or (k == 4 and ctx.tier == "thorough"):
        sel = [(p, t) for p in perms for t in trees(p)]
    elif k == 4:
        sel = [(p, t) for p in perms for t in trees(p)]
        sel = rng.sample(sel, 60)
    else:
        allp = rng.sample(perms, 12 if ctx.tier == "quick" else 30)
        sel = [(p, t) for p in allp for t in rng.sample(trees(p), 4 if ctx.tier == "quick" else 6)]
    out = []
    for _, t in sel:
        out.append(t if isinstance(t, tuple) else (t,))
    if k <= 4:
        ctx.exhaustive_streams.append(f"combine.family k={k}: all permutations x all bracketings") \
            if f"combine.family k={k}: all permutations x all bracketings" not in ctx.exhaustive_streams and \
            (k <= 3 or ctx.tier == "thorough") else None
    return out


def conflicting(rng, base, ps):
    """the malformed stream: one copy made to disagree."""
    ps = deepcopy(ps)
    j = rng.randrange(len(ps))
    c = ps[j]
    kind = rng.choice(["scalar", "dictval", "musig", "version", "txid", "amount", "locktime", "seq", "reqlock", "reqlock"])
    if kind == "reqlock" and base.version != 2:
        kind = "seq"
    try:
        if kind == "scalar":
            x = rng.choice(c.inputs)
            x.redeem_script = bytes.fromhex("0014") + common.rand_bytes(rng, 20)
        elif kind == "dictval":
            x = rng.choice(c.inputs)
            x.unknown = dict(x.unknown)
            x.unknown[b"\xf1k"] = common.rand_bytes(rng, 3)
            ps[(j + 1) % len(ps)].inputs[c.inputs.index(x)].unknown[b"\xf1k"] = b"other"
        elif kind == "musig":
            agg, a, b = _pub(PRV[0]), _pub(PRV[1]), _pub(PRV[2])
            c.inputs[0].musig2_participant_pub_keys = {agg: [a, b]}
            ps[(j + 1) % len(ps)].inputs[0].musig2_participant_pub_keys = {agg: [b, a]}
        elif kind == "version":
            ps[j] = c.to_v2() if c.version == 0 else c.to_v0()
        elif kind == "txid":
            c.inputs[0].previous_tx_id = common.rand_bytes(rng, 32)
            c.inputs[0].non_witness_utxo = None
        elif kind == "amount":
            if c.outputs:
                c.outputs[0].amount = (c.outputs[0].amount or 0) + 1
        elif kind == "locktime":
            c.fallback_lock_time = (c.fallback_lock_time or 0) + 1
        elif kind == "seq":
            c.inputs[0].sequence = 7
        elif kind == "reqlock":
            T = 1_700_000_000
            for p in ps:
                for x in p.inputs:
                    h, t = rng.choice([(None, None), (None, None), (50, None), (None, T), (50, T), (60, T)])
                    x.required_height_lock_time, x.required_time_lock_time = h, t
        for p in ps:
            p.assert_valid()
    except Exception:  # noqa: BLE001 - the tampering made an invalid psbt: not this stream's business
        return None, kind
    return ps, kind


def tamperings(rng, req: Psbt, ans: Psbt):
    """single-field changes of a signer's answer (every field of the generated universe that is not a signature)."""
    u = spec()["universe"]
    sig = set(spec()["sigfields"])
    out = []

    def alt(v, name):
        if isinstance(v, dict):
            d = dict(v)
            d[b"\xf2" + common.rand_bytes(rng, 2)] = next(iter(v.values())) if v else b"\x01"
            return d
        if isinstance(v, Witness):
            return Witness([b"\x01"])
        if isinstance(v, list):
            return None
        if isinstance(v, (bytes, bytearray)):
            return None if name in ("previous_tx_id",) else (v + b"\x51" if v else None)
        if isinstance(v, int):
            return v + 1
        return None
    for sec, objs in (("glob", [ans]), ("in", ans.inputs), ("out", ans.outputs)):
        for i, _ in enumerate(objs):
            for n, kind, pres, _v2 in u[sec]:
                if (sec == "in" and n in sig) or n in ("tx_modifiable",):
                    continue
                bad = deepcopy(ans)
                o = bad if sec == "glob" else (bad.inputs[i] if sec == "in" else bad.outputs[i])
                nv = alt(getattr(o, n), n)
                if nv is None:
                    continue
                setattr(o, n, nv)
                try:
                    bad.assert_valid()
                except Exception:  # noqa: BLE001
                    continue
                out.append((f"{sec}[{i}].{n}", bad))
    # the globals no `alt` reaches: a BIP322 message where there was none, BIP375 shares/proofs (v2 only)
    G1 = bytes.fromhex("0279be667ef9dcbbac55a06295ce870b07029bfcdb2dce28d959f2815b16f81798")
    G2 = bytes.fromhex("02c6047f9441ed7d6d3045406e95c07cd85c778e4b8cef3ca7abac09b95c709ee5")
    extra = [("signed_message", b"pay mallory")]
    if ans.version == 2:
        extra += [("sp_ecdh_shares", {G1: G2}), ("sp_dleq_proofs", {G1: bytes(64)})]
    for n, nv in extra:
        bad = deepcopy(ans)
        setattr(bad, n, nv)
        try:
            bad.assert_valid()
        except Exception:  # noqa: BLE001
            continue
        out.append((f"glob[0].{n}", bad))
    # signatures: one dropped, one changed
    for i, x in enumerate(req.inputs):
        if x.partial_sigs:
            k0 = next(iter(x.partial_sigs))
            bad = deepcopy(ans)
            del bad.inputs[i].partial_sigs[k0]
            out.append((f"in[{i}].partial_sigs dropped", bad))
    return out


def run(ctx):
    rng = ctx.rng
    fam_lines, conf_lines, tx_lines, conv_lines, sig_lines = [], [], [], [], []
    wire_seeds = []
    GROUPING = "combine.locktime-partition.grouping"
    ctx.check("finding.locktime-grouping", {}, key=GROUPING)
    # ---- families whose REQUIRED LOCK TIMES are partitioned over the copies (v2)
    n_lock = tries = 0
    while n_lock < ctx.n(25, 200):
        base, cls = lock_psbt(rng, rng.choice(["both", "both", "some-height", "some-time", "mixed", "time", "height"]))
        if rng.random() < 0.7 and len(base.inputs) >= 2:
            # the tie-break shape: one time for all, a height beside it on some inputs only, so that a PART of the
            # copies can make every requiring input carry a height although the whole never does
            T = rng.choice([500_000_000, 1_700_000_000, 0xFFFFFFFF])
            hs = [rng.random() < 0.6 for _ in base.inputs]
            hs[0], hs[-1] = True, False
            for x, h in zip(base.inputs, hs):
                x.required_time_lock_time = T
                x.required_height_lock_time = rng.choice([1, 50, 499_999_999]) if h else None
        try:
            base.assert_valid()
        except BTClibValueError:
            continue
        k = rng.choice([2, 3, 3, 4])
        ps = partition(rng, base, k, lockpart=True)
        if rng.random() < 0.4:
            ps = tie_family(rng)
            k = len(ps)
            try:
                for q in ps:
                    q.assert_valid()
            except BTClibValueError:
                continue
        try:    # keep the families that are ONE transaction's (same unique id) and really partition the lock times
            one = len({p.unique_id for p in ps}) == 1
        except BTClibValueError:
            one = False
        req = {tuple((i.required_height_lock_time, i.required_time_lock_time) for i in p.inputs) for p in ps}
        tries += 1
        if (not one or len(req) < 2) and tries < 40 * ctx.n(25, 200):
            continue
        n_lock += 1
        ctx.count("family", f"lockpart k={k}" + ("" if one else " (other ids)"))
        exprs = exprs_for(rng, len(ps), ctx)
        pl = payload({"psbts": ps, "exprs": exprs})
        ctx.check("combine.orders-lockpart", {"payload": pl, "part": "strict", "k": k})
        ctx.check("combine.orders-lockpart", {"payload": pl, "part": "grouping", "k": k}, key=GROUPING)
        toks = [render(p) for p in ps]
        for t in rng.sample(exprs, min(len(exprs), 24 if ctx.tier == "quick" else 60)):
            fam_lines.append(combine_line(t, ps, toks))
    n_fam = ctx.n(40, 300)
    for _ in range(n_fam):
        base, ps = family(rng, ctx)
        toks = [render(p) for p in ps]
        exprs = exprs_for(rng, len(ps), ctx)
        ctx.check("combine.orders", {"payload": payload({"psbts": ps, "exprs": exprs}), "k": len(ps)})
        keep = rng.sample(exprs, min(len(exprs), 24 if ctx.tier == "quick" else 60))
        for t in keep:
            fam_lines.append(combine_line(t, ps, toks))
        ctx.check("combine.idempotent", {"payload": payload({"psbt": rng.choice(ps)})})
        for p in ps[:2]:
            for fid in (False, True):
                tx_lines.append(f"tx {render(p)} {int(fid)} " + payload({"op": "tx", "psbt": p, "for_id": fid}))
        p = ps[0]
        wire_seeds.append(base)
        wire_seeds.append(p)
        conv_lines.append(f"tov2 {render(p)} " + payload({"op": "tov2", "psbt": p}))
        if not any(o.sp_v0_info or o.sp_v0_label is not None for o in p.outputs) and \
                not any(i.sp_ecdh_shares or i.sp_dleq_proofs for i in p.inputs) and \
                not p.sp_ecdh_shares and not p.sp_dleq_proofs:
            conv_lines.append(f"tov0 {render(p)} " + payload({"op": "tov0", "psbt": p}))
        for _ in range(3):
            cps, kind = conflicting(rng, base, ps)
            if cps is None:
                continue
            ctx.count("conflict", kind)
            ctoks = [render(p) for p in cps]
            k = len(cps)
            for perm in rng.sample(list(itertools.permutations(range(k))), min(4, len(list(itertools.permutations(range(k)))))):
                t = rng.choice(trees(perm))
                t = t if isinstance(t, tuple) else (t,)
                conf_lines.append(combine_line(t, cps, ctoks))
            if kind in ("version", "txid", "amount"):
                ctx.check("combine.refuses", {"payload": payload({"psbts": cps}), "kind": kind})
    ctx.correspond("combine.family", EXE, [(ln, impl(ln)) for ln in fam_lines], key="combine.family")
    ctx.correspond("combine.conflict", EXE, [(ln, impl(ln)) for ln in conf_lines],
                   nontrivial=lambda ln, out: True, key="combine.conflict")
    ctx.correspond("psbt.tx", EXE, [(ln, impl(ln)) for ln in tx_lines], key="psbt.tx")
    ctx.correspond("psbt.convert", EXE, [(ln, impl(ln)) for ln in conv_lines], key="psbt.convert")

    # ---- role sequences (length <= 6) and tamperings of a signer's answer
    for _ in range(ctx.n(25, 300)):
        p = built(rng, rng.choice([0, 2]))
        roles = []
        for _ in range(rng.randrange(1, 7)):
            r = rng.choice(["sign", "sign", "combine", "finalize", "to_v0", "to_v2", "update"])
            arg = {"sign": rng.sample(PRV, rng.randrange(1, 4)), "combine": rng.randrange(0, 3),
                   "update": rng.randrange(256)}.get(r)
            roles.append((r, arg))
        ctx.count("roles", ">".join(r for r, _ in roles)[:40])
        ctx.check("roles.identity-noalias", {"payload": payload({"psbt": p, "roles": roles}), "roles": [r for r, _ in roles]})
    for _ in range(ctx.n(6, 40)):
        req = built(rng, rng.choice([0, 2]))
        if rng.random() < 0.5:
            req = sign(req, KM([PRV[0]]))[0]
        ans = sign(req, KM(rng.sample(PRV, rng.randrange(1, 4))))[0]
        sig_lines.append(f"sigonly {render(req)} {render(ans)} " + payload({"op": "sigonly", "request": req, "returned": ans}))
        for what, bad in tamperings(rng, req, ans):
            ctx.count("tamper", what.split(".")[-1])
            key = "signer.global-field-unchecked" if what.startswith("glob[0].") and \
                what.split(".")[-1] in ("signed_message", "sp_ecdh_shares", "sp_dleq_proofs") else None
            ctx.check("signer.tamper", {"payload": payload({"request": req, "answer": ans, "tampered": bad, "what": what}),
                                        "what": what}, key=key)
            sig_lines.append(f"sigonly {render(req)} {render(bad)} " + payload({"op": "sigonly", "request": req, "returned": bad}))
    ctx.correspond("signer.sigonly", EXE, [(ln, impl(ln)) for ln in sig_lines],
                   nontrivial=lambda ln, out: True, key="signer.sigonly")

    # ---- version 0 on the wire (fields folded into / read out of the unsigned transaction) and a signer's answer
    #      read whole: assert_signatures_only with the verification, assert_signed, new_signers; script-path inputs
    wire_lines, ans_lines = [], []

    def wire(p):
        if p.version != 0:
            try:
                p = p.to_v0()
            except BTClibValueError:
                return
        tok = render(p)
        wire_lines.append(f"wirev0 {tok} " + payload({"op": "wirev0", "psbt": p}))
        wire_lines.append(f"readv0 {tok} " + payload({"op": "readv0", "psbt": p}))
    for p in wire_seeds:
        wire(p)
    for _ in range(ctx.n(30, 300)):
        kind = rng.choice([False, True, "script", "script"])
        req = built(rng, rng.choice([0, 2]), taproot=kind)
        ctx.count("answers", f"request taproot={kind} v{req.version}")
        if rng.random() < 0.4:
            req = sign(req, KM([rng.choice(PRV[:3])]))[0]
        keys = rng.sample(PRV, rng.randrange(0, 4))
        ans = sign(req, KM(keys))[0]
        full = sign(req, KM(PRV))[0]
        wire(ans)
        cases = [("honest", req, ans), ("full", req, full), ("echo", req, deepcopy(req)), ("swapped", ans, req)]
        # a signature that does not verify: one bit of one ADDED signature flipped (still well-formed)
        for i, (a, r) in enumerate(zip(ans.inputs, req.inputs)):
            for n in spec()["signer"]["verified"]:
                for k, val in _sig_items(a, n):
                    if (k is None and getattr(r, n)) or (k is not None and k in getattr(r, n)):
                        continue
                    bad = deepcopy(ans)
                    pos = 40 if n != "partial_sigs" else len(val) - 4
                    nv = val[:pos] + bytes([val[pos] ^ 1]) + val[pos + 1:]
                    if k is None:
                        setattr(bad.inputs[i], n, nv)
                    else:
                        getattr(bad.inputs[i], n)[k] = nv
                    try:
                        bad.assert_valid()
                    except Exception:  # noqa: BLE001
                        continue
                    cases.append((f"bad {n}", req, bad))
                    break
        # a changed sig-hash type (in both, so that only `_assert_sig_hash_type` can object), a finalized answer,
        # an origin nobody states
        both = (deepcopy(req), deepcopy(full))
        for q in both:
            q.inputs[-1].sig_hash_type = rng.choice([1, 3, 0x81])
        cases.append(("sighash stated", *both))
        try:
            cases.append(("finalized", req, finalize(full)))
        except BTClibValueError:
            pass
        anon = (deepcopy(req), deepcopy(ans))
        for q in anon:
            for x in q.inputs:
                if rng.random() < 0.5:
                    x.hd_key_paths = {}
                else:
                    x.taproot_hd_key_paths = {k: v for k, v in x.taproot_hd_key_paths.items() if rng.random() < 0.5}
        cases.append(("origin missing", *anon))
        for what, bad in rng.sample(tamperings(rng, req, ans), min(3, len(tamperings(rng, req, ans)))):
            cases.append(("tampered", req, bad))
        for what, a, b in cases:
            try:
                a.assert_valid()
                b.assert_valid()
            except Exception:  # noqa: BLE001
                continue
            ctx.count("answers", what)
            ans_lines.append(asigonly_line(a, b))
            ans_lines.append(newsigners_line(a, b))
            ans_lines.append(asigned_line(b, rng.random() < 0.5))
            ans_lines.append(asigned_line(b, rng.random() < 0.5))
    ctx.correspond("psbt.wire-v0", EXE, [(ln, impl(ln)) for ln in wire_lines], key="psbt.wire-v0")
    ctx.correspond("signer.answers", EXE, [(ln, impl(ln)) for ln in ans_lines],
                   nontrivial=lambda ln, out: True, key="signer.answers")
    for cls in ("request taproot=script v0", "request taproot=script v2", "bad taproot_script_spend_signatures",
                "bad partial_sigs", "finalized", "origin missing"):
        if not ctx.hist.get("answers", {}).get(cls):
            raise common.HarnessError(f"signer.answers: class `{cls}` was not generated")

    # ---- every role, every kind of signer: fresh objects
    for _ in range(ctx.n(12, 150)):
        p = built(rng, rng.choice([0, 2]))
        if rng.random() < 0.5:
            p = sign(p, KM([PRV[0]]))[0]
        q = sign(p, KM(rng.sample(PRV, 2)))[0]
        cases = [("combine", None, [p, q]), ("combine", None, [p]), ("sign", rng.sample(PRV, 2), [p]),
                 ("sign", [0x7777], [p]), ("finalize", None, [sign(p, KM(PRV))[0]]), ("to_v0", None, [p]),
                 ("to_v2", None, [p]), ("software_signer", list(PRV), [p]),
                 ("request_signatures", ("echo",), [p]), ("request_signatures", ("abstain",), [p]),
                 ("request_signatures", ("partial", rng.sample(PRV, 1)), [p]),
                 ("request_signatures", ("full", list(PRV)), [p]),
                 ("request_signatures", ("echo",), [sign(p, KM(PRV))[0]])]
        other = built(rng, p.version, taproot=False)
        if p.version == 2:
            p3, other = deepcopy(p), deepcopy(other)
            p3.tx_modifiable = other.tx_modifiable = 3
            cases.append(("join", None, [p3, other]))
        else:
            cases.append(("join", None, [p, other]))
        ctx.check("signer.accounting", {"payload": payload({"request": p, "keys": rng.sample(PRV, rng.randrange(0, 4))})})
        for role, arg, ps in cases:
            ctx.count("fresh", role + _a(arg))
            ctx.check("roles.fresh", {"payload": payload({"role": role, "arg": arg, "psbts": ps}),
                                      "role": role + _a(arg)}, key=f"roles.fresh.{role}")
    # ---- every function btclib.psbt exposes that is handed a psbt (found by introspection), on signed psbts
    entries = discovered_entries()
    must = {"combine", "sign", "finalize", "join", "request_signatures", "assert_signatures_only", "assert_signed",
            "new_signers", "extract_tx", "Psbt.to_v0", "Psbt.to_v2", "Psbt.tx", "Psbt.to_dict", "Psbt.from_dict", "Psbt.parse"}
    if not must <= set(entries):
        raise common.HarnessError(f"roles.alias: introspection lost {sorted(must - set(entries))}")
    for _ in range(ctx.n(3, 30)):
        kind = rng.choice([False, True, "script"])
        p = built(rng, rng.choice([0, 2]), taproot=kind)
        if p.version == 2:
            p.tx_modifiable = 3
        q = sign(p, KM(rng.sample(PRV, rng.randrange(1, 4))))[0]
        for name in entries:
            ctx.count("alias-all", name)
            ctx.check("roles.alias-all", {"payload": payload({"psbts": [q, p]}), "entry": name},
                      key=f"roles.alias.{name}")
    # ---- every entry point of the anchors, given nothing to do
    for _ in range(ctx.n(4, 40)):
        p = built(rng, rng.choice([0, 2]))
        if rng.random() < 0.5:
            p = sign(p, KM([PRV[0]]))[0]
        for name in _idle_calls():
            ctx.count("idle", name)
            ctx.check("roles.idle", {"payload": payload({"psbt": p}), "entry": name}, key=f"roles.idle.{name.split('[')[0]}")
    # ---- conversions on psbts whose lock time BIP370's rule decides
    lock_lines = []
    combos = [(sh, fc) for sh in LOCK_SHAPES for fc in LOCK_FALLBACKS]
    for j in range(ctx.n(126, 2520)):
        p, cls = lock_psbt(rng, *combos[j % len(combos)]) if j < 3 * len(combos) else lock_psbt(rng)
        ctx.count("locktime", cls)
        ctx.check("convert.identity", {"payload": payload({"psbt": p}), "class": cls}, key="convert.identity")
        try:
            p.assert_valid()
        except BTClibValueError:
            if "no lock time" not in cls and "mixed" not in cls:
                pass
        tok = render(p)
        lock_lines.append(f"tov0 {tok} " + payload({"op": "tov0", "psbt": p}))
        lock_lines.append(f"tx {tok} 0 " + payload({"op": "tx", "psbt": p, "for_id": False}))
    for _ in range(ctx.n(30, 300)):
        q = built(rng, rng.choice([0, 2]))
        q.inputs[0].sequence = 0
        ctx.check("convert.identity", {"payload": payload({"psbt": q}), "class": "built sequence=0"}, key="convert.identity")
    ctx.correspond("psbt.convert-locktime", EXE, [(ln, impl(ln)) for ln in lock_lines],
                   nontrivial=lambda ln, out: True, key="psbt.convert")
    for sh, fc in combos:
        if not ctx.hist.get("locktime", {}).get(f"fallback={fc} required={sh}"):
            raise common.HarnessError(f"lock-time class `fallback={fc} required={sh}` was not generated")
    # ---- falsy-but-present values of every merged `is None` field
    u = spec()["universe"]
    for sec in ("glob", "in", "out"):
        merged = dict(spec()["calls"][sec])
        for n, kind, pres, _v2 in u[sec]:
            if pres == "notNone" and kind == "scalar" and merged.get(n) in ("truthy", "notNone"):
                ctx.check("combine.falsy-later", {"sec": sec, "field": n}, key=f"combine.falsy-lost.{sec}.{n}")
    view_cases(rng, ctx)
    findings(ctx)


# ------------------------------------------------------------------ the three excluded points of the theorems, on the real code
def _o_sp_script(w):
    G1 = bytes.fromhex("0279be667ef9dcbbac55a06295ce870b07029bfcdb2dce28d959f2815b16f81798")
    G2 = bytes.fromhex("02c6047f9441ed7d6d3045406e95c07cd85c778e4b8cef3ca7abac09b95c709ee5")
    a = Psbt(2, [PsbtIn(previous_tx_id=b"\x11" * 32, output_index=0)], [PsbtOut(amount=1000, sp_v0_info=G1 + G2)], 2, {})
    b = deepcopy(a)
    b.outputs[0].script_pub_key = bytes.fromhex("5120" + "22" * 32)
    b.assert_valid()
    same = a.unique_id == b.unique_id
    ab, ba = combine([a, b]), combine([b, a])
    ok = (not same) or (ab.serialize() == ba.serialize() and ab.outputs[0].script_pub_key == b.outputs[0].script_pub_key)
    return ok, (f"same unique_id={same}; combine([a,b]) script={ab.outputs[0].script_pub_key.hex() or '-'} "
                f"combine([b,a]) script={ba.outputs[0].script_pub_key.hex()}")


def _o_sighash0(w):
    a = Psbt(2, [PsbtIn(previous_tx_id=b"\x11" * 32, output_index=0, sig_hash_type=0)],
             [PsbtOut(amount=1, script_pub_key=b"\x51")], 2, {})
    b = deepcopy(a)
    b.inputs[0].sig_hash_type = None
    ab, ba = combine([a, b]), combine([b, a])
    return (ab == ba and ab.to_dict() == ba.to_dict()), \
        f"sig_hash_type: combine([a,b])={ab.inputs[0].sig_hash_type} combine([b,a])={ba.inputs[0].sig_hash_type}"


def _o_locktime_shift(w):
    T = 1_700_000_000

    def mk(i0, i1):
        return Psbt(2, [PsbtIn(previous_tx_id=b"\x11" * 32, output_index=0, **i0),
                        PsbtIn(previous_tx_id=b"\x11" * 32, output_index=1, **i1)],
                    [PsbtOut(amount=1, script_pub_key=b"\x51")], 2, {})
    a = mk(dict(required_height_lock_time=50, required_time_lock_time=T), dict(required_time_lock_time=T))
    b = mk(dict(required_time_lock_time=T), dict(required_height_lock_time=50, required_time_lock_time=T))
    if a.unique_id != b.unique_id:
        return True, "operands are not of one transaction"
    outs = []
    for ops in ([a, b], [b, a], [a, b, a]):
        try:
            outs.append(combine(ops))
        except BTClibValueError:
            outs.append(None)
    if all(o is None for o in outs):
        return True, "refused in every order: merging would change the lock time"
    if any(o is None for o in outs):
        return False, "accepted in one order, refused in another"
    r = outs[0]
    ok = r.unique_id == a.unique_id and r.lock_time == a.lock_time
    try:
        combine([r, a])
        nested = "accepted"
    except BTClibValueError as e:
        nested = f"refused ({e})"
        ok = False
    return ok, f"lock_time {a.lock_time} -> {r.lock_time}; combine([combine([a,b]),a]) {nested}"


ORACLES.update({"finding.sp-script": _o_sp_script, "finding.sighash0": _o_sighash0,
                "finding.locktime-shift": _o_locktime_shift})


def findings(ctx):
    ctx.check("finding.sp-script", {}, key="combine.sp-script-dropped")
    ctx.check("finding.sighash0", {}, key="combine.sighash0-order")
    ctx.check("finding.locktime-shift", {}, key="combine.locktime-shift")


# ------------------------------------------------------------------ the streamed view against the parsed object
_SPG1 = bytes.fromhex("0279be667ef9dcbbac55a06295ce870b07029bfcdb2dce28d959f2815b16f81798")
_SPG2 = bytes.fromhex("02c6047f9441ed7d6d3045406e95c07cd85c778e4b8cef3ca7abac09b95c709ee5")


def _attempt(fn):
    try:
        return ("ok", fn())
    except Exception as e:  # noqa: BLE001 - the class is the observation
        return ("err", type(e).__name__)


def _o_view(w):  # noqa: C901
    """PsbtView over the octets (and over a stream that starts at an offset) reports what the parsed Psbt reports:
    globals, every input and output map, lock_time, the unsigned transaction (octets and id), the spent outputs --
    whatever the order the view is asked in (tx before or after lock_time: the view keeps what it built)."""
    import io
    from btclib.psbt.psbt_view import PsbtView
    raw = bytes.fromhex(w["psbt"])
    p = Psbt.parse(raw)
    pad = b"\x00\x01\x02"
    views = [("octets", lambda: PsbtView(raw))]

    def from_stream():
        s = io.BytesIO(pad + raw)
        s.seek(len(pad))
        return PsbtView(s)
    views.append(("stream", from_stream))
    tx_str = lambda t: t.serialize(include_witness=True, check_validity=False).hex() + ":" + t.id.hex()  # noqa: E731
    want = {
        "lock_time": _attempt(lambda: p.lock_time),
        "tx": _attempt(lambda: tx_str(p.tx)),
        "prevouts": _attempt(lambda: [o.serialize(check_validity=False).hex() for o in M.prevouts(p)]),
    }
    for name, mk in views:
        for order in (("tx", "lock_time", "prevouts"), ("lock_time", "prevouts", "tx")):
            v = mk()
            if (v.version, v.input_count, v.output_count) != (p.version, len(p.inputs), len(p.outputs)):
                return False, f"{name}: version/counts {(v.version, v.input_count, v.output_count)}"
            for g in ("tx_version", "fallback_lock_time", "tx_modifiable", "hd_key_paths", "unknown", "signed_message",
                      "sp_ecdh_shares", "sp_dleq_proofs"):
                if getattr(v, g) != getattr(p, g):
                    return False, f"{name}: global {g}: view {getattr(v, g)!r}, parsed {getattr(p, g)!r}"
            got = {}
            for what in order:
                if what == "tx":
                    got[what] = _attempt(lambda: tx_str(v.tx))
                elif what == "lock_time":
                    got[what] = _attempt(lambda: v.lock_time)
                else:
                    got[what] = _attempt(lambda: [o.serialize(check_validity=False).hex() for o in v.prevouts])
            for what in order:
                if got[what] != want[what]:
                    return False, (f"{name} view asked in order {order}: {what} differs: view {str(got[what])[:300]}, "
                                   f"parsed {str(want[what])[:300]}")
            for i, x in enumerate(p.inputs):
                if v.input(i) != x:
                    return False, f"{name}: input {i} differs"
            for i, x in enumerate(p.outputs):
                if v.output(i) != x:
                    return False, f"{name}: output {i} differs"
    return True, ""


ORACLES.update({"view.agrees": _o_view})


def view_cases(rng, ctx):
    """psbts for view.agrees: vendored and built ones, v0 and v2; on v2 ones an output is, a third of the time each,
    turned into a silent-payment output without its script yet / with its script computed / with a change label."""
    n = ctx.n(150, 3000)
    for _ in range(n):
        sd = seeds(rng)
        if sd and rng.random() < 0.5:
            p = deepcopy(rng.choice(sd))
        else:
            p = built(rng, rng.choice([0, 2, 2]))
            if rng.random() < 0.4:
                p = sign(p, KM(rng.sample(PRV, rng.randrange(1, 4))))[0]
        kind = "plain"
        if p.version == 2 and p.outputs and rng.random() < 0.6:
            o = p.outputs[rng.randrange(len(p.outputs))]
            kind = rng.choice(["sp.noscript", "sp.script", "sp.label"])
            o.sp_v0_info = _SPG1 + _SPG2
            if kind == "sp.noscript":
                o.script_pub_key = b""
            elif kind == "sp.script":
                o.script_pub_key = ScriptPubKey.p2tr(_SPG2).script
            else:
                o.sp_v0_label = rng.choice([0, 1, 7])
                o.script_pub_key = rng.choice([b"", ScriptPubKey.p2tr(_SPG1).script])
            try:
                p.assert_valid()
                raw = p.serialize()
                Psbt.parse(raw)
            except BTClibValueError:
                ctx.count("view.cases", f"v2 {kind} (not a valid psbt, skipped)")
                continue
        else:
            raw = p.serialize()
        ctx.count("view.cases", f"v{p.version} {kind}")
        ctx.check("view.agrees", {"psbt": raw.hex()})
