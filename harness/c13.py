"""C13 — mnemonics and seeds: entropy round-trips, checksums bind, thresholds recover (DESIGN §3 C13).

Correspondence (model vs real btclib, word-INDEX level): GF(256) tables (exhaustive), `_interpolate`,
`_split_secret` (entropy transcript replayed), `_recover_secret`, RS1024, share codec, Feistel, the whole of
`master_secret_from_mnemonics` and `mnemonics_from_master_secret` (iteration exponents 0..2, both flag values), entropy.py digit conversions, BIP39 encode/decode in every
language, BIP39/Electrum seeds vs the shared PBKDF2, Electrum version rule, BIP85 HMAC.
Word lists are an opaque bijection checked exhaustively each run (`wordlist.bijection`).
Property oracles run on the real code alone.  Seeds and master keys on hostile Unicode text (passphrases, sentence
spellings, every language) are decided against Electrum's normalize_text / BIP39's NFKD rule + PBKDF2 + BIP32 written from
the specifications in harness/c13_text.py (oracles electrum.text, electrum.spelling, bip39.text).
"""
from __future__ import annotations

import hashlib
import hmac
import itertools
import unicodedata

from btclib import bip32, bip85
from btclib.exceptions import BTClibValueError
from btclib.mnemonic import bip39, dispatch, electrum, entropy, slip39
from btclib.mnemonic.mnemonic import BIP39_LANGUAGE_FILES, WORDLISTS, indexes_from_mnemonic, mnemonic_from_indexes

from . import c13_text as T
from . import common, shared
from .common import hx, unhx

PROP = "C13"
EXE = "drv_c13"
GEN_MODULES = ["Slip39", "Mnemonic"]
RULE = ("op lines come from one seeded PRNG: GF(256) products exhaustively; Shamir splits with the entropy "
        "transcript replayed; SLIP39 share subsets (qualifying and not) in random order; BIP39 sentences in all 12 "
        "languages with every-position single-word substitutions; a case is non-trivial when the implementation "
        "did not refuse it; distinct = distinct (stream, op line)")
TRUSTED = ["unicodedata (normalize / combining / str.lower / str.split: called by the references of harness/c13_text.py and by "
           "btclib alike) and the word-list files: word <-> index is an opaque bijection, checked exhaustively each run "
           "(oracle wordlist.bijection) and by the translator (duplicate-free, NFKD-normal, hashed), not proved in Lean",
           "text normalisation (NFKD, Electrum's normalize_text) is not modelled: it is decided on hostile Unicode text by "
           "the oracles electrum.text / electrum.spelling / bip39.text against references written from the specifications",
           "PBKDF2 / HMAC / SHA-2 instances of the model are validated against hashlib each run, not verified",
           "SLIP39 PBKDF2: the model runs iteration exponents 0..2 (streams feistel/master/generate); exponents 0..5, "
           "the library defaults (e = 1, extendable) and the flag are checked against hashlib.pbkdf2_hmac with an "
           "independently written iteration count (oracle slip39.kdf); exponents above 5 are not exercised",
           "BIP85: the BIP32 child derivation is btclib's own (property C07); only the HMAC step is modelled"]
ASSUMPTIONS = ["a wrong passphrase gives a *different* secret: proved equivalent to `the two passphrases do not encrypt the "
               "secret to the same ciphertext` (slip39_wrong_passphrase_characterised); that PBKDF2-HMAC-SHA256 under two "
               "passphrases does not is assumed and tested",
               "hypotheses carried by counted theorems: hF/hF' (round functions preserve length; proved for the executable one: "
               "executable_lengths), hhm (HMAC output >= DIGEST_BYTES; proved for hmacSha256), hH of the *_any_hash variants, "
               "the entropy-source shape hypotheses hgr/hmr (string counts and lengths as _split_secret asks for them), "
               "W.Nodup in wordlist_index_of_word (checked by the translator, not proved), "
               "hb: 2 <= base in the electrum_generate_* theorems (true of every shipped list: Gen.Mnemonic.WORDLISTS)",
               "Electrum's candidate search (electrum_generate_*): what a candidate's sentence SPELLS enters as the "
               "parameters isOld / digits indexed by the candidate integer (old-seed test and HMAC digits of the normalised "
               "text: the stream electrum.search hands the model the reference normalisation of each candidate's sentence, "
               "btclib's own is compared with it on the implementation side); `while True` is modelled with a fuel"]

BIP39_LANGS = list(BIP39_LANGUAGE_FILES)
ENT_SIZES = (128, 160, 192, 224, 256)


# ------------------------------------------------------------------ helpers
def nats(xs):
    xs = list(xs)
    return ",".join(str(int(x)) for x in xs) if xs else "_"


def unnats(s):
    return [] if s == "_" else [int(x) for x in s.split(",")]


def bits_tok(b: str) -> str:
    return b if b else "_"


def ref_clmul(a: int, b: int) -> int:
    """carry-less product modulo 0x11B, written independently of the tables."""
    r = 0
    for i in range(8):
        if (b >> i) & 1:
            r ^= a << i
    for i in range(14, 7, -1):
        if (r >> i) & 1:
            r ^= 0x11B << (i - 8)
    return r


def _pt(s):
    x, h = s.split(":")
    return int(x), unhx(h)


def _share_fields(sh) -> str:
    return (f"{sh.identifier} {1 if sh.extendable else 0} {sh.iteration_exponent} {sh.group_index} "
            f"{sh.group_threshold} {sh.group_count} {sh.member_index} {sh.member_threshold} {hx(sh.value)}")


def _slip_idx(m):
    return indexes_from_mnemonic(m, "slip39")


def _slip_words(idx):
    return mnemonic_from_indexes(idx, "slip39")


# ------------------------------------------------------------------ implementation side
def _i_gf_mul(a, b):
    return f"ok {slip39._mul(int(a), int(b))} {ref_clmul(int(a), int(b))}"


def _i_gf_div(a, b):
    return f"ok {slip39._div(int(a), int(b))}"


def _i_interp(x, *pts):
    return "ok " + hx(slip39._interpolate([_pt(p) for p in pts], int(x)))


def _i_split(t, n, secret, rp, *rnd):
    seq = iter([unhx(r) for r in rnd] + [unhx(rp)])
    shares = slip39._split_secret(int(t), int(n), unhx(secret), lambda k: next(seq))
    return "ok " + " ".join(hx(s) for s in shares)


def _i_recover(t, *pts):
    return "ok " + hx(slip39._recover_secret(int(t), [_pt(p) for p in pts]))


def _i_polymod(vs):
    return f"ok {slip39._rs1024_polymod(unnats(vs))}"


def _i_checksum(ext, idx):
    return "ok " + nats(slip39._rs1024_checksum(unnats(idx), ext == "1"))


def _i_verify(ext, idx):
    return "ok " + str(slip39._rs1024_verify(unnats(idx), ext == "1"))


def _i_encode(ident, ext, e, gi, gt, g, mi, mt, v):
    sh = slip39.Share(int(ident), ext == "1", int(e), int(gi), int(gt), int(g), int(mi), int(mt), unhx(v))
    return "ok " + nats(_slip_idx(slip39.mnemonic_from_share(sh)))


def _i_decode(idx):
    return "ok " + _share_fields(slip39.share_from_mnemonic(_slip_words(unnats(idx))))


def _i_feistel(dec, pw, e, ident, ext, payload):
    return "ok " + hx(slip39._feistel(unhx(payload), unhx(pw).decode(), int(e), int(ident), ext == "1",
                                      decrypt=dec == "1"))


def _i_master(pw, sentences):
    ms = [_slip_words(unnats(s)) for s in sentences.split(";")]
    return "ok " + hx(slip39.master_secret_from_mnemonics(ms, unhx(pw).decode()))


def _i_to_idx(bits, base):
    return "ok " + nats(entropy.wordlist_indexes_from_bin_str_entropy("" if bits == "_" else bits, int(base)))


def _i_from_idx(idx, base):
    return "ok " + bits_tok(entropy.bin_str_entropy_from_wordlist_indexes(unnats(idx), int(base)))


def _i_bip39_idx(lang, bits):
    return "ok " + nats(indexes_from_mnemonic(bip39.mnemonic_from_entropy(bits, lang), lang))


def _i_bip39_entropy(lang, idx):
    sep = bip39._SEPARATORS.get(lang, " ")
    return "ok " + bits_tok(bip39.entropy_from_mnemonic(mnemonic_from_indexes(unnats(idx), lang, separator=sep), lang))


def _i_bip39_seed(sentence, pw):
    return "ok " + hx(bip39.seed_from_mnemonic(unhx(sentence).decode(), unhx(pw).decode(), verify_checksum=False))


def _i_electrum_seed(sentence, pw, orig, orig_pw):
    m, p = unhx(orig).decode(), unhx(orig_pw).decode()
    if electrum._normalize(m).encode() != unhx(sentence) or electrum._normalize(p).encode() != unhx(pw):
        return "bad-line"
    return "ok " + hx(electrum._seed_from_mnemonic(m, p)[1])


def _i_electrum_type(is_old, norm, nwords, orig):
    m = unhx(orig).decode()
    if (is_old == "1") != electrum._is_old_mnemonic(m) or unhx(norm) != electrum._normalize(m).encode() \
            or int(nwords) != len(m.split()):
        return "bad-line"
    return "ok " + electrum.version_from_mnemonic(m)[0]


def _i_electrum_idx(v, base, lang):
    if electrum.ELECTRUM_WORDLISTS.language_length(lang) != int(base):
        return "bad-line"
    m = electrum._mnemonic_from_int_entropy(int(v), lang)
    return "ok " + nats(indexes_from_mnemonic(m, lang, electrum.ELECTRUM_WORDLISTS))


def _i_electrum_bits(idx, base, lang):
    if electrum.ELECTRUM_WORDLISTS.language_length(lang) != int(base):
        return "bad-line"
    m = mnemonic_from_indexes(unnats(idx), lang, electrum.ELECTRUM_WORDLISTS)
    return "ok " + bits_tok(electrum._bin_str_entropy_from_mnemonic(m, lang))


def _el_words(lang):
    return electrum.ELECTRUM_WORDLISTS.wordlist(lang)


def ref_el_indexes(c, base):
    """Electrum's mnemonic_encode: least significant word first."""
    out = []
    while c:
        c, i = divmod(c, base)
        out.append(i)
    return out


def ref_el_sentence(c, lang):
    wl = _el_words(lang)
    return " ".join(wl[i] for i in ref_el_indexes(c, len(wl)))


def ref_el_is_bip39(idx, base):
    """Electrum's bip39_is_checksum_valid, handed Electrum's own list whatever its length."""
    n = len(idx)
    if n not in (12, 15, 18, 21, 24):
        return False
    v = 0
    for i in idx:
        v = v * base + i
    cs = 11 * n // 33
    h = int.from_bytes(hashlib.sha256((v >> cs).to_bytes(4 * cs, "big")).digest(), "big")
    return v % (1 << cs) == h >> (256 - cs)


def ref_el_qualifies(c, lang, prefix):
    s = ref_el_sentence(c, lang)
    base = len(_el_words(lang))
    return (not T.ref_is_old_seed(s)) and (not ref_el_is_bip39(ref_el_indexes(c, base), base)) \
        and T.ref_seed_version(s).startswith(prefix)


def el_search_line(typ, lang, e, count):
    """`electrum.search` line: what the sentences of candidates e+1 .. e+count spell (reference normalisation and
    old-seed test; nothing of btclib's output enters the line)."""
    cands = []
    for c in range(e + 1, e + 1 + count):
        s = ref_el_sentence(c, lang)
        cands.append(f"{1 if T.ref_is_old_seed(s) else 0}:{hx(ref_electrum_normalize(s).encode())}")
    return f"electrum.search {typ} {len(_el_words(lang))} {e} {lang} {';'.join(cands)}"


def _i_electrum_search(typ, base, e, lang, cands):
    base, e = int(base), int(e)
    if electrum.ELECTRUM_WORDLISTS.language_length(lang) != base:
        return "bad-line"
    for k, tok in enumerate(cands.split(";")):      # the transcript is what btclib itself would hash / recognise
        flag, sent = tok.split(":")
        m = electrum._mnemonic_from_int_entropy(e + 1 + k, lang)
        if (flag == "1") != electrum._is_old_mnemonic(m) or unhx(sent) != electrum._normalize(m).encode():
            return "bad-line"
    m = electrum.mnemonic_from_entropy(typ, e, lang)
    idx = indexes_from_mnemonic(m, lang, electrum.ELECTRUM_WORDLISTS)
    return f"ok {sum(i * base ** k for k, i in enumerate(idx))} {nats(idx)}"


def _i_electrum_isbip39(idx, base, lang):
    if electrum.ELECTRUM_WORDLISTS.language_length(lang) != int(base):
        return "bad-line"
    m = mnemonic_from_indexes(unnats(idx), lang, electrum.ELECTRUM_WORDLISTS)
    return "ok " + str(electrum._is_bip39_mnemonic(m, lang))


_OLD_WL: list = []


def _old_wl():
    if not _OLD_WL:
        _OLD_WL.extend(electrum._old_wordlist())
    return _OLD_WL


def _i_old_enc(groups):
    gs = unnats(groups)
    if any(g >= 2 ** 32 for g in gs):
        return "bad-line"
    wi = {x: i for i, x in enumerate(_old_wl())}
    return "ok " + nats(wi[x] for x in electrum.old_mnemonic_from_hex_seed("".join(f"{g:08x}" for g in gs)).split())


def _i_old_dec(idx):
    wl = _old_wl()
    return "ok " + electrum.hex_seed_from_old_mnemonic(" ".join(wl[i] for i in unnats(idx)))


def _child_key(xprv, path) -> bytes:
    return bip32.BIP32KeyData.b58decode(bip32.derive(xprv, path)).key[1:]


def _i_bip85_entropy(key, xprv, path):
    if _child_key(xprv, path) != unhx(key):
        return "bad-line"
    return "ok " + hx(bip85.entropy_from_der_path(xprv, path))


def _i_bip85_hex(key, n, xprv, index):
    if 16 <= int(n) <= 64 and _child_key(xprv, f"m/83696968h/128169h/{n}h/{index}h") != unhx(key):
        return "bad-line"           # the key in the line is the child at the path THE BIP defines
    return "ok " + hx(bip85.bytes_entropy_from_root_key(xprv, int(n), int(index)))


_B85_SIZED = {"bytes_entropy_from_root_key": (lambda r, n, i: bip85.bytes_entropy_from_root_key(r, n, i), 128169),
              "base64_password_from_root_key": (lambda r, n, i: bip85.base64_password_from_root_key(r, n, i).encode(), 707764),
              "base85_password_from_root_key": (lambda r, n, i: bip85.base85_password_from_root_key(r, n, i).encode(), 707785)}
_B85_ROOT = "xprv9s21ZrQH143K3EuJY8RRCWBLXFgB9WCcFKsv28bcaDy9LUZtXgHe9q9V8kLi4aJ6H8r5X2wu9gz2ZYXbAhtsAcJKX8Z1Ackw6Wq1oi8DEEk"     # root of the seed 00 01 .. 1f


def _i_bip85_sized(fn, size, index):
    """btclib's path observed through its behaviour: the application number whose BIP path reproduces the output."""
    import base64
    f, _app = _B85_SIZED[fn]
    size, index = int(size), int(index)
    got = f(_B85_ROOT, size, index)
    enc = {"bytes_entropy_from_root_key": lambda e: e, "base64_password_from_root_key": base64.b64encode,
           "base85_password_from_root_key": base64.b85encode}[fn]
    apps = [a for a in (2, 32, 39, 128169, 707764, 707785, 89101)
            if enc(_bip85_entropy(_B85_ROOT, f"m/83696968h/{a}h/{size}h/{index}h"))[:size] == got]
    return f"ok 83696968,{apps[0]},{size},{index}" if len(apps) == 1 else f"ok no-single-application:{apps}"


def _i_bip85_bip39(key, words, xprv, lang, index):
    li = BIP85_LANGUAGE_TABLE.get(lang)
    if li is not None and int(words) in (12, 15, 18, 21, 24):
        # the key in the line is the child at the path THE BIP defines (the model hashes that key)
        if _child_key(xprv, f"m/83696968h/39h/{li}h/{words}h/{index}h") != unhx(key):
            return "bad-line"
    return "ok " + nats(indexes_from_mnemonic(bip85.mnemonic_from_root_key(xprv, int(words), lang, int(index)), lang))


_WORD_INDEX: dict = {}


def word_index(lang):
    """word -> index of a BIP39 language, built from the list itself (not through btclib's lookup)."""
    if lang not in _WORD_INDEX:
        _WORD_INDEX[lang] = {w: i for i, w in enumerate(WORDLISTS.wordlist(lang))}
    return _WORD_INDEX[lang]


def lang_view(m, lang):
    """(nwords, known, indexes in `lang`) of a sentence, independently of btclib's lookups."""
    words = [unicodedata.normalize("NFKD", w) for w in m.split()]
    wi = word_index(lang)
    known = all(w in wi for w in words)
    return len(words), known, ([wi[w] for w in words] if known else [])


def _electrum_version(m):
    try:
        return electrum.version_from_mnemonic(m)[0]
    except BTClibValueError:
        return "-"


def dispatch_line(m, lang):
    n, known, idx = lang_view(m, lang)
    slip = 1 if dispatch._slip39_seed_type(m) else 0
    return f"dispatch.all {lang} {slip} {_electrum_version(m)} {n} {1 if known else 0} {nats(idx)} {hx(m.encode())}"


def _i_dispatch_all(lang, slip, el, nwords, known, idx, sentence):
    m = unhx(sentence).decode()
    if dispatch_line(m, lang) != f"dispatch.all {lang} {slip} {el} {nwords} {known} {idx} {sentence}":
        return "bad-line"
    b = dispatch._bip39_seed_type(m, lang)
    al = dispatch.all_seed_types_from_mnemonic(m, lang)
    return f"ok {b or '-'} {','.join(al) or '-'} {dispatch.seed_type_from_mnemonic(m, lang) or '-'}"


def _i_generate(secret, pw, id_bytes, ext, e, gt, groups, group_rp, *rest):
    secret, pw = unhx(secret), unhx(pw).decode()
    ext, e, gt = ext == "1", int(e), int(gt)
    gl = unnats(groups)
    grp = [(gl[i], gl[i + 1]) for i in range(0, len(gl) - 1, 2)]
    n_group_rnd = len(rest) - len(grp)
    queue = [unhx(id_bytes)]
    if gt >= 2:
        queue += [unhx(x) for x in rest[:n_group_rnd]] + [unhx(group_rp)]
    for (mt, _mc), tok in zip(grp, rest[n_group_rnd:]):
        rp, rnd = tok.split("|")
        if mt >= 2:
            queue += [unhx(x) for x in rnd.split(",") if x] + [unhx(rp)]
    it = iter(queue)
    ms = slip39.mnemonics_from_master_secret(secret, grp, gt, pw, e, ext, lambda k: next(it))
    return "ok " + ";".join("/".join(nats(_slip_idx(m)) for m in row) for row in ms)


def generate_line(rng, secret, pw, ext, e, gt, grp):
    """run the real generator once with a recording source; the line replays its transcript (the model encrypts,
    splits and encodes on its own: nothing of btclib's output is in the line)."""
    src = Source(rng)
    try:
        slip39.mnemonics_from_master_secret(secret, grp, gt, pw, e, ext, src)
    except BTClibValueError:
        pass
    log = list(src.log)
    if not log:
        log = [common.rand_bytes(rng, 2)]
    pos = 1

    def take(k):
        nonlocal pos
        out = log[pos:pos + k]
        pos += len(out)
        return out
    group_rnd, group_rp = [], b""
    if 2 <= gt <= len(grp) <= 16:
        group_rnd = take(gt - 2)
        group_rp = (take(1) or [b""])[0]
    toks = []
    for mt, mc in grp:
        rnd, rp = [], b""
        if 2 <= mt <= mc <= 16 and pos < len(log):
            rnd = take(mt - 2)
            rp = (take(1) or [b""])[0]
        toks.append(hx(rp) + "|" + ",".join(hx(r) for r in rnd))
    return (f"slip39.generate {hx(secret)} {hx(pw.encode())} {hx(log[0])} {1 if ext else 0} {e} {gt} "
            f"{nats(x for g in grp for x in g)} {hx(group_rp)}" +
            "".join(" " + hx(r) for r in group_rnd) + "".join(" " + t for t in toks))


def _i_bip85_path(lang, words, index, xprv):
    """btclib's derivation path, observed through its behaviour: the language code whose path reproduces the sentence."""
    got = bip85.mnemonic_from_root_key(xprv, int(words), lang, int(index)).split()
    nbytes = int(words) * 4 // 3
    codes = [c for c in range(0, 12)
             if _ref_bip39_words(_bip85_entropy(xprv, f"m/83696968h/39h/{c}h/{words}h/{index}h")[:nbytes], lang) == got]
    if len(codes) != 1:
        return f"ok no-single-language-code:{codes}"
    return f"ok 83696968,39,{codes[0]},{words},{index}"


IMPL = {
    "bip85.path": _i_bip85_path,
    "gf.mul": _i_gf_mul, "gf.div": _i_gf_div, "slip39.interp": _i_interp, "slip39.split": _i_split,
    "slip39.recover": _i_recover, "slip39.polymod": _i_polymod, "slip39.checksum": _i_checksum,
    "slip39.verify": _i_verify, "slip39.encode": _i_encode, "slip39.decode": _i_decode,
    "slip39.feistel": _i_feistel, "slip39.master": _i_master, "entropy.to_idx": _i_to_idx,
    "entropy.from_idx": _i_from_idx, "bip39.idx": _i_bip39_idx, "bip39.entropy": _i_bip39_entropy,
    "bip39.seed": _i_bip39_seed, "electrum.seed": _i_electrum_seed, "electrum.type": _i_electrum_type, "electrum.search": _i_electrum_search,
    "electrum.isbip39": _i_electrum_isbip39,
    "electrum.old.enc": _i_old_enc, "electrum.old.dec": _i_old_dec, "electrum.idx": _i_electrum_idx, "electrum.bits": _i_electrum_bits, "bip85.entropy": _i_bip85_entropy,
    "bip85.bip39": _i_bip85_bip39, "bip85.hex": _i_bip85_hex, "bip85.sized": _i_bip85_sized, "dispatch.all": _i_dispatch_all, "slip39.generate": _i_generate,
}


def impl(line: str) -> str:
    t = line.split(" ")
    f = IMPL.get(t[0])
    if f is None:
        return "bad-op"
    try:
        return f(*t[1:])
    except Exception as e:  # noqa: BLE001 - the class *is* the observation
        c = common.err_class(e)
        return "err " + (c if not c.startswith("foreign") else "foreign")


# ------------------------------------------------------------------ SLIP39 set generation
class Source:
    """deterministic `entropy_source` that also records what it handed out."""

    def __init__(self, rng):
        self.rng = rng
        self.log = []

    def __call__(self, n):
        b = common.rand_bytes(self.rng, n)
        self.log.append(b)
        return b


def _seeded_source(seed):
    import random
    return Source(random.Random(seed))


def make_set(w):
    """witness -> (secret, groups of mnemonics).  w: secret(hex) groups [[t,n]..] gt pw ext seed"""
    return slip39.mnemonics_from_master_secret(
        bytes.fromhex(w["secret"]), [tuple(g) for g in w["groups"]], w["gt"], w["pw"], w.get("e", 0), w["ext"],
        _seeded_source(w["seed"]))


def qualifies(w, sel):
    """sel: list of (group, member).  SLIP39's exact rule: exactly `gt` groups, each with exactly its threshold."""
    if not sel or len(set(sel)) != len(sel):
        return False
    by = {}
    for g, m in sel:
        by.setdefault(g, []).append(m)
    return len(by) == w["gt"] and all(len(ms) == w["groups"][g][0] for g, ms in by.items())


# ------------------------------------------------------------------ property oracles (real code only)
def _o_wordlist(w):
    lang, which = w["lang"], w["registry"]
    wl = WORDLISTS if which == "bip39" else electrum.ELECTRUM_WORDLISTS
    words = list(wl.wordlist(lang))
    n = len(words)
    want = w["n"]
    if n != want or len(set(words)) != n:
        return False, f"{which}/{lang}: {n} words, {len(set(words))} distinct, expected {want}"
    bad = [x for x in words if unicodedata.normalize("NFKD", x) != x or not x or x != x.strip() or " " in x]
    if bad:
        return False, f"{which}/{lang}: not NFKD-normal / not a single token: {bad[:3]}"
    idx = list(range(n))
    sep = w.get("sep", " ")
    back = indexes_from_mnemonic(mnemonic_from_indexes(idx, lang, wl, separator=sep), lang, wl)
    if back != idx:
        k = next(i for i in range(n) if i >= len(back) or back[i] != i)
        return False, f"{which}/{lang}: index {k} does not survive words->indexes"
    # NFC spelling of every word must be found too (lookups normalise)
    nfc = [unicodedata.normalize("NFC", x) for x in words]
    if [wl.index(x, lang) for x in nfc] != idx:
        return False, f"{which}/{lang}: an NFC-spelled word is not found at its index"
    return True, f"{which}/{lang}: {n} distinct NFKD words, bijection holds"


def _bits_of(b: bytes) -> str:
    return bin(int.from_bytes(b, "big"))[2:].zfill(8 * len(b)) if b else ""


def _bip39_ref_valid(idx):
    """independent BIP39 acceptance: last ENT/32 bits equal the SHA-256 prefix."""
    n = len(idx)
    if n not in (12, 15, 18, 21, 24) or any(not 0 <= i < 2048 for i in idx):
        return None
    v = 0
    for i in idx:
        v = (v << 11) | i
    cs = n // 3
    ent = v >> cs
    eb = ent.to_bytes(n * 11 * 32 // 33 // 8, "big")
    return (v & ((1 << cs) - 1)) == hashlib.sha256(eb).digest()[0] >> (8 - cs), eb


def _o_bip39_roundtrip(w):
    lang, e = w["lang"], bytes.fromhex(w["e"])
    m = bip39.mnemonic_from_entropy(e, lang)
    back = bip39.entropy_from_mnemonic(m, lang)
    if back != _bits_of(e):
        return False, f"{lang}: entropy {e.hex()} -> '{m}' -> {back}"
    idx = indexes_from_mnemonic(m, lang)
    ok, eb = _bip39_ref_valid(idx)
    if not ok or eb != e or len(idx) != len(e) * 3 // 4:
        return False, f"{lang}: sentence of {e.hex()} is not the one BIP39 defines (indexes {idx})"
    # language detection must not change the answer
    try:
        auto = bip39.entropy_from_mnemonic(m)
    except BTClibValueError as ex:
        return False, f"{lang}: auto-detected language refuses its own sentence: {ex}"
    if auto != back:
        return False, f"{lang}: auto-detected language decodes to another entropy"
    # seed = PBKDF2-HMAC-SHA512(NFKD sentence, "mnemonic" + NFKD passphrase, 2048, 64), independently
    pw = w.get("pw", "")
    norm = " ".join(unicodedata.normalize("NFKD", m).split())
    want = hashlib.pbkdf2_hmac("sha512", norm.encode(), ("mnemonic" + unicodedata.normalize("NFKD", pw)).encode(), 2048, 64)
    got = bip39.seed_from_mnemonic(m, pw)
    if got != want:
        return False, f"{lang}: seed differs from PBKDF2 of the NFKD sentence"
    nfc = unicodedata.normalize("NFC", m)
    if bip39.seed_from_mnemonic(nfc, unicodedata.normalize("NFC", pw)) != want:
        return False, f"{lang}: NFC spelling stretches to another seed"
    from btclib.bip32 import rootxprv_from_seed
    if bip39.mxprv_from_mnemonic(m, pw) != rootxprv_from_seed(want):
        return False, f"{lang}: master key is not the BIP32 root of the seed"
    return True, f"{lang} {len(e) * 8} bits"


def _o_bip39_substitution(w):
    """accepted exactly when the checksum is the SHA-256 prefix (independent computation)."""
    lang, idx = w["lang"], w["idx"]
    sep = bip39._SEPARATORS.get(lang, " ")
    m = mnemonic_from_indexes(idx, lang, separator=sep)
    ref = _bip39_ref_valid(idx)
    want = bool(ref and ref[0])
    try:
        got_e = bip39.entropy_from_mnemonic(m, lang)
        got = True
    except BTClibValueError:
        got, got_e = False, None
    if got != want:
        return False, f"{lang}: indexes {idx} accepted={got}, BIP39 says {want}"
    if got and got_e != _bits_of(ref[1]):
        return False, f"{lang}: indexes {idx} decode to the wrong entropy"
    return True, f"{lang} accepted={got}"


def _o_electrum_roundtrip(w):
    lang, typ, e = w["lang"], w["type"], int(w["e"])
    try:
        m = electrum.mnemonic_from_entropy(typ, e, lang)
    except BTClibValueError as ex:
        return False, f"{lang}: no '{typ}' seed can be generated from entropy {e}: {ex}"
    ver, norm = electrum.version_from_mnemonic(m)
    if ver != typ:
        return False, f"{lang}: asked {typ}, sentence reads {ver}"
    sv = hmac.new(b"Seed version", norm.encode(), hashlib.sha512).hexdigest()
    if not sv.startswith(electrum._MNEMONIC_VERSIONS[typ]):
        return False, f"{lang}: version prefix of '{m}' is {sv[:3]}"
    back = int(electrum.entropy_from_mnemonic(m, lang), 2)
    if back <= e:
        return False, f"{lang}: decoded entropy {back} is not above the starting point {e}"
    if electrum._mnemonic_from_int_entropy(back, lang) != m:
        return False, f"{lang}: entropy {back} does not spell the sentence it was decoded from"
    if electrum.mnemonic_from_entropy(typ, back - 1, lang) != m:
        return False, f"{lang}: searching from {back - 1} does not return the same sentence"
    pw = w.get("pw", "")
    want = T.ref_electrum_seed(m, pw)
    if norm != ref_electrum_normalize(m):
        return False, f"{lang}: normalised sentence is not Electrum's normalize_text of '{m}'"
    if electrum._seed_from_mnemonic(m, pw) != (typ, want):
        return False, f"{lang}: seed differs from PBKDF2(normalize_text(sentence), 'electrum' + normalize_text({pw!r}))"
    bad = _electrum_master_bad(m, pw, w.get("net", "mainnet"), typ, want)
    if bad:
        return False, f"{lang}: {bad}"
    return True, f"{lang} {typ}"


# Electrum's normalize_text / calc_seed_type written from Electrum's source (harness/c13_text.py: the FULL CJK table)
ref_electrum_normalize = T.ref_electrum_normalize
ref_electrum_type = T.ref_electrum_seed_type


def _o_electrum_version(w):
    """version, entropy and seed of a sentence against independent computations; `m` is written with the given
    separator (plain or ideographic space)."""
    m, lang = w["m"], w["lang"]
    want = ref_electrum_type(m)
    try:
        got, norm = electrum.version_from_mnemonic(m)
    except BTClibValueError as ex:
        if want:
            return False, f"{lang}: a {len(m.split())}-word '{want}' seed is refused: {ex}  [{m}]"
        return True, "no version, refused"
    if got != want:
        return False, f"{lang}: '{m}' is read as '{got}', Electrum's rule says '{want or 'no seed'}'"
    if norm != ref_electrum_normalize(m):
        return False, f"{lang}: normalised sentence differs"
    wi = {x: i for i, x in enumerate(electrum.ELECTRUM_WORDLISTS.wordlist(lang))}
    idx = [wi[unicodedata.normalize("NFKD", x)] for x in m.split()]
    v = sum(i * len(wi) ** k for k, i in enumerate(idx))
    if int(electrum.entropy_from_mnemonic(m, lang), 2) != v:
        return False, f"{lang}: entropy of '{m}' is not the base-{len(wi)} number its words spell"
    seed = hashlib.pbkdf2_hmac("sha512", ref_electrum_normalize(m).encode(), b"electrum", 2048, 64)
    if electrum._seed_from_mnemonic(m, "") != (want, seed):
        return False, f"{lang}: seed of '{m}' differs from PBKDF2 of the normalised sentence"
    if want in ("standard", "segwit") and not electrum.mxprv_from_mnemonic(m):
        return False, "no master key"
    return True, f"{lang} {want}"


def _electrum_master_bad(m, pw, net, typ, seed):
    """master key of an Electrum sentence against BIP32 written from the BIP: root for `standard`, child 0' under
    SLIP-0132's p2wpkh version for `segwit`, a refusal for every other type.  Returns a complaint or None."""
    try:
        got = electrum.mxprv_from_mnemonic(m, pw, net)
    except BTClibValueError as ex:
        return None if typ not in ("standard", "segwit") else f"master key of a '{typ}' seed refused: {ex}"
    if typ not in ("standard", "segwit"):
        return f"a master key is returned for a '{typ or 'no'}' seed"
    want = T.ref_master(seed, T.XPRV_VERSIONS[(net, typ)], hardened_child0=typ == "segwit")
    if want is not None and got != want:
        return (f"master key ({net}, {typ}) with passphrase {pw!r} is {got}, BIP32 of the independently stretched "
                f"seed gives {want}")
    return None


def _o_electrum_text(w):
    """hostile text `t` (a) through the normalisation, (b) read as a sentence by the public entry points, (c) as the
    passphrase of the valid sentence `m`: normalised text, version, seed and master key against Electrum's rules."""
    import re
    t, m, net = w["t"], w["m"], w.get("net", "mainnet")
    want = ref_electrum_normalize(t)
    try:
        want.encode()
    except UnicodeEncodeError:
        try:
            electrum._seed_from_mnemonic(m, t)
        except BTClibValueError:
            return True, "unencodable text refused"
        return False, f"a passphrase that has no UTF-8 encoding is stretched: {t!r}"
    got = electrum._normalize(t)
    if got != want:
        return False, f"_normalize({t!r}) = {got!r}, Electrum's normalize_text gives {want!r}"
    typ = ref_electrum_type(t)
    try:
        ver, norm = electrum.version_from_mnemonic(t)
    except BTClibValueError as ex:
        if typ:
            return False, f"{t!r} is a '{typ}' seed by Electrum's rule and is refused: {ex}"
        q = re.search(r"version: '([0-9a-f]{3})'", str(ex))
        if q and q.group(1) != T.ref_seed_version(t)[:3]:
            return False, (f"version prefix of {t!r} reported as {q.group(1)}, HMAC-SHA512('Seed version', "
                           f"normalize_text) starts {T.ref_seed_version(t)[:3]}")
    else:
        if (ver, norm) != (typ, want):
            return False, f"{t!r} read as ({ver!r}, {norm!r}); Electrum's rules give ({typ!r}, {want!r})"
        if typ != "old":
            pw = w.get("pw", "")
            seed = T.ref_electrum_seed(t, pw)
            if electrum._seed_from_mnemonic(t, pw) != (typ, seed):
                return False, f"seed of the sentence {t!r} with passphrase {pw!r} is not Electrum's"
            bad = _electrum_master_bad(t, pw, net, typ, seed)
            if bad:
                return False, f"sentence {t!r}: {bad}"
    mtyp = ref_electrum_type(m)
    seed = T.ref_electrum_seed(m, t)
    if electrum._seed_from_mnemonic(m, t) != (mtyp, seed):
        return False, (f"seed with passphrase {t!r} (normalize_text: {want!r}) is not PBKDF2-HMAC-SHA512(sentence, "
                       f"'electrum' + normalize_text(passphrase), 2048)")
    bad = _electrum_master_bad(m, t, net, mtyp, seed)
    if bad:
        return False, bad
    return True, f"{len(t)} characters, read as '{typ or '-'}'"


def _o_electrum_spelling(w):
    """another spelling `ms` of the library-generated sentence `m` (and `pws` of the passphrase `pw`): version, seed and
    master key are those of Electrum's rules applied to the spelling, and those of the original."""
    m, ms, pw, pws, lang, net = w["m"], w["ms"], w["pw"], w["pws"], w["lang"], w.get("net", "mainnet")
    typ = ref_electrum_type(ms)
    if ref_electrum_normalize(ms) != ref_electrum_normalize(m) or ref_electrum_normalize(pws) != ref_electrum_normalize(pw):
        raise common.HarnessError(f"respelling changed the normalised text: {m!r} -> {ms!r}")
    try:
        ver, norm = electrum.version_from_mnemonic(ms)
    except BTClibValueError as ex:
        return False, f"{lang}: the spelling {ms!r} of a valid '{typ}' sentence is refused: {ex}"
    if (ver, norm) != (typ, ref_electrum_normalize(ms)):
        return False, f"{lang}: {ms!r} read as ({ver!r}, {norm!r}), Electrum's rules give ({typ!r}, {ref_electrum_normalize(ms)!r})"
    seed = T.ref_electrum_seed(ms, pws)
    if electrum._seed_from_mnemonic(ms, pws) != (typ, seed):
        return False, f"{lang}: seed of the spelling {ms!r} / passphrase {pws!r} is not Electrum's"
    if electrum._seed_from_mnemonic(m, pw) != (typ, seed):
        return False, f"{lang}: {m!r} and its spelling {ms!r} stretch to different seeds"
    bad = _electrum_master_bad(ms, pws, net, typ, seed)
    if bad:
        return False, f"{lang}: {bad}"
    return True, f"{lang} {typ}"


def _o_bip39_text(w):
    """BIP39 seed and master key on hostile text: `ms` is a spelling of the valid sentence `m` (composed forms,
    compatibility letters, any blanks), `pw` any text; with "t" a text that is no sentence at all (checksum unverified).
    BIP39: PBKDF2-HMAC-SHA512(NFKD sentence, "mnemonic" + NFKD passphrase, 2048, 64).  btclib reads every run of blanks
    as one blank (documented); where the spelling is canonical after NFKD the reference is BIP39's to the letter."""
    pw, net = w["pw"], w.get("net", "mainnet")
    try:
        (w.get("t", "") + pw).encode()
    except UnicodeEncodeError:
        try:
            bip39.seed_from_mnemonic(w.get("t") or w["ms"], pw, verify_checksum=False)
        except BTClibValueError:
            return True, "unencodable text refused"
        return False, "text without a UTF-8 encoding is stretched"
    if "t" in w:
        t = w["t"]
        want = T.ref_bip39_seed(" ".join(unicodedata.normalize("NFKD", t).split()), pw)
        if bip39.seed_from_mnemonic(t, pw, verify_checksum=False) != want:
            return False, f"seed of the text {t!r} / passphrase {pw!r} is not PBKDF2 of their NFKD forms"
        if bip39.mxprv_from_mnemonic(t, pw, net, verify_checksum=False) != T.ref_master(want, T.XPRV_VERSIONS[(net, "standard")]):
            return False, f"master key of the text {t!r} / passphrase {pw!r} is not the BIP32 root of the BIP39 seed"
        return True, "text"
    m, ms, lang = w["m"], w["ms"], w["lang"]
    nf = unicodedata.normalize("NFKD", ms)
    canon = " ".join(nf.split())
    if canon != " ".join(unicodedata.normalize("NFKD", m).split()):
        raise common.HarnessError(f"respelling changed the NFKD text: {m!r} -> {ms!r}")
    want = T.ref_bip39_seed(canon, pw)
    if nf == canon and want != T.ref_bip39_seed(ms, pw):
        raise common.HarnessError("reference disagrees with itself")
    got = bip39.seed_from_mnemonic(ms, pw)
    if got != want:
        return False, (f"{lang}: seed of {ms!r} with passphrase {pw!r} (NFKD {unicodedata.normalize('NFKD', pw)!r}) is not "
                       f"PBKDF2-HMAC-SHA512(NFKD sentence, 'mnemonic' + NFKD passphrase, 2048)")
    if bip39.mxprv_from_mnemonic(ms, pw, net) != T.ref_master(want, T.XPRV_VERSIONS[(net, "standard")]):
        return False, f"{lang}: master key of {ms!r} / {pw!r} is not the BIP32 root of the BIP39 seed"
    e = bip39.entropy_from_mnemonic(m, lang)
    if bip39.entropy_from_mnemonic(ms, lang) != e or bip39.entropy_from_mnemonic(ms) != e:
        return False, f"{lang}: the spelling {ms!r} decodes to another entropy than {m!r}"
    return True, f"{lang} {'canonical' if nf == canon else 'blanks'}"


def _o_electrum_old(w):
    """pre-2.0 seeds against Electrum's old_mnemonic / Old_KeyStore rewritten: sentence, hex seed back (from any
    spelling), recognised as `old` and never as a versioned seed, stretched key and master public key."""
    hs = w["hex"]
    want = T.ref_old_encode(hs)
    m = electrum.old_mnemonic_from_hex_seed(hs)
    if m.split() != want:
        return False, f"sentence of the seed {hs} is not mn_encode's: {m!r}"
    if len(want) not in (12, 24):
        try:
            electrum.hex_seed_from_old_mnemonic(m)
        except BTClibValueError:
            return True, f"{len(want)} words: encoded, not a seed"
        return False, f"a {len(want)}-word sentence is read as a pre-2.0 seed"
    for sp in [m] + w.get("spellings", []):
        back = electrum.hex_seed_from_old_mnemonic(sp)
        if back != hs:
            return False, f"{sp!r} decodes to {back}, it was made from {hs}"
        if electrum.version_from_mnemonic(sp)[0] != "old" or T.ref_electrum_seed_type(sp) != "old":
            return False, f"{sp!r} is not recognised as a pre-2.0 seed"
        for f in (electrum.mxprv_from_mnemonic, electrum.entropy_from_mnemonic):
            try:
                f(sp)
            except BTClibValueError:
                continue
            return False, f"{f.__name__} answers for the pre-2.0 seed {sp!r}"
    if w.get("stretch"):
        k, mpk = T.ref_old_master(hs)
        for sp in (hs, m) if mpk is not None else ():
            if electrum.old_master_prv_key_from_mnemonic(sp) != k:
                return False, f"master private key of {sp!r} is not 100 000 rounds of sha256(digest + hex seed)"
            if electrum.old_master_pub_key_from_mnemonic(sp) != mpk:
                return False, f"master public key of {sp!r} is not x || y of the stretched key"
            try:
                electrum.old_master_prv_key_from_mnemonic(sp, "pass")
            except BTClibValueError:
                continue
            return False, "a passphrase is accepted for a pre-2.0 seed"
    return True, f"{len(want)} words"


def _o_slip39_set(w):
    """every listed selection: qualifying -> the secret (and another secret under a wrong passphrase),
    non-qualifying -> BTClibValueError."""
    secret = bytes.fromhex(w["secret"])
    groups = make_set(w)
    for sel in w["sels"]:
        sel = [tuple(x) for x in sel]
        ms = [groups[g][m] for g, m in sel]
        q = qualifies(w, sel)
        try:
            got = slip39.master_secret_from_mnemonics(ms, w["pw"])
        except BTClibValueError as ex:
            if q:
                return False, f"qualifying selection {sel} refused: {ex}"
            continue
        if not q:
            return False, f"non-qualifying selection {sel} of config {w['groups']}/{w['gt']} was accepted"
        if got != secret:
            return False, f"selection {sel} recovers {got.hex()} instead of {secret.hex()}"
        try:
            other = slip39.master_secret_from_mnemonics(ms, w["pw"] + "x")
        except BTClibValueError as ex:
            return False, f"wrong passphrase raises instead of decrypting to a decoy: {ex}"
        if other == secret or len(other) != len(secret):
            return False, f"wrong passphrase gives the same secret for {sel}"
    return True, f"{len(w['sels'])} selections of {w['groups']}/{w['gt']}"


def ref_feistel(payload: bytes, pw: str, e: int, ident: int, ext: bool, decrypt: bool) -> bytes:
    """SLIP-0039's encryption written from the SLIP text with hashlib alone: 4 rounds, 10000·2^e PBKDF2-HMAC-SHA256
    iterations IN TOTAL (so a quarter per round), salt "shamir" ‖ identifier unless the backup is extendable."""
    salt = b"" if ext else b"shamir" + ident.to_bytes(2, "big")
    iterations = (10000 * 2 ** e) // 4
    half = len(payload) // 2
    left, right = payload[:half], payload[half:]
    for i in (range(3, -1, -1) if decrypt else range(4)):
        f = hashlib.pbkdf2_hmac("sha256", bytes([i]) + pw.encode("ascii"), salt + right, iterations, len(right))
        left, right = right, bytes(a ^ b for a, b in zip(left, f))
    return right + left


def _o_slip39_kdf(w):
    """iteration exponent and extendable flag against an independent hashlib computation."""
    secret, pw, e, ext, ident = bytes.fromhex(w["secret"]), w["pw"], w["e"], w["ext"], w["id"]
    want = ref_feistel(secret, pw, e, ident, ext, False)
    got = slip39._feistel(secret, pw, e, ident, ext, decrypt=False)
    if got != want:
        return False, f"_feistel(e={e}, extendable={ext}, id={ident}) is not 4 x PBKDF2({(10000 << e) // 4} iterations)"
    if slip39._feistel(want, pw, e, ident, ext, decrypt=True) != secret:
        return False, f"_feistel does not decrypt the reference ciphertext (e={e}, extendable={ext})"
    # the public generator: a 1-of-1 share carries e, the flag, and the reference ciphertext of its own identifier
    (m,), = slip39.mnemonics_from_master_secret(secret, [(1, 1)], 1, pw, e, ext, _seeded_source(w["seed"]))
    sh = slip39.share_from_mnemonic(m)
    if sh.iteration_exponent != e or sh.extendable != ext:
        return False, f"share header says e={sh.iteration_exponent}, extendable={sh.extendable}; asked {e}, {ext}"
    if sh.value != ref_feistel(secret, pw, e, sh.identifier, ext, False):
        return False, f"1-of-1 share value is not the reference encryption (e={e}, extendable={ext})"
    # the public recovery on a share made from the reference ciphertext alone
    made = slip39.mnemonic_from_share(slip39.Share(ident, ext, e, 0, 1, 1, 0, 1, want))
    back = slip39.master_secret_from_mnemonics([made], pw)
    if back != secret:
        return False, f"reference share (e={e}, extendable={ext}) recovers {back.hex()} instead of {secret.hex()}"
    if w.get("defaults"):
        (m,), = slip39.mnemonics_from_master_secret(secret, passphrase=pw, entropy_source=_seeded_source(w["seed"]))
        sh = slip39.share_from_mnemonic(m)
        if (sh.iteration_exponent, sh.extendable) != (1, True) or \
                sh.value != ref_feistel(secret, pw, 1, sh.identifier, True, False):
            return False, "default parameters are not iteration exponent 1 / extendable, or the value differs"
    return True, f"e={e} extendable={ext}"


def _o_slip39_substitution(w):
    idx = list(w["idx"])
    m = _slip_words(idx)
    try:
        sh = slip39.share_from_mnemonic(m)
    except BTClibValueError as ex:
        return False, f"valid share refused: {ex}"
    if _slip_idx(slip39.mnemonic_from_share(sh)) != idx:
        return False, "share -> mnemonic does not reproduce the sentence"
    for pos, v in w["subs"]:
        if idx[pos] == v:
            continue
        bad = idx[:pos] + [v] + idx[pos + 1:]
        try:
            slip39.share_from_mnemonic(_slip_words(bad))
        except BTClibValueError:
            continue
        return False, f"single-word substitution at {pos} ({idx[pos]} -> {v}) accepted"
    return True, f"{len(w['subs'])} substitutions refused"


def _o_slip39_codec(w):
    f = w["share"]
    try:
        sh = slip39.Share(f[0], bool(f[1]), f[2], f[3], f[4], f[5], f[6], f[7], bytes.fromhex(f[8]))
    except BTClibValueError:
        return True, "share refused at construction"
    try:
        m = slip39.mnemonic_from_share(sh)
    except BTClibValueError as ex:
        return False, f"valid share with a {len(sh.value)}-byte value is not encodable: {ex}"
    try:
        back = slip39.share_from_mnemonic(m)
    except BTClibValueError as ex:
        return False, f"the mnemonic of a valid share with a {len(sh.value)}-byte value ({len(m.split())} words) is refused: {ex}"
    n = len(m.split())
    want_words = 4 + -(-8 * len(sh.value) // 10) + 3
    return (back == sh and n == want_words), f"{n} words, round trip {'ok' if back == sh else 'FAILED'}"


def _o_bip85(w):
    xprv, path = w["xprv"], w["path"]
    k = _child_key(xprv, path)
    want = hmac.new(b"bip-entropy-from-k", k, hashlib.sha512).digest()
    got = bip85.entropy_from_der_path(xprv, path)
    if got != want:
        return False, f"entropy of {path} is not HMAC-SHA512('bip-entropy-from-k', k)"
    if "words" in w:
        m = bip85.mnemonic_from_root_key(xprv, w["words"], w["lang"], w["index"])
        li = BIP85_LANGUAGE_TABLE[w["lang"]]
        p = f"m/83696968h/39h/{li}h/{w['words']}h/{w['index']}h"
        e = hmac.new(b"bip-entropy-from-k", _child_key(xprv, p), hashlib.sha512).digest()[: w["words"] * 4 // 3]
        if m != bip39.mnemonic_from_entropy(e, w["lang"]) or bip39.entropy_from_mnemonic(m, w["lang"]) != _bits_of(e):
            return False, f"bip85 mnemonic ({w['words']} words, {w['lang']}) is not BIP39 of the truncated HMAC"
    return True, path


# BIP85's Language Table, copied from the BIP text (bip-0085.mediawiki, "BIP39" application), keyed by the word-list
# keys btclib uses: Chinese (Simplified) is 4', Chinese (Traditional) 5'.
BIP85_LANGUAGE_TABLE = {"en": 0, "ja": 1, "ko": 2, "es": 3, "zh": 4, "zh_tw": 5, "fr": 6, "it": 7, "cs": 8, "pt": 9}
_B58 = "123456789ABCDEFGHJKLMNPQRSTUVWXYZabcdefghijkmnopqrstuvwxyz"


def _b58check(payload: bytes) -> str:
    data = payload + hashlib.sha256(hashlib.sha256(payload).digest()).digest()[:4]
    n = int.from_bytes(data, "big")
    out = ""
    while n:
        n, r = divmod(n, 58)
        out = _B58[r] + out
    return "1" * (len(data) - len(data.lstrip(b"\x00"))) + out


def _bip85_entropy(xprv, path):
    return hmac.new(b"bip-entropy-from-k", _child_key(xprv, path), hashlib.sha512).digest()


def _ref_bip39_words(e: bytes, lang: str):
    cs = len(e) // 4
    v = (int.from_bytes(e, "big") << cs) | (hashlib.sha256(e).digest()[0] >> (8 - cs))
    n = (8 * len(e) + cs) // 11
    wl = WORDLISTS.wordlist(lang)
    return [wl[(v >> (11 * (n - 1 - i))) & 2047] for i in range(n)]


def _o_bip85_apps(w):
    """every application's derivation path, recomputed from the BIP text, on one root key and index."""
    import base64
    xprv, index = w["xprv"], w["index"]
    P = "m/83696968h"
    for lang, code in BIP85_LANGUAGE_TABLE.items():
        for words, nbytes in ((12, 16), (15, 20), (18, 24), (21, 28), (24, 32)):
            e = _bip85_entropy(xprv, f"{P}/39h/{code}h/{words}h/{index}h")[:nbytes]
            got = bip85.mnemonic_from_root_key(xprv, words, lang, index).split()
            if got != _ref_bip39_words(e, lang):
                return False, (f"BIP39 application: {words} words in '{lang}' (BIP language code {code}') at index "
                               f"{index} is not the sentence of {P}/39h/{code}h/{words}h/{index}h")
    e = _bip85_entropy(xprv, f"{P}/2h/{index}h")
    if bip85.wif_from_root_key(xprv, index) != _b58check(b"\x80" + e[:32] + b"\x01"):
        return False, f"WIF application (2') at index {index}"
    e = _bip85_entropy(xprv, f"{P}/32h/{index}h")
    want = _b58check(bytes.fromhex("0488ade4") + b"\x00" + bytes(4) + bytes(4) + e[:32] + b"\x00" + e[32:])
    if bip85.xprv_from_root_key(xprv, index) != want:
        return False, f"XPRV application (32') at index {index}"
    for n in w["hex_sizes"]:
        if bip85.bytes_entropy_from_root_key(xprv, n, index) != _bip85_entropy(xprv, f"{P}/128169h/{n}h/{index}h")[:n]:
            return False, f"HEX application (128169') {n} bytes at index {index}"
    for n in w["pwd64"]:
        e = _bip85_entropy(xprv, f"{P}/707764h/{n}h/{index}h")
        if bip85.base64_password_from_root_key(xprv, n, index) != base64.b64encode(e).decode()[:n]:
            return False, f"PWD BASE64 application (707764') length {n} at index {index}"
    for n in w["pwd85"]:
        e = _bip85_entropy(xprv, f"{P}/707785h/{n}h/{index}h")
        if bip85.base85_password_from_root_key(xprv, n, index) != base64.b85encode(e).decode()[:n]:
            return False, f"PWD BASE85 application (707785') length {n} at index {index}"
    for sides, rolls in w["dice"]:
        e = _bip85_entropy(xprv, f"{P}/89101h/{sides}h/{rolls}h/{index}h")
        bits = (sides - 1).bit_length()
        nb = (bits + 7) // 8
        stream = hashlib.shake_256(e).digest(nb * (rolls * 40 + 64))
        out, pos = [], 0
        while len(out) < rolls:
            t = int.from_bytes(stream[pos:pos + nb], "big") >> (8 * nb - bits)
            pos += nb
            if t < sides:
                out.append(t)
        if bip85.rolls_from_root_key(xprv, rolls, sides, index) != out:
            return False, f"DICE application (89101') {rolls} rolls of {sides} sides at index {index}"
    return True, f"index {index}"


def _o_dispatch(w):
    """for the NAMED language: "" if a word is unknown, else "bip39" iff the checksum of THAT language's indexes
    is right (independent SHA-256), else "bip39_wordlist"; the plural / singular entry points agree with it."""
    m = w["m"]
    for lang in w["langs"]:
        n, known, idx = lang_view(m, lang)
        if n == 0 or not known:
            want = ""
        else:
            ref = _bip39_ref_valid(idx)
            want = "bip39" if ref and ref[0] else "bip39_wordlist"
        got = dispatch._bip39_seed_type(m, lang)
        if got != want:
            return False, f"lang={lang}: '{m}' is reported as '{got}', its {lang} indexes {idx} say '{want}'"
        al = dispatch.all_seed_types_from_mnemonic(m, lang)
        b = [x for x in al if x.startswith("bip39")]
        if b != ([want] if want else []):
            return False, f"lang={lang}: all_seed_types {al} disagrees with '{want}'"
        if dispatch.seed_type_from_mnemonic(m, lang) != (al[0] if al else ""):
            return False, f"lang={lang}: seed_type is not the first of {al}"
        if want == "bip39" and bip39.entropy_from_mnemonic(m, lang) != _bits_of(ref[1]):
            return False, f"lang={lang}: entropy differs from the independent decoding"
    return True, f"{len(w['langs'])} languages"


def _guarded(name, fn):
    """an exception leaving an oracle is a failed oracle with the exception as the observation."""
    def run(w):
        try:
            return fn(w)
        except Exception as ex:  # noqa: BLE001
            return False, f"{name}: {type(ex).__name__} raised on the witness: {str(ex)[:300]}"
    return run


ORACLES = {"electrum.old": _o_electrum_old, "electrum.text": _o_electrum_text, "electrum.spelling": _o_electrum_spelling, "bip39.text": _o_bip39_text,
           "electrum.version": _o_electrum_version, "bip85.apps": _o_bip85_apps, "slip39.kdf": _o_slip39_kdf, "dispatch.lang": _o_dispatch, "wordlist.bijection": _o_wordlist, "bip39.roundtrip": _o_bip39_roundtrip,
           "bip39.substitution": _o_bip39_substitution, "electrum.roundtrip": _o_electrum_roundtrip,
           "slip39.set": _o_slip39_set, "slip39.substitution": _o_slip39_substitution,
           "slip39.codec": _o_slip39_codec, "bip85.hmac": _o_bip85}
ORACLES = {k: _guarded(k, v) for k, v in ORACLES.items()}


# ------------------------------------------------------------------ generators
ALL_SIZES = list(range(16, 66, 2))


def rand_share_fields(rng, valid=True, n=None):
    n = n or rng.choice([16, 32] + ALL_SIZES)
    g = rng.randrange(1, 17)
    f = [rng.getrandbits(15), rng.randrange(2), rng.randrange(16), rng.randrange(16), rng.randrange(1, g + 1), g,
         rng.randrange(16), rng.randrange(1, 17)]
    v = common.rand_bytes(rng, n)
    if rng.random() < 0.25:
        v = bytes(rng.randrange(1, 4)) + v[rng.randrange(1, 4):]      # leading zero bytes
        v = v[:n] if len(v) >= n else v + bytes(n - len(v))
    if not valid:
        k = rng.randrange(9)
        if k == 8:
            v = common.rand_bytes(rng, rng.choice([0, 1, 14, 15, 17, 33]))
        elif k == 1:
            f[1] = rng.randrange(2)
        else:
            f[k] = rng.choice([0, 16, 17, 32768, f[k]]) if k != 4 else rng.choice([0, g + 1, 17])
    return f + [v.hex()]


def fields_line(f):
    return " ".join(str(x) for x in f[:8]) + " " + hx(bytes.fromhex(f[8]))


def rand_config(rng, max_groups=3, max_members=5):
    ng = rng.randrange(1, max_groups + 1)
    groups = []
    for _ in range(ng):
        n = rng.randrange(1, max_members + 1)
        t = 1 if n == 1 else rng.randrange(2, n + 1)
        groups.append([t, n])
    return groups, rng.randrange(1, ng + 1)


def selections(rng, w, k_each):
    """a mix of qualifying and non-qualifying selections in random order."""
    alls = [(g, m) for g, (t, n) in enumerate(w["groups"]) for m in range(n)]
    out = []
    for _ in range(k_each):
        # qualifying: gt groups, exactly threshold members each
        gs = rng.sample(range(len(w["groups"])), w["gt"])
        sel = [(g, m) for g in gs for m in rng.sample(range(w["groups"][g][1]), w["groups"][g][0])]
        rng.shuffle(sel)
        out.append(sel)
        # near misses: drop one, add one, duplicate one, random subset
        if len(sel) > 1:
            d = list(sel)
            d.pop(rng.randrange(len(d)))
            out.append(d)
        extra = [x for x in alls if x not in sel]
        if extra:
            a = sel + [rng.choice(extra)]
            rng.shuffle(a)
            out.append(a)
        out.append(sel + [rng.choice(sel)])
        r = rng.sample(alls, rng.randrange(1, len(alls) + 1))
        out.append(r)
    return out


def all_subsets(w, rng, limit):
    alls = [(g, m) for g, (t, n) in enumerate(w["groups"]) for m in range(n)]
    subs = []
    if 2 ** len(alls) <= limit:
        for r in range(1, len(alls) + 1):
            for c in itertools.combinations(alls, r):
                c = list(c)
                rng.shuffle(c)
                subs.append(c)
    return subs


# ------------------------------------------------------------------ run
def run(ctx):
    rng = ctx.rng
    thorough = ctx.tier == "thorough"
    shared.validate_hashes(ctx, EXE)

    # --- word lists: opaque bijection, checked exhaustively ------------------------------------------
    for lang in BIP39_LANGS:
        ctx.check("wordlist.bijection", {"lang": lang, "registry": "bip39", "n": 2048,
                                         "sep": bip39._SEPARATORS.get(lang, " ")})
        ctx.check("wordlist.bijection", {"lang": lang, "registry": "electrum",
                                         "n": 1626 if lang == "pt" else 2048})
    ctx.check("wordlist.bijection", {"lang": "slip39", "registry": "bip39", "n": 1024})

    # --- GF(256): all 65 536 products, all quotients ---------------------------------------------------
    ctx.stream("gf.mul", [f"gf.mul {a} {b}" for a in range(256) for b in range(256)])
    ctx.exhaustive_streams.append("gf.mul")
    ctx.stream("gf.div", [f"gf.div {a} {b}" for a in range(256) for b in range(256)])
    ctx.exhaustive_streams.append("gf.div")

    # --- Shamir: interpolate / split / recover --------------------------------------------------------
    lines = []
    for _ in range(ctx.n(150)):
        k = rng.randrange(1, 17)
        xs = rng.sample(range(16), k) if rng.random() < 0.8 else rng.sample(range(254), min(k, 10))
        n = rng.choice([1, 4, 16, 20, 32])
        x = rng.choice([254, 255] + [i for i in range(16) if i not in xs][:3])
        lines.append(f"slip39.interp {x} " + " ".join(f"{xi}:{hx(common.rand_bytes(rng, n))}" for xi in xs))
    ctx.stream("slip39.interp", lines)

    split_lines, rec_lines = [], []
    for _ in range(ctx.n(120)):
        n = rng.randrange(1, 17)
        t = rng.randrange(1, n + 1)
        if rng.random() < 0.12:
            t, n = rng.choice([(0, 3), (4, 3), (1, 17), (17, 17), (2, 0), (0, 0)])
        secret = common.rand_bytes(rng, rng.choice([16, 18, 32]))
        src = Source(rng)
        try:
            shares = slip39._split_secret(t, n, secret, src)
        except BTClibValueError:
            shares = None
        rnd, rp = (src.log[:-1], src.log[-1]) if src.log else ([], b"")
        split_lines.append(f"slip39.split {t} {n} {hx(secret)} {hx(rp)}" + "".join(" " + hx(r) for r in rnd))
        if shares:
            for _ in range(3):
                k = t if rng.random() < 0.7 else rng.randrange(1, n + 1)
                pick = rng.sample(range(n), k)
                pts = [(i, shares[i]) for i in pick]
                if rng.random() < 0.15:
                    j = rng.randrange(len(pts))
                    v = bytearray(pts[j][1])
                    v[rng.randrange(len(v))] ^= 1 << rng.randrange(8)
                    pts[j] = (pts[j][0], bytes(v))
                rec_lines.append(f"slip39.recover {t} " + " ".join(f"{i}:{hx(v)}" for i, v in pts))
    ctx.stream("slip39.split", split_lines)
    ctx.stream("slip39.recover", rec_lines)

    # --- RS1024 + share codec ---------------------------------------------------------------------------
    lines, dec_lines = [], []
    for _ in range(ctx.n(200)):
        vs = [rng.randrange(1024) for _ in range(rng.randrange(0, 40))]
        if rng.random() < 0.2:
            vs.append(rng.choice([1024, 2 ** 20, 2 ** 30 - 1]))
        lines.append(f"slip39.polymod {nats(vs)}")
        ext = rng.randrange(2)
        idx = [rng.randrange(1024) for _ in range(rng.randrange(0, 34))]
        lines.append(f"slip39.checksum {ext} {nats(idx)}")
        full = idx + slip39._rs1024_checksum(idx, bool(ext))
        if rng.random() < 0.5 and full:
            full[rng.randrange(len(full))] ^= rng.randrange(1, 1024)
        lines.append(f"slip39.verify {rng.choice([ext, ext, 1 - ext])} {nats(full)}")
    ctx.stream("slip39.rs1024", lines)

    enc_lines = []
    for j in range(ctx.n(150)):
        # every even value size 16..64 comes round (valid shares), plus random / invalid ones
        f = rand_share_fields(rng, valid=True, n=ALL_SIZES[j % len(ALL_SIZES)]) if j % 2 == 0 else \
            rand_share_fields(rng, valid=rng.random() < 0.6)
        enc_lines.append("slip39.encode " + fields_line(f))
        ctx.count("slip39.value_bytes", str(len(f[8]) // 2))
        ctx.check("slip39.codec", {"share": f})
        try:
            sh = slip39.Share(f[0], bool(f[1]), f[2], f[3], f[4], f[5], f[6], f[7], bytes.fromhex(f[8]))
            idx = _slip_idx(slip39.mnemonic_from_share(sh))
        except BTClibValueError:
            continue
        dec_lines.append(f"slip39.decode {nats(idx)}")
        # every-position single-word substitutions (oracle), a sample of them through the model too
        subs = [[p, rng.randrange(1024)] for p in range(len(idx)) for _ in range(3 if thorough else 1)]
        ctx.check("slip39.substitution", {"idx": idx, "subs": subs})
        for p, v in rng.sample(subs, 3):
            dec_lines.append(f"slip39.decode {nats(idx[:p] + [v] + idx[p + 1:])}")
        # structural mutations: length, padding bits, header with re-made checksum
        body = idx[:-3]
        k = rng.randrange(6)
        if k == 0:
            body = body[:rng.randrange(0, len(body))]
        elif k == 1:
            body = body + [rng.randrange(1024) for _ in range(rng.randrange(1, 4))]
        elif k == 2:
            body[4] |= 512 >> rng.randrange(0, 4)        # into the padding / first value bits
        elif k == 3:
            body[rng.randrange(0, 4)] = rng.randrange(1024)   # header field
        elif k == 4:
            body = [0] * len(body)
        ext_bit = (body[1] >> 4) & 1 if len(body) > 1 else 0
        ext_used = ext_bit if rng.random() < 0.8 else 1 - ext_bit
        dec_lines.append(f"slip39.decode {nats(body + slip39._rs1024_checksum(body, bool(ext_used)))}")
    ctx.stream("slip39.encode", enc_lines)
    ctx.stream("slip39.decode", dec_lines)

    # --- Feistel (iteration exponents 0..2 through the model; 0..5 against hashlib in slip39.kdf) -----------------------------------------------------
    lines = []
    for _ in range(ctx.n(8, 60)):
        pw = "".join(chr(rng.randrange(32, 127)) for _ in range(rng.randrange(0, 12)))
        n = rng.choice([16, 16, 18, 32, 2, 0]) if rng.random() < 0.9 else rng.choice([1, 17])
        e = [0, 1, 2, 1][len(lines) % 4]
        lines.append(f"slip39.feistel {rng.randrange(2)} {hx(pw.encode())} {e} {rng.getrandbits(15)} "
                     f"{rng.randrange(2)} {hx(common.rand_bytes(rng, n))}")
        ctx.count("slip39.iteration_exponent", f"feistel:{e}")
    ctx.stream("slip39.feistel", lines)
    for j in range(ctx.n(12, 60)):
        e = j % 4 if j < 8 else rng.randrange(0, 4 if not thorough else 6)
        ctx.check("slip39.kdf", {"secret": common.rand_bytes(rng, rng.choice(ALL_SIZES)).hex(),
                                 "pw": "".join(chr(rng.randrange(32, 127)) for _ in range(rng.randrange(0, 10))),
                                 "e": e, "ext": bool(j % 2), "id": rng.getrandbits(15), "seed": rng.getrandbits(32),
                                 "defaults": j == 0})
        ctx.count("slip39.iteration_exponent", f"kdf:{e}")

    # --- whole SLIP39: oracle on many selections, model on a few ---------------------------------------
    master_lines = []
    n_sets = ctx.n(10, 60)
    for si in range(n_sets):
        groups, gt = rand_config(rng)
        if si == 0:
            groups, gt = [[2, 3], [3, 5], [1, 1]], 2
        pw = "".join(chr(rng.randrange(32, 127)) for _ in range(rng.randrange(0, 9)))
        w = {"secret": common.rand_bytes(rng, rng.choice([16, 32])).hex(), "groups": groups, "gt": gt, "pw": pw,
             "ext": bool(rng.randrange(2)), "seed": rng.getrandbits(32), "e": si % 3}
        ctx.count("slip39.iteration_exponent", f"set:{si % 3}")
        sels = all_subsets(w, rng, 512 if not thorough else 4096) or []
        sels += selections(rng, w, 4)
        w["sels"] = [[list(x) for x in s] for s in sels]
        ctx.check("slip39.set", w)
        nq = sum(1 for s in sels if qualifies(w, [tuple(x) for x in s]))
        ctx.count("slip39.selections", "qualifying", nq)
        ctx.count("slip39.selections", "non-qualifying", len(sels) - nq)
        if si < ctx.n(6, 25):
            sets = make_set(w)
            pick = selections(rng, w, 1)
            for sel in pick[:4]:
                master_lines.append(f"slip39.master {hx(w['pw'].encode())} " +
                                    ";".join(nats(_slip_idx(sets[g][m])) for g, m in sel))
            sel = pick[0]
            master_lines.append(f"slip39.master {hx((w['pw'] + 'x').encode())} " +
                                ";".join(nats(_slip_idx(sets[g][m])) for g, m in sel))
    # every even master-secret size 16..64: 1-of-1 and 2-of-3 through the oracle, five sizes through the model
    for n in ALL_SIZES:
        for groups, gt in (([[1, 1]], 1), ([[2, 3]], 1)):
            w = {"secret": common.rand_bytes(rng, n).hex(), "groups": groups, "gt": gt, "pw": "pw",
                 "ext": bool(rng.randrange(2)), "seed": rng.getrandbits(32), "e": (n // 2) % 3}
            sels = all_subsets(w, rng, 64)
            w["sels"] = [[list(x) for x in s_] for s_ in sels]
            ctx.check("slip39.set", w)
            ctx.count("slip39.secret_bytes", str(n))
            if groups == [[2, 3]] and n in (24, 34, 44, 54, 64):
                try:
                    sets = make_set(w)
                    master_lines.append(f"slip39.master {hx(b'pw')} " + ";".join(
                        nats(_slip_idx(sets[0][m])) for m in rng.sample(range(3), 2)))
                except BTClibValueError:
                    pass          # reported by the oracle above with the concrete witness
    if master_lines:
        tail = master_lines[0].split(" ", 2)[2]
        for bad in ("pässword", "tab\there", "\x7f"):
            master_lines.append(f"slip39.master {hx(bad.encode())} {tail}")
    ctx.stream("slip39.master", master_lines)

    # --- mnemonics_from_master_secret: entropy transcript replayed through the two-level split of the model ----
    lines = []
    for j in range(ctx.n(16, 120)):
        groups, gt = rand_config(rng, 4, 6)
        if j % 5 == 4:
            k = rng.randrange(4)
            if k == 0:
                gt = rng.choice([0, len(groups) + 1])
            elif k == 1:
                groups[0] = [groups[0][1] + 1, groups[0][1]]
            elif k == 2:
                groups[-1] = [1, 3]
            else:
                groups = [[1, 1]] * 17
        secret = common.rand_bytes(rng, ALL_SIZES[j % len(ALL_SIZES)])
        pw = "".join(chr(rng.randrange(32, 127)) for _ in range(rng.randrange(0, 6)))
        e = rng.choice([0, 1, 1, 2])
        if j % 8 == 7:
            k = rng.randrange(3)
            if k == 0:
                pw = rng.choice(["pässword", "\x1f", "\x7f"])
            elif k == 1:
                secret = common.rand_bytes(rng, rng.choice([14, 15, 17, 33]))
            else:
                e = 16
        ctx.count("slip39.iteration_exponent", f"generate:{e}")
        lines.append(generate_line(rng, secret, pw, bool(rng.randrange(2)), e, gt, [tuple(g) for g in groups]))
    ctx.stream("slip39.generate", lines)

    # --- entropy.py digit conversions ---------------------------------------------------------------------
    lines = []
    for _ in range(ctx.n(400)):
        base = rng.choice([2048, 2048, 1024, 1626, 2, 4, 6, 10, 16, 1000, 2 ** 49 - 1])
        nb = rng.choice([1, 7, 10, 11, 12, 64, 128, 130, 132, 160, 256, 264, 330])
        bits = "".join(rng.choice("01") for _ in range(nb))
        if rng.random() < 0.3:
            z = rng.randrange(nb + 1)
            bits = "0" * z + bits[z:]
        lines.append(f"entropy.to_idx {bits} {base}")
        idx = [rng.randrange(base) for _ in range(rng.randrange(0, 26))]
        if rng.random() < 0.3 and idx:
            idx[0] = 0
        if rng.random() < 0.1 and idx:
            idx[rng.randrange(len(idx))] = base + rng.randrange(3)
        lines.append(f"entropy.from_idx {nats(idx)} {base}")
    ctx.stream("entropy.digits", lines)

    # --- BIP39 in every language ----------------------------------------------------------------------------
    lines = []
    per_lang = ctx.n(4, 20)
    for lang in BIP39_LANGS:
        for j in range(per_lang):
            nbits = ENT_SIZES[j % 5] if j < 5 or rng.random() < 0.8 else rng.choice([512, 96, 129, 288, 600])
            e = common.rand_bytes(rng, nbits // 8)
            if rng.random() < 0.3:
                z = rng.randrange(1, 5)
                e = bytes(z) + e[z:]
            bits = _bits_of(e)[:nbits] if nbits % 8 == 0 else "".join(rng.choice("01") for _ in range(nbits))
            lines.append(f"bip39.idx {lang} {bits}")
            if nbits in ENT_SIZES:
                pw = rng.choice(["", "TREZOR", "pässword", "パス ａ", "é"])
                ctx.check("bip39.roundtrip", {"lang": lang, "e": e.hex(), "pw": pw})
                idx = indexes_from_mnemonic(bip39.mnemonic_from_entropy(e, lang), lang)
                lines.append(f"bip39.entropy {lang} {nats(idx)}")
                # every position, several substitutes: accepted iff the checksum is right
                for p in range(len(idx)):
                    for _ in range(ctx.n(3, 30) if j < 2 else 1):
                        v = rng.randrange(2048)
                        sub = idx[:p] + [v] + idx[p + 1:]
                        ctx.check("bip39.substitution", {"lang": lang, "idx": sub})
                        if rng.random() < 0.1:
                            lines.append(f"bip39.entropy {lang} {nats(sub)}")
                # wrong lengths
                cut = idx[:rng.choice([0, 1, 11, 13, len(idx) - 1])]
                lines.append(f"bip39.entropy {lang} {nats(cut)}")
    ctx.stream("bip39.index", lines)

    lines = []
    for _ in range(ctx.n(4, 30)):
        lang = rng.choice(BIP39_LANGS)
        m = bip39.mnemonic_from_entropy(common.rand_bytes(rng, rng.choice([16, 32])), lang)
        norm = " ".join(unicodedata.normalize("NFKD", m).split())
        pw = unicodedata.normalize("NFKD", rng.choice(["", "TREZOR", "pässword", "パス", "a" * 200]))
        lines.append(f"bip39.seed {hx(norm.encode())} {hx(pw.encode())}")
    ctx.stream("bip39.seed", lines)

    # --- Electrum ------------------------------------------------------------------------------------------------
    lines, seed_lines = [], []
    el_langs = ["en", "es", "ja", "pt", "zh", "it"]
    for j in range(ctx.n(10, 80)):
        lang = el_langs[j % len(el_langs)]
        typ = rng.choice(["standard", "segwit", "2fa_segwit"] + (["2fa"] if lang != "pt" else []))
        e = rng.getrandbits(rng.choice([120, 128, 131]))
        base = electrum.ELECTRUM_WORDLISTS.language_length(lang)
        lines.append(f"electrum.idx {e} {base} {lang}")
        lines.append(f"electrum.idx {rng.choice([0, 1, base - 1, base, base ** 3])} {base} {lang}")
        try:
            m = electrum.mnemonic_from_entropy(typ, e, lang)
        except BTClibValueError:
            continue
        ctx.check("electrum.roundtrip", {"lang": lang, "type": typ, "e": str(e), "pw": rng.choice(["", "Pass Wörd"])})
        idx = indexes_from_mnemonic(m, lang, electrum.ELECTRUM_WORDLISTS)
        lines.append(f"electrum.bits {nats(idx)} {base} {lang}")
        lines.append(f"electrum.bits {nats([0] * rng.randrange(0, 3) + idx[:rng.randrange(1, 5)] + [0, 0])} {base} {lang}")
        cands = [m, m.upper(), "  " + m.replace(" ", "  "), " ".join(m.split()[:-1]), " ".join(m.split() + ["abc"])]
        for c in cands:
            lines.append(f"electrum.type {1 if electrum._is_old_mnemonic(c) else 0} "
                         f"{hx(electrum._normalize(c).encode())} {len(c.split())} {hx(c.encode())}")
        if j < ctx.n(3, 20):
            pw = rng.choice(["", "x", "Pass Wörd"])
            seed_lines.append(f"electrum.seed {hx(electrum._normalize(m).encode())} "
                              f"{hx(electrum._normalize(pw).encode())} {hx(m.encode())} {hx(pw.encode())}")
    # every seed type in every language electrum reads (CJK included), generated by the library: a refusal to
    # generate, or a sentence that does not read back as asked, fails the oracle
    for lang in ["ja", "zh", "en", "es", "pt"] + (["ko", "zh_tw", "fr"] if thorough else []):
        for typ in ("standard", "segwit", "2fa", "2fa_segwit"):
            if lang == "pt" and typ == "2fa":
                continue          # 1626 words: the default entropy is 13 words, which "2fa" cannot be
            e = (1 << 125) + rng.getrandbits(125)          # twelve words of a 2048-word list
            ctx.check("electrum.roundtrip", {"lang": lang, "type": typ, "e": str(e), "pw": ""})
            ctx.count("electrum.generated", f"{lang}:{typ}")
    # ... and found independently of the library's generator: random sentences whose HMAC prefix is each version,
    # at 12 / 13 / 24 words, written with a plain and with an ideographic space
    for lang in ("ja", "zh"):
        wl = electrum.ELECTRUM_WORDLISTS.wordlist(lang)
        want = {("standard", 12): 1, ("segwit", 12): 1, ("2fa", 12): 2, ("2fa_segwit", 12): 1, ("2fa", 24): 1,
                ("101", 13): 1}
        for _ in range(200000):
            if not any(want.values()):
                break
            nw = rng.choice([12, 12, 12, 12, 13, 24])
            ws = [rng.choice(wl) for _ in range(nw)]
            c = " ".join(ws)
            sv = hmac.new(b"Seed version", ref_electrum_normalize(c).encode(), hashlib.sha512).hexdigest()
            key = (ref_electrum_type(c), nw) if nw != 13 else (sv[:3], 13)
            if want.get(key, 0) > 0:
                want[key] -= 1
                for sep in (" ", "\u3000"):
                    cm = sep.join(ws)
                    ctx.check("electrum.version", {"m": cm, "lang": lang})
                    ctx.count("electrum.cjk", f"{lang}:{key[0]}:{nw}:{'ideographic' if sep != ' ' else 'plain'}")
                    lines.append(f"electrum.type 0 {hx(ref_electrum_normalize(cm).encode())} {nw} {hx(cm.encode())}")
        if any(want.values()):
            raise common.HarnessError(f"electrum CJK search: classes not found for {lang}: {want}")
    # old-style and hex seeds for the version rule
    old = electrum.old_mnemonic_from_hex_seed(common.rand_bytes(rng, 16).hex())
    for c in [old, common.rand_bytes(rng, 16).hex(), "abandon " * 11 + "about"]:
        lines.append(f"electrum.type {1 if electrum._is_old_mnemonic(c) else 0} "
                     f"{hx(electrum._normalize(c).encode())} {len(c.split())} {hx(c.encode())}")
    # 2fa word-count rule: search sentences whose version starts "101" at several lengths
    for nw in [11, 12, 13, 19, 20, 21, 24] * ctx.n(1, 5):
        for _ in range(200000):
            c = " ".join(f"w{rng.getrandbits(40):x}" for _ in range(nw))
            if electrum._seed_version(c).startswith("101"):
                lines.append(f"electrum.type 0 {hx(electrum._normalize(c).encode())} {nw} {hx(c.encode())}")
                ctx.count("electrum.2fa_words", str(nw))
                break
    # --- Electrum: the candidate search of mnemonic_from_entropy (model: electrumGenerate) -----------------------
    # the reference finds where the search must stop; the line starts a few candidates below it so that the transcript
    # stays short, and carries some candidates beyond it (a model that went on would answer something else)
    def first_qualifying(e, lang, prefix, limit=60000):
        for c in range(e + 1, e + 1 + limit):
            if ref_el_qualifies(c, lang, prefix):
                return c
        raise common.HarnessError(f"electrum.search: no qualifying candidate within {limit} of {e} ({lang}, {prefix})")

    def near(e, c):
        return max(e, c - rng.randrange(1, 14))

    s_lines, b_lines = [], []
    versions = dict(electrum._MNEMONIC_VERSIONS)
    plan = [("standard", lang) for lang in ["en", "pt", "ja", "es", "zh", "it"][:ctx.n(4, 6)]] * ctx.n(1, 4) \
        + [(typ, rng.choice(["en", "pt", "zh"])) for typ in ("segwit", "2fa_segwit", "2fa")] * ctx.n(1, 3)
    for typ, lang in plan:
        base = len(_el_words(lang))
        e = rng.getrandbits(rng.choice([120, 128, 131, 132]))
        if typ == "2fa" and lang != "pt":
            e = (1 << 125) + rng.getrandbits(125)         # twelve words: the read-back accepts
        c = first_qualifying(e, lang, versions[typ])
        e2 = near(e, c)
        s_lines.append(el_search_line(typ, lang, e2, c - e2 + rng.randrange(0, 3)))
        nw = len(ref_el_indexes(c, base))
        ctx.count("electrum.search", f"{typ}:{lang}:{nw}w:{'refused' if typ == '2fa' and nw != 12 and nw < 20 else 'found'}")
    # "2fa" where the read-back must refuse: 13 words of the 1626-word list, and one- or two-word sentences
    for lang, e in [("pt", (1 << 131) + rng.getrandbits(130)), ("en", rng.randrange(0, 5000))][:ctx.n(2, 2)]:
        c = first_qualifying(e, lang, versions["2fa"])
        e2 = near(e, c)
        s_lines.append(el_search_line("2fa", lang, e2, c - e2 + 1))
        ctx.count("electrum.search", f"2fa:{lang}:{len(ref_el_indexes(c, len(_el_words(lang))))}w:refused")
    # a candidate that carries the prefix AND is valid BIP39: passed over, the search goes on to the next one
    for lang in ["en", "ja"][:ctx.n(1, 2)]:
        base = len(_el_words(lang))
        e = (1 << 125) + rng.getrandbits(125)
        for c in range(e + 1, e + 400000):
            idx = ref_el_indexes(c, base)
            if ref_el_is_bip39(idx, base) and T.ref_seed_version(ref_el_sentence(c, lang)).startswith("01"):
                break
        else:
            raise common.HarnessError("electrum.search: no BIP39-valid candidate with the prefix found")
        e2 = c - rng.randrange(1, 4)
        if any(ref_el_qualifies(x, lang, "01") for x in range(e2 + 1, c)):
            e2 = c - 1
        nxt = first_qualifying(c, lang, "01")
        s_lines.append(el_search_line("standard", lang, e2, nxt - e2 + 1))
        ctx.count("electrum.search", f"standard:{lang}:bip39-with-prefix-skipped")
    # a candidate that carries the prefix AND is a pre-2.0 seed (twelve words all in the old list): passed over
    old_set = set(electrum._old_wordlist())
    shared_idx = [i for i, w in enumerate(_el_words("en")) if w in old_set]
    if len(shared_idx) < 50:
        raise common.HarnessError("electrum.search: the English and the pre-2.0 list share too few words")
    for _ in range(ctx.n(1, 3)):
        for _try in range(200000):
            idx = [rng.choice(shared_idx) for _ in range(12)]
            if idx[-1] == 0:
                continue
            c = sum(i * 2048 ** k for k, i in enumerate(idx))
            if T.ref_seed_version(ref_el_sentence(c, "en")).startswith("01"):
                break
        else:
            raise common.HarnessError("electrum.search: no old-seed candidate with the prefix found")
        if not T.ref_is_old_seed(ref_el_sentence(c, "en")):
            raise common.HarnessError("electrum.search: constructed old seed is not recognised by the reference")
        nxt = first_qualifying(c, "en", "01")
        s_lines.append(el_search_line("standard", "en", c - 1, nxt - c + 2))
        ctx.count("electrum.search", "standard:en:old-with-prefix-skipped")
    # types that are no key of _MNEMONIC_VERSIONS
    for typ in ["old", "Standard", "bip39", "2FA"]:
        s_lines.append(el_search_line(typ, "en", rng.getrandbits(128), 2))
    ctx.stream("electrum.search", s_lines)
    # Electrum's bip39_is_checksum_valid over its own lists (2048 words, and the 1626 of Portuguese read with 11 bits)
    for j in range(ctx.n(120, 1200)):
        lang = ["en", "pt", "ja", "pt"][j % 4]
        base = len(_el_words(lang))
        nw = rng.choice([12, 12, 12, 15, 18, 21, 24, 24, 11, 13, 25, 1])
        b_lines.append(f"electrum.isbip39 {nats([rng.randrange(base) for _ in range(nw)])} {base} {lang}")
        if j % 6 == 0:           # a sentence BIP39 itself generated: valid by construction for the 2048-word lists
            l2 = rng.choice(["en", "ja", "es"])
            m = bip39.mnemonic_from_entropy(common.rand_bytes(rng, rng.choice([16, 20, 24, 28, 32])), l2)
            idx = indexes_from_mnemonic(m, l2, WORDLISTS)
            b_lines.append(f"electrum.isbip39 {nats(idx)} 2048 {l2}")
            b_lines.append(f"electrum.isbip39 {nats(idx[:-1] + [idx[-1] ^ 1])} 2048 {l2}")
    ctx.stream("electrum.isbip39", b_lines)
    ctx.stream("electrum.index", lines)
    ctx.stream("electrum.seed", seed_lines)

    # --- Electrum's pre-2.0 codec: model vs btclib at index level, and the real code against old_mnemonic rewritten
    lines = []
    edge = [0, 1, 1625, 1626, 1626 ** 2 - 1, 1626 ** 2, 2 ** 32 - 1, 2 ** 31, 1626 ** 3 - 2 ** 32]
    for j in range(ctx.n(60, 600)):
        ng = rng.choice([4, 4, 8, 8, 0, 1, 3, 5, 16])
        gs = [rng.choice(edge) if rng.random() < 0.25 else rng.getrandbits(32) for _ in range(ng)]
        lines.append(f"electrum.old.enc {nats(gs)}")
        nw = rng.choice([12, 12, 24, 24, 0, 3, 11, 13, 23, 36])
        idx = [rng.choice([0, 1, 1625]) if rng.random() < 0.2 else rng.randrange(1626) for _ in range(nw)]
        if nw in (12, 24) and rng.random() < 0.3:
            # a triple that decodes ABOVE 32 bits (third offset 1625, second offset high): 9 hex characters
            k = 3 * rng.randrange(nw // 3)
            idx[k + 1] = (idx[k] + rng.randrange(1300, 1626)) % 1626
            idx[k + 2] = (idx[k + 1] + 1625) % 1626
        try:
            bytes.fromhex(" ".join(_old_wl()[i] for i in idx))
            continue                       # a sentence that is itself hex is handed back as it is: not modelled
        except ValueError:
            pass
        lines.append(f"electrum.old.dec {nats(idx)}")
        wide = any(a + 1626 * ((b - a) % 1626) + 1626 * 1626 * ((c - b) % 1626) >= 2 ** 32
                   for a, b, c in zip(idx[0::3], idx[1::3], idx[2::3]))
        ctx.count("electrum.old", f"dec:{nw}:{'a group above 32 bits' if wide else 'plain'}")
    ctx.stream("electrum.old", lines)
    for j in range(ctx.n(12, 120)):
        nb = [16, 32, 16, 32, 4, 20][j % 6]
        hs = common.rand_bytes(rng, nb).hex()
        if j % 4 == 1:
            hs = "".join(f"{rng.choice(edge) % 2 ** 32:08x}" for _ in range(nb // 4))
        m = " ".join(T.ref_old_encode(hs))
        sp = [T.respell(rng, m, "electrum") for _ in range(2)] if nb in (16, 32) else []
        ctx.check("electrum.old", {"hex": hs, "spellings": sp, "stretch": j < ctx.n(2, 6)})

    # --- seeds and master keys on hostile text: independent Electrum / BIP39 key stretching (harness/c13_text.py) ---
    def sens(kind, *texts):
        for t in texts:
            try:
                t.encode()
            except UnicodeEncodeError:
                continue
            for k, v in T.normalize_variants(t).items():
                if v:
                    ctx.count("text.sensitive_to", f"{kind}:{k}")
            if unicodedata.normalize("NFKD", t) != t:
                ctx.count("text.sensitive_to", f"{kind}:nfkd_changes_it")
    el_base = []
    for j, lang in enumerate(electrum.ELECTRUM_WORDLISTS.languages):
        typ = "segwit" if j % 4 == (3 + ctx.seed) % 4 else "standard"
        m = electrum.mnemonic_from_entropy(typ, (1 << 125) + rng.getrandbits(125), lang)
        el_base.append(m)
        ctx.count("text.electrum_lang", f"{lang}:{typ}")
        for k in range(ctx.n(3, 12)):
            pw = "" if k == 0 else T.hostile_text(rng, 4)
            ms, pws = T.respell(rng, m, "electrum"), T.respell(rng, pw, "electrum")
            sens("electrum.spelling", ms, pws)
            ctx.check("electrum.spelling", {"m": m, "ms": ms, "pw": pw, "pws": pws, "lang": lang,
                                            "net": rng.choice(["mainnet", "testnet"])})
    for j in range(ctx.n(150, 2000)):
        t = T.hostile_text(rng)
        sens("electrum.text", t)
        ctx.check("electrum.text", {"t": t, "m": el_base[j % len(el_base)], "net": rng.choice(["mainnet", "testnet"])})
    for t in T.cjk_border_texts(rng):
        ctx.count("text.cjk_border", "inside" if T.ref_is_cjk(t[0]) and T.ref_is_cjk(t[-1]) else "outside")
        ctx.check("electrum.text", {"t": t, "m": el_base[0]})
    # hostile text that IS a seed: searched until its version prefix is each derivable type; hex seeds in digits and
    # letters only NFKD makes ASCII (read as `old`); a text with no UTF-8 encoding
    want = {"standard": ctx.n(3, 12), "segwit": ctx.n(1, 4)}
    for _ in range(120000):
        if not any(want.values()):
            break
        t = T.hostile_text(rng)
        typ = {"01": "standard", "10": "segwit"}.get(T.ref_seed_version(t)[:2])
        if typ and want[typ] > 0 and ref_electrum_type(t) == typ:
            want[typ] -= 1
            sens("electrum.text.valid", t)
            ctx.count("text.hostile_sentence", typ)
            ctx.check("electrum.text", {"t": t, "m": el_base[0], "pw": T.hostile_text(rng, 3),
                                        "net": rng.choice(["mainnet", "testnet"])})
    if any(want.values()):
        raise common.HarnessError(f"hostile-sentence search: versions not found: {want}")
    for nb in (16, 32):
        ctx.check("electrum.text", {"t": T.hostile_hex(rng, nb), "m": el_base[1]})
        ctx.count("text.hostile_sentence", "old-hex")
    ctx.check("electrum.text", {"t": "a\ud800b", "m": el_base[0]})
    for lang in BIP39_LANGS:
        m = bip39.mnemonic_from_entropy(common.rand_bytes(rng, rng.choice([16, 20, 24, 28, 32])), lang)
        for k in range(ctx.n(3, 12)):
            ms = T.respell(rng, m, "bip39") if k else m
            pw = T.hostile_text(rng, 5)
            sens("bip39.spelling", ms, pw)
            ctx.check("bip39.text", {"m": m, "ms": ms, "pw": pw, "lang": lang, "net": rng.choice(["mainnet", "testnet"])})
    for _ in range(ctx.n(40, 600)):
        t, pw = T.hostile_text(rng), T.hostile_text(rng, 4)
        sens("bip39.text", t, pw)
        ctx.check("bip39.text", {"t": t, "pw": pw, "net": rng.choice(["mainnet", "testnet"])})
    ctx.check("bip39.text", {"t": "abandon", "pw": "\udfff"})
    for need in ("electrum.text:lower_before_nfkd", "electrum.text:keep_marks", "electrum.text:no_cjk_join",
                 "electrum.text:no_nfkd", "electrum.spelling:lower_before_nfkd", "bip39.spelling:nfkd_changes_it"):
        if ctx.hist.get("text.sensitive_to", {}).get(need, 0) < 5:
            raise common.HarnessError(f"text generator: fewer than 5 texts sensitive to `{need}`")

    # --- BIP85 --------------------------------------------------------------------------------------------------------
    lines = []
    for _ in range(ctx.n(12, 100)):
        root = bip32.rootxprv_from_seed(common.rand_bytes(rng, 32))
        app = rng.choice([39, 2, 32, 128169, 707764, rng.getrandbits(20)])
        path = f"m/83696968h/{app}h/{rng.getrandbits(10)}h" + (f"/{rng.getrandbits(10)}h" if rng.random() < 0.5 else "")
        words, lang, index = rng.choice([12, 15, 18, 21, 24]), rng.choice(list(BIP85_LANGUAGE_TABLE)), rng.getrandbits(8)
        ctx.check("bip85.hmac", {"xprv": root, "path": path, "words": words, "lang": lang, "index": index})
        lines.append(f"bip85.entropy {hx(_child_key(root, path))} {root} {path}")
        li = BIP85_LANGUAGE_TABLE[lang]
        k = _child_key(root, f"m/83696968h/39h/{li}h/{words}h/{index}h")
        lines.append(f"bip85.bip39 {hx(k)} {words} {root} {lang} {index}")
    lines.append(f"bip85.bip39 {hx(k)} 13 {root} en 0")
    # child keys whose 32-byte private key STARTS WITH A ZERO BYTE (one path in 256): BIP85 hashes all 32 bytes
    root = bip32.rootxprv_from_seed(common.rand_bytes(rng, 32))
    hits, i = 0, 0
    while hits < ctx.n(2, 6) and i < 6000:
        i += 1
        path = f"m/83696968h/128169h/32h/{i}h"
        key = _child_key(root, path)
        if key[0] == 0:
            hits += 1
            ctx.check("bip85.hmac", {"xprv": root, "path": path})
            lines.append(f"bip85.entropy {hx(key)} {root} {path}")
    ctx.count("bip85.zero_leading_keys", "found", hits)
    # every application, every language x word count, paths recomputed from the BIP text
    for _ in range(ctx.n(2, 10)):
        r2 = bip32.rootxprv_from_seed(common.rand_bytes(rng, 32))
        ctx.check("bip85.apps", {"xprv": r2, "index": rng.getrandbits(rng.choice([1, 8, 20])),
                                 "hex_sizes": [16, 64, rng.randrange(16, 65)], "pwd64": [20, 86, rng.randrange(20, 87)],
                                 "pwd85": [10, 80, rng.randrange(10, 81)],
                                 "dice": [[6, 10], [2, 5], [rng.randrange(2, 300), rng.randrange(1, 20)]]})
    idx85 = rng.getrandbits(6)
    for lang in list(BIP85_LANGUAGE_TABLE) + ["ru", "tr"]:
        for words in (12, 15, 18, 21, 24) if lang in BIP85_LANGUAGE_TABLE else (12,):
            lines.append(f"bip85.path {lang} {words} {idx85} {root}")
    lines.append(f"bip85.path en 13 0 {root}")
    # sized applications: HEX through the model (bounds, truncation), every bound of HEX / PWD BASE64 / PWD BASE85
    for n in [15, 16, 17, 32, 63, 64, 65, 0] + [rng.randrange(16, 65) for _ in range(ctx.n(4, 40))]:
        i85 = rng.getrandbits(rng.choice([1, 8, 31]))
        k = _child_key(root, f"m/83696968h/128169h/{n}h/{i85}h")
        lines.append(f"bip85.hex {hx(k)} {n} {root} {i85}")
    for fn, (lo, hi) in (("bytes_entropy_from_root_key", (16, 64)), ("base64_password_from_root_key", (20, 86)),
                         ("base85_password_from_root_key", (10, 80))):
        for size in (lo - 1, lo, lo + 1, hi - 1, hi, hi + 1, rng.randrange(lo, hi + 1)):
            lines.append(f"bip85.sized {fn} {size} {rng.getrandbits(8)}")
    ctx.stream("bip85", lines)

    # --- dispatch: the BIP39 verdict is about the language the caller names ---------------------------------
    lines = []
    pairs = []
    for a, b in itertools.combinations(BIP39_LANGS, 2):
        common_words = [x for x in WORDLISTS.wordlist(a) if x in word_index(b)]
        if len(common_words) >= 12:
            pairs.append((a, b, common_words))
    ctx.count("dispatch.language_pairs", ",".join(f"{a}/{b}:{len(sh)}" for a, b, sh in pairs))
    for a, b, common_words in pairs:
        # sentences spelled from the shared words, searched until every (valid in a, valid in b) class is met
        want = {(True, False): 2, (False, True): 2, (False, False): 1, (True, True): 1}
        for _ in range(ctx.n(4000, 20000)):
            if not any(want.values()):
                break
            nw = rng.choice([12, 12, 12, 15, 24])
            m = " ".join(rng.choice(common_words) for _ in range(nw))
            va = _bip39_ref_valid(lang_view(m, a)[2])[0]
            vb = _bip39_ref_valid(lang_view(m, b)[2])[0]
            if want.get((va, vb), 0) > 0:
                want[(va, vb)] -= 1
                other = next(x for x in BIP39_LANGS if x not in (a, b))
                ctx.check("dispatch.lang", {"m": m, "langs": [a, b, other]})
                ctx.count("dispatch.classes", f"{a}/{b}:{int(va)}{int(vb)}")
                for lang in (a, b, other):
                    lines.append(dispatch_line(m, lang))
    for cls in ("en/fr:10", "en/fr:01"):
        if not ctx.hist.get("dispatch.classes", {}).get(cls):
            raise common.HarnessError(f"dispatch generator found no sentence of class {cls}")
    for lang in BIP39_LANGS:
        try:
            m = bip39.mnemonic_from_entropy(common.rand_bytes(rng, rng.choice([16, 20, 24, 28, 32])), lang)
        except BTClibValueError:
            continue
        ws = m.split()
        for c in (m, " ".join(ws[:-1]), " ".join(ws[:-1] + [ws[0]]), " ".join(ws + ws[:1]), ""):
            ctx.check("dispatch.lang", {"m": c, "langs": [lang, "en"]})
            lines.append(dispatch_line(c, lang))
            lines.append(dispatch_line(c, "en"))
    try:
        lines.append(dispatch_line(electrum.mnemonic_from_entropy("standard", rng.getrandbits(128), "en"), "en"))
        lines.append(dispatch_line(electrum.mnemonic_from_entropy("segwit", rng.getrandbits(128), "es"), "es"))
        lines.append(dispatch_line(electrum.old_mnemonic_from_hex_seed(common.rand_bytes(rng, 16).hex()), "en"))
        sh = make_set({"secret": common.rand_bytes(rng, 16).hex(), "groups": [[1, 1]], "gt": 1, "pw": "",
                       "ext": True, "seed": rng.getrandbits(32)})[0][0]
        lines.append(dispatch_line(sh, "en"))
        lines.append(dispatch_line(sh, "slip39"))
    except BTClibValueError:
        pass
    ctx.stream("dispatch", lines)
