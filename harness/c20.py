"""C20 — nonces sign once, wiped signers stay dead, answers do not depend on history (DESIGN §3 C20).

Correspondence: whole call histories are executed on REAL btclib objects (a bytearray handed to
`musig2.sign`, `dsa.Signer` / `ssa.Signer`, `SoftwareSigner`, `BIP32KeyWallet` / `DescriptorWallet`,
`functools.lru_cache`) and on the Lean transition systems, and compared step by step: what each
call returned (or the class it raised) and the observable state after it.

Oracles (real code alone): the property itself per object kind; cache independence of every
memoised pure API (cold subprocess / warm / cache_clear / evictions / backend flips); key-soundness
probes; and a SEARCH (not a proof) over real thread schedules.
"""
from __future__ import annotations

import collections
import copy
import functools
import hashlib
import itertools
import json
import os
import random
import subprocess
import sys
import threading

from btclib import descriptors
from btclib.bip32 import bip32 as bip32_mod
from btclib.bip32 import BIP32KeyOrigin, derive, rootxprv_from_seed, xpub_from_xprv
from btclib.curves import CURVES, secp256k1
from btclib.curves import curve as curve_mod
from btclib.curves import curve_group as cg
from btclib.curves import sec_point as sec_point_mod
from btclib.ecc import dh as dh_mod
from btclib.ecc import ellswift as ellswift_mod
from btclib import key as key_mod
from btclib.mnemonic import electrum as electrum_mod
from btclib.script import script as script_mod
from btclib.curves.curve import Curve, PreparedPoint, double_mult_var, mult, multi_mult_var
from btclib.ecc import dsa, musig2, pedersen, ssa
from btclib.mnemonic import bip39
from btclib.mnemonic.mnemonic import WordLists
from btclib.exceptions import BTClibValueError
from btclib.psbt import musig2 as psbt_musig2
from btclib.psbt.psbt import Psbt, extract_tx, finalize
from btclib.psbt_signer import SoftwareSigner
from btclib.script.engine import verify_transaction
from btclib.tx import OutPoint, Tx, TxIn, TxOut
from btclib.to_pub_key import pub_keyinfo_from_key
from btclib.wallet import BIP32KeyWallet, DescriptorWallet

from . import common

PROP = "C20"
EXE = "drv_c20"
GEN_MODULES = ["Lifecycle"]
RULE = ("one op line = one whole call history on a fresh real object, compared step by step (return value or "
        "exception class, then observable state: bytearray contents / _wiped,_q,key object / _closed / "
        "addresses+address_info+_next_index / cache_info); histories are exhaustive up to a depth per alphabet "
        "(thorough: depth 6) plus seeded random longer ones; a history is non-trivial when at least one call in it "
        "was not refused; distinct = distinct (stream, op line)")
TRUSTED = [
    "tools/specs/lifecycle.py: the AST statement classifier (an unrecognised statement is a translator error)",
    "the session values (b, e, a, g, gacc, R parity), individual_pub_key and the wallet's address at a position are "
    "INPUTS of the lifecycle model, taken from the real code (they are C16/C03/C14's to model)",
    "signatures returned by Signer objects are checked by the harness (equal to the free function, verify), not modelled",
    "CPython: the GIL, functools.lru_cache's C implementation, dict insertion order; sys.monitoring PY_START (the spy that decides "
    "which backend arm answered a call: any function of the btclib_secp256k1 package started during it)",
]
ASSUMPTIONS = [
    "key-soundness of lru_cache keys (tuple / Curve.__eq__ / __hash__) is a hypothesis of memo_transparent; "
    "probed by the cache.key_sound oracle on equal-key pairs",
    "both backend arms compute the same function (C04) is a hypothesis of the ..._given_arms_equal theorems; which ARM answers "
    "is compared (bindings package entered or not during the call, seen by a sys.monitoring spy), what it answers is probed by "
    "the backend.captured_objects oracle",
    "thread interleavings inside CPython are searched (8 threads, switch interval 1e-6 s), not proved",
]

N = secp256k1.n
set_serving = curve_mod.set_libsecp256k1_serving
is_serving = curve_mod.is_libsecp256k1_serving
INSTALLED = curve_mod._bindings_installed  # noqa: SLF001


def _h(*a) -> bytes:
    return hashlib.sha256(repr(a).encode()).digest()


def _cls(e: BaseException) -> str:
    c = common.err_class(e)
    return "foreign" if c.startswith("foreign") else c


class _flag:
    """run a block under a given backend flag, restoring what was there."""

    def __init__(self, serving):
        self.serving = serving

    def __enter__(self):
        self.old = is_serving()
        if self.serving is not None and (INSTALLED or not self.serving):
            set_serving(serving=self.serving)

    def __exit__(self, *a):
        if INSTALLED or not self.old:
            set_serving(serving=self.old)


# =============================================================================== nonce
@functools.lru_cache(maxsize=None)
def _session_parts(sid: int):
    """Deterministic pool of MuSig2 sessions: (constructor args, keys, pub keys, nonces)."""
    nsig = [2, 3, 2, 2, 2, 2, 3, 2][sid]
    keys = [int.from_bytes(_h("key", sid % 3, i), "big") % (N - 1) + 1 for i in range(nsig)]
    outsider = int.from_bytes(_h("outsider", sid), "big") % (N - 1) + 1
    pks = [musig2.individual_pub_key(k) for k in keys]
    tweaks, xonly = {0: ([], []), 1: ([_h("t", 1)], [True]), 2: ([_h("t", 2), _h("u", 2)], [False, True]),
                     3: ([], []), 4: ([N.to_bytes(32, "big")], [False]), 5: ([], []),
                     6: ([_h("t", 6)], [False]), 7: ([_h("t", 7), _h("t", 8)], [True, True])}[sid]
    msg = _h("msg", sid)[: [32, 32, 7, 32, 32, 0, 32, 32][sid]]
    good_tweaks = ([], []) if sid == 4 else (tweaks, xonly)
    agg = musig2.key_agg_and_tweak(pks, *good_tweaks).x_only_pub_key
    signers = keys if sid != 5 else [outsider] + keys[1:]          # sid 5: signer 0 is not a participant
    spks = [musig2.individual_pub_key(k) for k in signers]
    nonces = [musig2.nonce_gen_(_h("rand", sid, i), signers[i], spks[i], agg, msg, None) for i in range(nsig)]
    nonces = [(bytes(s), p) for s, p in nonces]
    agg_nonce = musig2.nonce_agg([p for _, p in nonces])
    if sid == 3:  # first half is no point: the session does not assemble (InvalidContributionError)
        x = 5
        while _on_curve_x(x):
            x += 1
        agg_nonce = b"\x02" + x.to_bytes(32, "big") + agg_nonce[33:]
    return (agg_nonce, tuple(pks), tuple(tweaks), tuple(xonly), msg), tuple(signers), tuple(spks), tuple(nonces)


def _on_curve_x(x):
    p = secp256k1.p
    y2 = (x * x * x + 7) % p
    return pow(y2, (p - 1) // 2, p) in (0, 1)


N_SESSIONS = 8


def _fresh_ctx(sid):
    a = _session_parts(sid)[0]
    return musig2.SessionContext(a[0], list(a[1]), list(a[2]), list(a[3]), a[4])


_CTX_SHARED: dict = {}


def _ctx(sid, fresh):
    if fresh:
        return _fresh_ctx(sid)
    if sid not in _CTX_SHARED:
        _CTX_SHARED[sid] = _fresh_ctx(sid)
    return _CTX_SHARED[sid]


def _prv(sid, j, kind):
    signers = _session_parts(sid)[1]
    return {"right": signers[j % len(signers)], "other": signers[(j + 1) % len(signers)], "zero": 0, "n": N,
            "neg": -signers[0], "stranger": int.from_bytes(_h("stranger"), "big") % (N - 1) + 1}[kind]


def _nonce0(sid, j, variant):
    sec = bytearray(_session_parts(sid)[3][j % len(_session_parts(sid)[3])][0])
    if variant == "k1zero":
        sec[:32] = bytes(32)
    elif variant == "k2n":
        sec[32:64] = N.to_bytes(32, "big")
    elif variant == "short":
        sec = sec[:40]
    elif variant == "badtail":
        sec[70] ^= 1
    elif variant == "spent":
        sec[:64] = bytes(64)
    elif variant == "long":
        sec = sec + b"\x00"
    return bytes(sec)


def _sign_op(sid, prv):
    """The op token for `musig2.sign(<nonce>, prv, session sid)`: the public inputs of the model."""
    return _sign_op_ctx(lambda: _fresh_ctx(sid), prv, sid)


def _sign_op_ctx(make_ctx, prv, label):
    try:
        v = musig2.session_values(make_ctx())
    except Exception as e:  # noqa: BLE001
        c = _cls(e)
        if c not in ("value", "runtime"):
            raise common.HarnessError(f"session {label}: unexpected {type(e).__name__}")
        return f"S,{c[0]},0,0,0,0,0,0,{prv},_,0,{label}"
    g = 1 if v.Q[1] % 2 == 0 else N - 1
    if 0 < prv < N:
        pk = musig2.individual_pub_key(prv)
        ins = pk in v.pub_keys_set
        a = musig2._key_agg_coeff_(v.L, v.second, pk) if ins else 0  # noqa: SLF001
        pkh = pk.hex()
    else:
        pkh, ins, a = "_", False, 0
    return f"S,1,{v.R[1] % 2},{v.b},{v.e},{a},{g},{v.gacc},{prv},{pkh},{int(ins)},{label}"


def _nonce_run(nonce0: bytes, ops: list[str], fresh_ctx=True) -> list[str]:
    buf = bytearray(nonce0)
    out = []
    psbt = None
    for op in ops:
        t = op.split(",")
        if t[0] == "P":
            r = "bytes:" + common.hx(bytes(buf))
        elif t[11].startswith("psbt"):
            # psbt-level: btclib.psbt.musig2.partial_sign on one psbt for the whole history
            if psbt is None:
                psbt = copy.deepcopy(_psbt_session()[0])
            try:
                s = psbt_musig2.partial_sign(psbt, 0, buf, int(t[8]), _PSBT_AGG[t[11]])
                r = "sig:" + common.hx(s)
            except Exception as e:  # noqa: BLE001
                r = "err:" + _cls(e)
        else:
            sid, prv = int(t[11]), int(t[8])
            try:
                s = musig2.sign(buf, prv, _ctx(sid, fresh_ctx))
                r = "sig:" + common.hx(s)
            except Exception as e:  # noqa: BLE001
                r = "err:" + _cls(e)
        out.append(r + "@" + common.hx(bytes(buf)))
    return out


# ------------------------------------------------------------------- psbt-level MuSig2 (BIP373's first vector)
PSBT_KEYS = (0x9E3D0FD1845E73FC5EB4202C047631E9BD45AEE639C93DE0E21EF7EFE1100812,
             0x754F619CF0F5A9CCE70168BB4EA613804E53E4C2487A967D1E2564CF8007AD25, 3)
_AGG_PK = bytes.fromhex("030b58e337aa4d3852a8c29387c42408d8cfbe3a613a5e397e0a9f01a5fb7107d4")
_PSBT_AGG = {"psbt": _AGG_PK, "psbtnoagg": musig2.individual_pub_key(77)}


@functools.lru_cache(maxsize=None)
def _psbt_session():
    """(psbt carrying the three public nonces, the three secret nonces): the real `nonce_gen`, its randomness fixed."""
    vec = json.load(open("/repo/tests/psbt/_data/bip373_test_vectors.json"))["valid psbts"]
    enc = next(v["encoded psbt"] for v in vec if v["description"].startswith("Spend of a Taproot output where the output key")
               and "participant pubkeys only" in v["description"])
    psbt = Psbt.b64decode(enc)
    real = musig2.secrets.token_bytes
    secs = []
    try:
        for i, k in enumerate(PSBT_KEYS):
            musig2.secrets.token_bytes = lambda n, i=i: _h("psbt rand", i)[:n]
            secs.append(bytes(psbt_musig2.nonce_gen(psbt, 0, k, _AGG_PK)))
    finally:
        musig2.secrets.token_bytes = real
    return psbt, tuple(secs)


def _psbt_sign_op(kind, k):
    """op token for `psbt.musig2.partial_sign(psbt, 0, <nonce>, key, aggregate)`: what precedes `musig2.sign` in it
    (participant / public-nonce / session lookups) is, for the nonce, a session that does not assemble."""
    prv = {"right": PSBT_KEYS[k], "other": PSBT_KEYS[(k + 1) % 3], "stranger": 0xDEAD, "noagg": PSBT_KEYS[k]}[kind]
    label = "psbtnoagg" if kind == "noagg" else "psbt"
    psbt = _psbt_session()[0]

    def make():
        # exactly the lookups partial_sign makes before it reaches musig2.sign
        pub_key = musig2.individual_pub_key(prv)
        tweaked = psbt_musig2._session_parts(psbt, 0, _PSBT_AGG[label], b"").tweaked_pub_key  # noqa: SLF001
        if psbt.inputs[0].musig2_pub_nonces.get(psbt_musig2._key_data(pub_key, tweaked, b"")) is None:  # noqa: SLF001
            raise BTClibValueError("no public nonce")
        return psbt_musig2.session_context(psbt, 0, _PSBT_AGG[label], leaf_hash=b"").context
    return _sign_op_ctx(make, prv, label)


def _o_psbt_partial_sign(w):
    """psbt-level single use: one partial signature per secret nonce, recorded once, verifying; refused calls that
    never reach `musig2.sign` leave the nonce alone; every call that reaches it burns it."""
    psbt = copy.deepcopy(_psbt_session()[0])
    k = w["k"]
    buf = bytearray(_psbt_session()[1][k])
    sigs = 0
    burnt = False
    for kind in w["ops"]:
        prv = {"right": PSBT_KEYS[k], "other": PSBT_KEYS[(k + 1) % 3], "stranger": 0xDEAD, "noagg": PSBT_KEYS[k]}[kind]
        agg = _PSBT_AGG["psbtnoagg" if kind == "noagg" else "psbt"]
        before = bytes(buf)
        try:
            s = psbt_musig2.partial_sign(psbt, 0, buf, prv, agg)
        except Exception as e:  # noqa: BLE001
            if _cls(e) == "foreign":
                return False, f"{kind}: foreign {type(e).__name__}: {e}"
            s = None
        if s is not None:
            sigs += 1
            if burnt:
                return False, f"a second use of the nonce signed: {w['ops']}"
            if not psbt_musig2.partial_sig_verify(psbt, 0, musig2.individual_pub_key(prv), agg):
                return False, "the recorded partial signature does not verify"
        if kind in ("right", "other"):
            burnt = True
            if any(buf[:64]):
                return False, f"`{kind}` reached musig2.sign and left the nonce readable"
        elif bytes(buf) != before:
            return False, f"`{kind}` is refused before musig2.sign yet changed the nonce"
    if len(psbt.inputs[0].musig2_partial_sigs) != sigs or sigs > 1:
        return False, f"{sigs} signatures returned, {len(psbt.inputs[0].musig2_partial_sigs)} recorded"
    return True, f"{sigs} signature in {w['ops']}"


# ------------------------------------------------------------------- every spelling of the caller-held nonce
SPELLINGS = {"buf": "buf", "view": "view", "bytes": "frozen", "roview": "frozen", "hex": "text"}   # -> model kind


@functools.lru_cache(maxsize=None)
def _psbt_b():
    """a second, different session on the same keys and public nonces: another transaction version, another sighash."""
    b = copy.deepcopy(_psbt_session()[0])
    b.tx_version = 3 if b.tx_version != 3 else 2
    return b


def _spell(spelling, nonce0: bytes):
    return {"buf": lambda: bytearray(nonce0), "view": lambda: memoryview(bytearray(nonce0)), "bytes": lambda: bytes(nonce0),
            "roview": lambda: memoryview(bytes(nonce0)), "hex": lambda: nonce0.hex()}[spelling]()


def _held(obj) -> bytes:
    return bytes.fromhex(obj) if isinstance(obj, str) else bytes(obj)


def _psbt_ctx(label):
    psbt = {"psbtx": _psbt_session()[0], "psbtxB": _psbt_b()}[label]
    return psbt_musig2.session_context(psbt, 0, _AGG_PK, leaf_hash=b"").context


def _psbt_q_op(kind, k, which="psbt"):
    """`Q,…`: partial_sign on psbt A (`psbt`) or the different session B (`psbtB`)."""
    if which == "psbt":
        return "Q" + _psbt_sign_op(kind, k)[1:]
    prv = {"right": PSBT_KEYS[k], "other": PSBT_KEYS[(k + 1) % 3]}[kind]
    return "Q" + _sign_op_ctx(lambda: _psbt_ctx("psbtxB"), prv, "psbtB")[1:]


def _noncek_run(spelling, nonce0: bytes, ops: list[str]) -> list[str]:
    """one caller-held object, in the given spelling, through `musig2.sign` (S) and `psbt.musig2.partial_sign` (Q)."""
    obj = _spell(spelling, nonce0)
    psbts = {}
    out = []
    for op in ops:
        t = op.split(",")
        try:
            if t[0] == "P":
                r = "bytes:" + common.hx(_held(obj))
            elif t[0] == "Q":
                which = "psbtB" if t[11] == "psbtB" else "psbt"
                if which not in psbts:
                    psbts[which] = copy.deepcopy(_psbt_session()[0] if which == "psbt" else _psbt_b())
                r = "sig:" + common.hx(psbt_musig2.partial_sign(psbts[which], 0, obj, int(t[8]), _PSBT_AGG.get(t[11], _AGG_PK)))
            elif t[11].startswith("psbtx"):
                r = "sig:" + common.hx(musig2.sign(obj, int(t[8]), _psbt_ctx(t[11])))
            else:
                r = "sig:" + common.hx(musig2.sign(obj, int(t[8]), _fresh_ctx(int(t[11]))))
        except Exception as e:  # noqa: BLE001
            r = "err:" + _cls(e)
        out.append(r + "@" + common.hx(_held(obj)))
    return out


def _o_nonce_spellings(w):
    """What the library promises per spelling, and exactly that: from one caller-held object at most one signature is
    ever obtained, through either entry point and across different sessions; a mutable one is zeroed by the attempt
    that signs; an immutable one ("an immutable secnonce is one nothing can spend") yields none and is unchanged."""
    spelling, k = w["spelling"], w["k"]
    nonce0 = _psbt_session()[1][k] if w["pool"] == "psbt" else _nonce0(w["sid"], k, "real")
    obj = _spell(spelling, nonce0)
    psbts = {"psbt": copy.deepcopy(_psbt_session()[0]), "psbtB": copy.deepcopy(_psbt_b())}
    sigs = []
    for level, target in w["attempts"]:
        try:
            if level == "psbt":
                s = psbt_musig2.partial_sign(psbts[target], 0, obj, PSBT_KEYS[k], _AGG_PK)
            elif w["pool"] == "psbt":
                s = musig2.sign(obj, PSBT_KEYS[k], _psbt_ctx({"psbt": "psbtx", "psbtB": "psbtxB"}[target]))
            else:
                s = musig2.sign(obj, _prv(w["sid"], k, "right"), _fresh_ctx(target))
        except Exception:  # noqa: BLE001 - which class an unusable spelling raises is C19's question, not this one
            s = None
        if s is not None:
            sigs.append((level, target, s.hex()[:16]))
            if SPELLINGS[spelling] in ("frozen", "text"):
                return False, f"a signature came out of a nonce held as {spelling} ({level} {target}); the object cannot have been spent"
            if any(_held(obj)[:64]):
                return False, f"{level} {target} signed with a nonce held as {spelling} and left it readable"
        if len(sigs) > 1:
            return False, f"two signatures from one caller-held nonce ({spelling}): {sigs}"
    if SPELLINGS[spelling] in ("frozen", "text") and _held(obj) != nonce0:
        return False, f"an immutable {spelling} changed"
    if SPELLINGS[spelling] in ("buf", "view") and len(sigs) != 1:
        return False, f"a fresh nonce held as {spelling} gave {len(sigs)} signatures over {w['attempts']}"
    return True, f"{spelling}: {len(sigs)} signature over {len(w['attempts'])} attempts"


def _fmt(recs):
    return "ok " + (";".join(recs) if recs else "_")


# =============================================================================== signers
_Q = int.from_bytes(_h("signer key"), "big") % (N - 1) + 1
_MSG = _h("signer msg")
_AUX = _h("signer aux")


def _signer_run(kind: str, delegated: bool, ops: list[str]) -> list[str]:
    mod = dsa if kind == "dsa" else ssa
    out = []
    with _flag(None):
        set_serving(serving=delegated) if (INSTALLED or not delegated) else None
        s = mod.Signer(_Q)
        pub = mult(_Q)
        for op in ops:
            try:
                if op in ("S1", "S0"):
                    if kind == "dsa":
                        sig = s.sign_(_MSG if op == "S1" else _MSG[:31])
                        good = sig == dsa.sign_(_MSG, _Q).serialize() and dsa.verify_(_MSG, pub, sig)
                    else:
                        sig = s.sign_(_MSG, _AUX if op == "S1" else _AUX[:31])
                        good = sig == ssa.sign_(_MSG, _Q, _AUX).serialize() and ssa.verify_(_MSG, pub[0], sig)
                    r = "sig" if good else "badsig"
                elif op == "W":
                    r = "none" if s.wipe() is None else "other"
                elif op == "E":
                    r = "self" if s.__enter__() is s else "other"
                elif op == "X":
                    r = "none" if s.__exit__(None, None, None) is None else "other"
                elif op in ("F0", "F1"):
                    if INSTALLED or op == "F0":
                        set_serving(serving=op == "F1")
                    r = "none"
                else:
                    raise common.HarnessError("signer op " + op)
            except common.HarnessError:
                raise
            except Exception as e:  # noqa: BLE001
                r = "err:" + _cls(e)
            key_obj = (s._prvkey_buffer if kind == "dsa" else s._signer) is not None  # noqa: SLF001
            out.append(f"{r}@w{int(s._wiped)}k{int(key_obj)}s{int(s._q != 0)}")  # noqa: SLF001
    return out


# =============================================================================== software signer
_XPRV = rootxprv_from_seed(b"\x01" * 32)
_ACC = xpub_from_xprv(derive(_XPRV, "m/84h/0h/0h"))
_D0 = descriptors.parse(f"wpkh({_ACC}/0/*)")
_CHILD = derive(_XPRV, "m/0/1")
_CHILD_PUB = pub_keyinfo_from_key(_CHILD)[0]
SOFT_METHODS = ["xpub", "sign_message", "display_address", "sign_psbt", "sign_ecdsa", "sign_schnorr",
                "sign_schnorr_script_path"]


@functools.lru_cache(maxsize=None)
def _spend_psbt(fp=None):
    """a psbt of the signer's own BIP84 account, updated from descriptors carrying the key origin: what a wallet
    hands a signer.  -> (psbt, [spent output]).  With another fingerprint it names no key this signer holds."""
    fp = fp or SoftwareSigner(_XPRV).master_fingerprint.hex()
    rec = descriptors.parse(f"wpkh([{fp}/84h/0h/0h]{_ACC}/0/*)")
    chg = descriptors.parse(f"wpkh([{fp}/84h/0h/0h]{_ACC}/1/*)")
    prev_out = TxOut(100_000, rec.script_pub_key(0))
    prev_tx = Tx(vin=[TxIn(OutPoint(b"\x06" * 32, 0))], vout=[prev_out])
    tx = Tx(vin=[TxIn(OutPoint(prev_tx.id, 0))],
            vout=[TxOut(60_000, rec.script_pub_key(1)), TxOut(39_000, chg.script_pub_key(0))])
    psbt = Psbt.from_tx(tx)
    psbt.inputs[0].non_witness_utxo = prev_tx
    psbt = rec.update_psbt_input(psbt, 0, 0)
    psbt = chg.update_psbt_output(psbt, 1, 0)
    return psbt, [prev_out]


def _soft_call(s: SoftwareSigner, m: str, ok: bool):
    org = BIP32KeyOrigin(s.master_fingerprint, "m/0/1")
    if m == "xpub":
        return s.xpub("m/0/1" if ok else "m/0/x")
    if m == "sign_message":
        return s.sign_message(b"hello", "m/0" if ok else "m/0/x")
    if m == "display_address":
        return s.display_address(_D0, 3 if ok else -1)
    if m == "sign_psbt":
        psbt, spent = _spend_psbt()
        signed = s.sign_psbt(copy.deepcopy(psbt))
        if len(signed.inputs[0].partial_sigs) != 1:
            return None
        verify_transaction(spent, extract_tx(finalize(signed)))   # the engine accepts the spend, or this raises
        return signed
    if m == "sign_psbt_foreign":      # a psbt none of whose keys is this signer's: answered unchanged while open
        signed = s.sign_psbt(copy.deepcopy(_spend_psbt("00000001")[0]))
        return signed if not signed.inputs[0].partial_sigs else None
    if m == "sign_ecdsa":
        return s.sign_ecdsa(_CHILD_PUB, org, _MSG)
    if m == "sign_schnorr":
        return s.sign_schnorr(_CHILD_PUB[1:], org, _MSG, b"")
    if m == "sign_schnorr_script_path":
        return s.sign_schnorr_script_path(_CHILD_PUB[1:], org, _MSG, bytes(32))
    raise common.HarnessError("soft method " + m)


def _soft_run(ops: list[str]) -> list[str]:
    s = SoftwareSigner(_XPRV)
    out = []
    for op in ops:
        try:
            if op == "C":
                r = "none" if s.close() is None else "other"
            else:
                m, ok = op.split(":")
                v = _soft_call(s, m, ok == "1")
                r = "answer" if v is not None else "none"
        except common.HarnessError:
            raise
        except Exception as e:  # noqa: BLE001
            r = "err:" + _cls(e)
        out.append(f"{r}@c{int(s._closed)}")  # noqa: SLF001
    return out


# =============================================================================== wallets
_K17 = xpub_from_xprv(derive(_XPRV, "m/84h/0h/0h/1/7"))
_D1 = descriptors.parse(f"wpkh({_K17})")
_DPK = descriptors.parse(f"pk({_K17})")
FOREIGN_ADDR = "bc1qw508d6qejxtdg4y5r3zarvary0c5xw7kv8f3t4"
FOREIGN_KEY = "KwDiBf89QgGbjEhKnhXJuH7LrciVrZi3qYjgd9M7rFU73sVHnoWn"  # prv key 1

WALLETS = {
    "0,1": lambda: BIP32KeyWallet(_XPRV, "m/84h/0h/0h"),
    "0,3,5": lambda: DescriptorWallet({0: _D0, 3: _D0, 5: _D1}),       # 0 and 3 collide; 5 has one script
    "0,2": lambda: DescriptorWallet({0: _D0, 2: _DPK}),                # branch 2 has no address
}


def _tok(addr: str) -> str:
    return "a" + hashlib.sha256(addr.encode()).hexdigest()[:10]


@functools.lru_cache(maxsize=None)
def _ref_entry(cfg: str, b: int, i: int) -> str:
    """What a fresh wallet of this configuration has at (b, i): its address, `!` (refused) or `~` (no address)."""
    w = _ref_wallet(cfg)
    try:
        a = w.script_pub_key(b, i).address
    except Exception as e:  # noqa: BLE001
        if _cls(e) != "value":
            raise common.HarnessError(f"wallet {cfg} at {b}/{i}: {type(e).__name__}: {e}")
        return "!"
    return a if a else "~"


@functools.lru_cache(maxsize=None)
def _ref_wallet(cfg):
    return WALLETS[cfg]()


@functools.lru_cache(maxsize=None)
def _foreign_key_addr():
    return BIP32KeyWallet(_XPRV, "m/84h/0h/0h").add(FOREIGN_KEY)


def _entry_tok(e: str) -> str:
    return e if e in ("!", "~") else _tok(e)


def _wallet_universe(cfg, ops):
    """positions the model needs an answer for: every explicit one, and every one `next_address` can reach."""
    branches = [int(x) for x in cfg.split(",")]
    top = {b: 7 for b in branches}
    extra = set()
    for op in ops:
        t = op.split(":")
        if t[0] == "A":
            b, i = int(t[1]), int(t[2])
            if b in top and i >= 0:
                if i < 1000:
                    top[b] = max(top[b], i + 1)
                else:
                    extra.update((b, k) for k in range(i, i + len(ops) + 2))
    pos = set(extra)
    for b in branches:
        pos.update((b, i) for i in range(top[b] + len(ops) + 1))
    return sorted(pos)


def _wallet_line(cfg, ops):
    table = ",".join(f"{b}:{i}={_entry_tok(_ref_entry(cfg, b, i))}" for b, i in _wallet_universe(cfg, ops))
    return f"wallet {cfg} {table} {';'.join(ops) if ops else '_'}"


def _wallet_state(cfg, w) -> str:
    led = []
    for a in w.addresses:
        info = w.address_info(a)
        led.append(f"{_tok(a)}/{'-' if info.branch is None else info.branch}.{'-' if info.index is None else info.index}")
    nxt = ",".join(f"{b}={w._next_index.get(int(b), 0)}" for b in cfg.split(","))  # noqa: SLF001
    return ",".join(led) + "#" + nxt


def _wallet_step(cfg, w, op, addr_of) -> str:
    t = op.split(":")
    try:
        if t[0] == "A":
            r = "addr:" + _tok(w.address(int(t[1]), int(t[2])))
        elif t[0] == "N":
            r = "addr:" + _tok(w.next_address(int(t[1])))
        elif t[0] == "P":
            p = w.position_of(addr_of[t[1]], int(t[2]))
            r = "pos:none" if p is None else f"pos:{p[0]}.{p[1]}"
        elif t[0] == "I":
            info = w.address_info(addr_of[t[1]])
            r = f"info:{'-' if info.branch is None else info.branch}.{'-' if info.index is None else info.index}"
        elif t[0] == "C":
            r = "bool:" + str(int(addr_of[t[1]] in w))
        elif t[0] == "L":
            r = f"nat:{len(w)}"
        elif t[0] == "K":
            r = "addr:" + _tok(w.add(_key_for(cfg, t[1], addr_of)))
        else:
            raise common.HarnessError("wallet op " + op)
    except common.HarnessError:
        raise
    except Exception as e:  # noqa: BLE001
        r = "err:" + _cls(e)
    return r + "@" + _wallet_state(cfg, w)


_REFUSED_KEYS = ["not a key", "0479be667ef9dcbbac55a06295ce870b07029bfcdb2dce28d959f2815b16f81798"
                 "483ada7726a3c4655da4fbfc0e1108a8fd17b448a68554199c47d08ffb10d4b8"]   # garbage; uncompressed for p2wpkh


def _key_for(cfg, tok, addr_of):
    if tok == "!":
        _REFUSED_KEYS.append(_REFUSED_KEYS.pop(0))   # alternate the two reasons add refuses
        return _REFUSED_KEYS[0]
    if addr_of[tok] == _foreign_key_addr():
        return FOREIGN_KEY
    return _ref_wallet(cfg).prv_key(addr_of[tok])  # the WIF of a key at one of the wallet's own positions


def _addr_map(cfg, ops):
    m = {_tok(FOREIGN_ADDR): FOREIGN_ADDR}
    if cfg == "0,1":
        m[_tok(_foreign_key_addr())] = _foreign_key_addr()
        # make the reference wallet able to answer prv_key for its own positions
    for b, i in _wallet_universe(cfg, ops):
        e = _ref_entry(cfg, b, i)
        if e not in ("!", "~"):
            m[_tok(e)] = e
            if cfg == "0,1" and e not in _ref_wallet(cfg):
                _ref_wallet(cfg).address(b, i)
    return m


def _wallet_run(cfg, ops) -> list[str]:
    w = WALLETS[cfg]()
    am = _addr_map(cfg, ops)
    return [_wallet_step(cfg, w, op, am) for op in ops]


def _clone(w):
    c = copy.copy(w)
    for k, v in vars(w).items():
        if isinstance(v, dict) and k in ("_handed_out", "_next_index", "_prv_keys"):
            setattr(c, k, dict(v))
    return c


def _wallet_all(cfg, alphabet, depth):
    """every history of exactly `depth` ops over the alphabet, on real wallets (prefix states shared by copy)."""
    am = _addr_map(cfg, alphabet)
    cases = []

    def go(w, path, recs):
        if len(path) == depth:
            cases.append((path, recs))
            return
        for op in alphabet:
            c = _clone(w)
            go(c, path + [op], recs + [_wallet_step(cfg, c, op, am)])

    go(WALLETS[cfg](), [], [])
    uni_ops = list(alphabet) + ["L"] * max(0, depth - len(alphabet))
    table = ",".join(f"{b}:{i}={_entry_tok(_ref_entry(cfg, b, i))}" for b, i in _wallet_universe(cfg, uni_ops))
    return [(f"wallet {cfg} {table} {';'.join(p)}", _fmt(r)) for p, r in cases]


# =============================================================================== memo (LRU instance)
def _memo_run(maxsize, ops):
    @functools.lru_cache(maxsize=maxsize)
    def f(x):
        return (x * x + 7) % 1009
    out = []
    for op in ops:
        if op == "clr":
            f.cache_clear()
            out.append("none@h0m0s0")
        else:
            v = f(int(op[1:]))
            ci = f.cache_info()
            out.append(f"{v}@h{ci.hits}m{ci.misses}s{ci.currsize}")
    return out


# =============================================================================== backend flag; objects holding a bindings object
_R1 = CURVES["secp256r1"]
_BASE = mult(_Q)                       # the chain's base is _Q*G, so the tweak N - _Q lands on infinity
_BASE_R1 = mult(5, ec=_R1)
_INF_PT = secp256k1.add_var(_BASE, secp256k1.negate(_BASE))   # infinity, as btclib spells it
try:
    import btclib_secp256k1 as _bindings_pkg
    _BINDINGS_ROOT = os.path.dirname(_bindings_pkg.__file__) + os.sep
except ImportError:  # pragma: no cover
    _BINDINGS_ROOT = None
_SERVES_CODE = curve_mod._libsecp256k1_serves.__code__  # noqa: SLF001
_ENTRY = collections.Counter()      # bindings entry points seen by the spy, over the whole run (evidence)
_SITES = collections.Counter()      # callers of _libsecp256k1_serves seen during spied free calls (evidence)


class _Spy:
    """Which arm answered a call: every entry into the bindings PACKAGE while the block runs is recorded.

    `sys.monitoring` PY_START, filtered on the code object's file: the bindings are pure-Python wrappers over cffi,
    so whatever name a btclib module imported them under (`libsecp256k1_ssa.sign_custom`, `libsecp256k1_pubkey_tweak_add`,
    a method of a held `ssa.Signer` / `PubkeyTweakChain`, …) the call starts a function of that package.  Nothing of
    btclib is patched, so there is nothing to restore but the tool id.  Code that is not the bindings' switches its own
    event off on first sight (DISABLE), so the arithmetic of the Python arm is not slowed.
    Also records who asked `_libsecp256k1_serves` (the dispatch sites reached)."""

    TOOL = 4

    def __enter__(self):
        self.hits, self.sites = [], []
        mon = sys.monitoring
        mon.use_tool_id(self.TOOL, "c20-bindings-spy")

        def on_start(code, _offset):
            if _BINDINGS_ROOT is not None and code.co_filename.startswith(_BINDINGS_ROOT):
                self.hits.append(os.path.basename(code.co_filename)[:-3] + "." + code.co_qualname)
                return None
            if code is _SERVES_CODE:
                f = sys._getframe(2)  # noqa: SLF001 - the caller of the predicate: a dispatch site
                self.sites.append(os.path.basename(f.f_code.co_filename)[:-3] + "." + f.f_code.co_qualname)
                return None
            return mon.DISABLE

        mon.register_callback(self.TOOL, mon.events.PY_START, on_start)
        mon.set_events(self.TOOL, mon.events.PY_START)
        return self

    def __exit__(self, *a):
        mon = sys.monitoring
        mon.set_events(self.TOOL, 0)
        mon.register_callback(self.TOOL, mon.events.PY_START, None)
        mon.free_tool_id(self.TOOL)
        # the entry points proper: public names of the package (helpers they call in turn are not listed)
        for h in set(self.hits):
            if not h.split(".")[-1].startswith("_") and not h.startswith("_"):
                _ENTRY[h] += 1
        for s_ in set(self.sites):
            _SITES[s_] += 1

    @property
    def arm(self):
        return "C" if self.hits else "P"


KINDS = {"d": "dsa", "s": "ssa", "c": "chain"}


def _build_obj(kind, cls):
    """an object of `kind` for (ec, hf) of class `cls`: "1" served (secp256k1, sha256); "2" not served itself but the
    free path it falls back on has served sites (secp256k1 with sha1; a chain on infinity, whose `_tweak_add_var`
    multiplies the generator); "0" served nowhere (secp256r1)."""
    if kind == "dsa":
        return {"1": lambda: dsa.Signer(_Q), "2": lambda: dsa.Signer(_Q, secp256k1, hashlib.sha1),
                "0": lambda: dsa.Signer(_Q % _R1.n, _R1)}[cls]()
    if kind == "ssa":
        return {"1": lambda: ssa.Signer(_Q), "2": lambda: ssa.Signer(_Q, secp256k1, hashlib.sha1),
                "0": lambda: ssa.Signer(_Q % _R1.n, _R1)}[cls]()
    return {"1": lambda: curve_mod._TweakChain(_BASE), "2": lambda: curve_mod._TweakChain(_INF_PT),  # noqa: SLF001
            "0": lambda: curve_mod._TweakChain(_BASE_R1, _R1)}[cls]()  # noqa: SLF001


def _obj_holds(kind, o) -> bool:
    return {"dsa": lambda: o._pub_key_sec, "ssa": lambda: o._signer, "chain": lambda: o._chain}[kind]() is not None  # noqa: SLF001


def _obj_use(kind, cls, o, drop=False):
    """one use of the object (a thunk, so that only the use itself is spied on).  `drop`: the use that makes a chain let
    go of its bindings object -- the tweak that lands on infinity."""
    if kind == "dsa":
        return lambda: o.sign_(_MSG[:o._hf_len])  # noqa: SLF001
    if kind == "ssa":
        return lambda: o.sign_(_MSG, _AUX[:o._hf_len])  # noqa: SLF001
    if drop and cls == "1":
        return lambda: o.point(N - _Q)
    if drop and cls == "0":
        return lambda: o.point(_R1.n - 5)
    return lambda: o.point(77)


def _free_use(kind, cls, drop=False):
    """the free function the object's use stands for."""
    ec = _R1 if cls == "0" else secp256k1
    hf = hashlib.sha1 if cls == "2" else hashlib.sha256
    hl = hf().digest_size
    if kind == "dsa":
        return lambda: dsa.sign_(_MSG[:hl], _Q % ec.n, ec=ec, hf=hf).serialize()
    if kind == "ssa":
        return lambda: ssa.sign_(_MSG, _Q % ec.n, _AUX[:hl], ec, hf).serialize()
    base = {"1": _BASE, "2": _INF_PT, "0": _BASE_R1}[cls]
    t = (N - _Q if cls == "1" else _R1.n - 5 if cls == "0" else 77) if drop else 77
    return lambda: curve_mod._tweak_add_var(base, t, ec)  # noqa: SLF001


# free dispatching functions for the `backendfree` stream: name -> (class -> thunk); arguments are prepared OUTSIDE the spy
@functools.lru_cache(maxsize=None)
def _free_fn(fn, cls):
    ec = _R1 if cls == "0" else secp256k1
    hf = hashlib.sha1 if cls == "2" else hashlib.sha256
    hl = hf().digest_size
    q = _Q % ec.n
    with _flag(False):   # the arguments come from the Python arithmetic, whatever the history's flag says
        A, B, C = mult(5, ec=ec), mult(7, ec=ec), mult(11, ec=ec)
        Qp = mult(q, ec=ec)
        if fn in ("dsa.verify", "dsa.recover"):
            dsig = dsa.sign_(_MSG[:hl], q, ec=ec, hf=hf)
        if fn == "ssa.verify":
            ssig = ssa.sign_(_MSG, q, _AUX[:hl], ec, hf)
    table = {
        "mult": lambda: mult(q, ec.G, ec),
        "double_mult": lambda: double_mult_var(3, A, 5, B, ec),
        "multi_mult": lambda: multi_mult_var([3, 5, 7], [A, B, C], ec),
        "tweak_add": lambda: curve_mod._tweak_add_var(A, 77, ec),  # noqa: SLF001
        "dsa.sign": lambda: dsa.sign_(_MSG[:hl], q, ec=ec, hf=hf),
        "dsa.sign_recoverable": lambda: dsa.sign_recoverable_(_MSG[:hl], q, ec=ec, hf=hf),
        "ssa.sign": lambda: ssa.sign_(_MSG, q, _AUX[:hl], ec, hf),
        "dsa.verify": lambda: dsa.assert_as_valid_(_MSG[:hl], Qp, dsig, hf),
        "dsa.recover": lambda: dsa.recover_pub_keys_(_MSG[:hl], dsig, hf),
        "ssa.verify": lambda: ssa.assert_as_valid_(_MSG, Qp[0], ssig, hf),
        "sum": lambda: curve_mod._sum_var([A, B, C], ec),  # noqa: SLF001
        "sec_from_prv": lambda: sec_point_mod.bytes_from_prv_key_int(q, ec),
        "mult_sec": lambda: sec_point_mod._mult_sec_var(sec_point_mod.bytes_from_point(A, ec), 9, ec),  # noqa: SLF001
        "dh": lambda: dh_mod.diffie_hellman(q, A, 32, None, ec, hf),
    }
    return table[fn]


FREE_FNS = ["mult", "double_mult", "multi_mult", "tweak_add", "dsa.sign", "dsa.sign_recoverable", "ssa.sign",
            "dsa.verify", "dsa.recover", "ssa.verify", "sum", "sec_from_prv", "mult_sec", "dh"]


def _set_op(op):
    if op == "T1":
        set_serving(serving=True)
    elif op == "T0":
        curve_mod._bindings_installed = False  # noqa: SLF001 - as on a machine without the bindings
        try:
            set_serving(serving=True)
        finally:
            curve_mod._bindings_installed = True  # noqa: SLF001
    else:
        set_serving(serving=False)


def _backend_run(flag0, kinds, ops, answers=None):
    """ops on the real flag and real objects.  A use answers "C" when the bindings package was entered during it and "P"
    when it was not (`_Spy`), whatever the object's fields say; the state shown after each op is the flag and, per
    object, whether it holds a bindings object.  The k-th object built is of class kinds[k mod len].
    `answers` (a list) collects (object answer, fresh object's, free function's) per use."""
    out, objs = [], []
    with _flag(None):
        set_serving(serving=flag0)
        for op in ops:
            try:
                if op in ("T1", "T0", "F"):
                    _set_op(op)
                    r = "none"
                elif op[0] == "B":
                    kind = KINDS[kinds[len(objs) % len(kinds)]]
                    objs.append((kind, op[1], _build_obj(kind, op[1])))
                    r = "none"
                elif op[0] in "UD":
                    i = int(op[1:])
                    if i >= len(objs):
                        r = "err:foreign"
                    else:
                        kind, cls, o = objs[i]
                        drop = op[0] == "D"
                        if drop and kind != "chain":
                            raise common.HarnessError(f"generator: {op} on a {kind} object (only a chain lets go)")
                        with _Spy() as spy:
                            got = _obj_use(kind, cls, o, drop)()
                        r = spy.arm
                        if answers is not None:
                            fresh = _build_obj(kind, cls)
                            with _Spy() as spy2:
                                fa = _obj_use(kind, cls, fresh, drop)()
                            answers.append((op, kind, got, fa, _free_use(kind, cls, drop)(), r, spy2.arm))
                elif op in ("C1", "C2", "C0"):
                    with _Spy() as spy:
                        _free_use(KINDS[kinds[0]], op[1])()
                    r = spy.arm
                else:
                    raise common.HarnessError("backend op " + op)
            except common.HarnessError:
                raise
            except Exception as e:  # noqa: BLE001
                r = "err:" + _cls(e)
            out.append(f"{r}@f{int(is_serving())}o{''.join(str(int(_obj_holds(k, o))) for k, _, o in objs)}")
    return out


def _backendfree_run(flag0, fn, ops):
    """`Backend.run` against a free dispatching function of btclib: which arm answers each call, by the spy."""
    out = []
    with _flag(None):
        set_serving(serving=flag0)
        for op in ops:
            try:
                if op in ("T1", "T0", "F"):
                    _set_op(op)
                    r = "none"
                elif op in ("C1", "C2", "C0"):
                    thunk = _free_fn(fn, op[1])
                    with _Spy() as spy:
                        thunk()
                    r = spy.arm
                else:
                    raise common.HarnessError("backendfree op " + op)
            except common.HarnessError:
                raise
            except Exception as e:  # noqa: BLE001
                r = "err:" + _cls(e)
            out.append(r)
    return out


def _o_captured_objects(w):
    """objects built under one flag value and used after flips answer, byte for byte, what an object built at that
    moment answers and what the free function answers -- whichever arm each of the three took."""
    answers: list = []
    _backend_run(w["flag"], w.get("kinds", "dsc"), w["ops"], answers)
    crossed = 0
    for op, kind, got, fresh, free, arm, fresh_arm in answers:
        if not (got == fresh == free):
            return False, (f"{kind} object at `{op}` in {';'.join(w['ops'])} (its arm {arm}, a fresh one's {fresh_arm}) answered "
                           f"{str(got)[:40]}, a fresh object {str(fresh)[:40]}, the free function {str(free)[:40]}")
        crossed += arm != fresh_arm
    return True, f"{len(answers)} uses, {crossed} on the arm a fresh object would not take"


def _dispatch_sites():
    """every function of btclib whose body asks `_libsecp256k1_serves` (read off the source by AST)."""
    import ast  # noqa: PLC0415
    import pathlib  # noqa: PLC0415
    root = pathlib.Path(curve_mod.__file__).resolve().parent.parent
    found = set()
    for f in sorted(root.rglob("*.py")):
        stack: list[str] = []

        def walk(node):
            named = isinstance(node, (ast.FunctionDef, ast.AsyncFunctionDef, ast.ClassDef))
            if named:
                stack.append(node.name)
            if isinstance(node, ast.Call) and getattr(node.func, "id", getattr(node.func, "attr", None)) == "_libsecp256k1_serves":
                found.add(f.stem + "." + ".".join(stack))
            for c in ast.iter_child_nodes(node):
                walk(c)
            if named:
                stack.pop()
        walk(ast.parse(f.read_text()))
    return found


# =============================================================================== impl (replay entry)
def impl(line: str) -> str:
    t = line.split(" ")
    ops = [] if t[-1] == "_" else t[-1].split(";")
    if t[0] == "nonce":
        return _fmt(_nonce_run(common.unhx(t[1]), ops))
    if t[0] == "noncek":
        return _fmt(_noncek_run(t[1], common.unhx(t[2]), ops))
    if t[0] == "signer":
        return _fmt(_signer_run(t[1], t[2] == "1", ops))
    if t[0] == "soft":
        return _fmt(_soft_run(ops))
    if t[0] == "wallet":
        return _fmt(_wallet_run(t[1], ops))
    if t[0] == "memo":
        return _fmt(_memo_run(int(t[1]), ops))
    if t[0] == "backend":
        return _fmt(_backend_run(t[1] == "1", t[2], ops))
    if t[0] == "backendfree":
        return _fmt(_backendfree_run(t[1] == "1", t[2], ops))
    return "bad-op"


# =============================================================================== oracles: the property on real objects
def _o_nonce_single_use(w):
    sid, j, variant = w["sid"], w["j"], w["variant"]
    buf = bytearray(_nonce0(sid, j, variant))
    sigs, attempted, detail = 0, False, []
    for osid, kind in w["ops"]:
        prv = _prv(osid, j, kind)
        ctx = _fresh_ctx(osid)
        try:
            musig2.session_values(ctx)
            assembles = True
        except Exception:  # noqa: BLE001
            assembles = False
        before = bytes(buf)
        try:
            s = musig2.sign(buf, prv, ctx)
        except Exception as e:  # noqa: BLE001
            if _cls(e) == "foreign":
                return False, f"foreign exception {type(e).__name__}: {e}"
            s = None
        if s is not None:
            sigs += 1
            if attempted:
                return False, f"a signature came back after an earlier attempt: {detail + [(osid, kind)]}"
            if osid == sid and kind == "right" and variant == "real":
                parts = _session_parts(sid)
                jj = j % len(parts[1])
                if not musig2.partial_sig_verify_(s, parts[3][jj][1], parts[2][jj], ctx):
                    return False, "the partial signature does not verify"
        if assembles:
            attempted = True
            if len(buf) < 64 or any(buf[:64]):
                return False, f"first 64 bytes not zero after an attempt on session {osid} with key `{kind}`"
        elif bytes(buf) != before:
            return False, "an unassembled session touched the nonce"
        detail.append((osid, kind, s is not None))
    return sigs <= 1, f"{sigs} signatures in {detail}"


def _o_signer_dead(w):
    recs = _signer_run(w["kind"], w["delegated"], w["ops"])
    dead = False
    for op, r in zip(w["ops"], recs):
        out, st = r.split("@")
        if out in ("badsig", "other") or out == "err:foreign":
            return False, f"{op} -> {r}"
        if dead:
            if op in ("S1", "S0") and out != "err:value":
                return False, f"a wiped signer answered {out} to {op}"
            if st != "w1k0s0":
                return False, f"a wiped signer holds {st}"
        elif op == "S1" and out != "sig":
            return False, f"a live signer answered {out}"
        if op in ("W", "X"):
            dead = True
            if st != "w1k0s0":
                return False, f"after {op}: {st}"
    return True, f"{len(recs)} steps"


SIGNING = ["sign_psbt", "sign_psbt_foreign", "sign_message", "sign_ecdsa", "sign_schnorr", "sign_schnorr_script_path"]


def _o_soft_closed(w):
    s = SoftwareSigner(_XPRV)
    for m in w["before"]:
        if _soft_call(s, m, True) is None:
            return False, f"an open signer did not answer {m}"
    s.close()
    try:
        v = _soft_call(s, w["method"], True)
    except Exception as e:  # noqa: BLE001
        return _cls(e) == "value", f"{w['method']} after close raised {type(e).__name__}"
    return False, f"SoftwareSigner.{w['method']} answered after close(): {str(v)[:40]}…"


@functools.lru_cache(maxsize=None)
def _plugin():
    """the translator plugin of this property (tools/specs/lifecycle.py): its AST classification of SoftwareSigner's
    methods and its introspected inventory of btclib's memos are the SAME ones the Lean obligations are stated on."""
    import importlib.util  # noqa: PLC0415
    spec = importlib.util.spec_from_file_location("specs_lifecycle_c20", os.path.join(common.ROOT, "tools", "specs", "lifecycle.py"))
    m = importlib.util.module_from_spec(spec)
    spec.loader.exec_module(m)
    return m


def _o_soft_closed_generic(w):
    """a closed signer refuses a method the translator classified as reaching the key material or a signing primitive,
    BEFORE it looks at its arguments (every required parameter is None): whatever the method is called, known to this
    harness or not."""
    import inspect  # noqa: PLC0415
    s = SoftwareSigner(_XPRV)
    s.close()
    fn = getattr(s, w["method"])
    k = sum(1 for p_ in inspect.signature(fn).parameters.values()
            if p_.default is p_.empty and p_.kind in (p_.POSITIONAL_ONLY, p_.POSITIONAL_OR_KEYWORD))
    try:
        v = fn(*([None] * k))
    except BTClibValueError as e:
        return "closed" in str(e), f"{w['method']} after close raised BTClibValueError({e})"
    except Exception as e:  # noqa: BLE001
        return False, f"SoftwareSigner.{w['method']} after close() reached its body: {type(e).__name__}: {str(e)[:60]}"
    return False, f"SoftwareSigner.{w['method']} answered after close(): {str(v)[:40]}"


def _o_wallet_invariant(w):
    cfg, ops = w["cfg"], w["ops"]
    wal = WALLETS[cfg]()
    am = _addr_map(cfg, ops)
    handed: list[tuple[int, int, str]] = []      # successful (branch, index, address), in order
    loose: list[str] = []
    order: list[str] = []
    for op in ops:
        t = op.split(":")
        before = (wal.addresses, dict(wal._next_index))  # noqa: SLF001
        want_next = None
        if t[0] == "N":
            b = int(t[1])
            want_next = 1 + max([i for bb, i, _ in handed if bb == b], default=-1)
        r = _wallet_step(cfg, wal, op, am).split("@")[0]
        if r.startswith("err:"):
            if r != "err:value":
                return False, f"{op}: {r}"
            if (wal.addresses, dict(wal._next_index)) != before:  # noqa: SLF001
                return False, f"failing call {op} changed the wallet"
            continue
        if t[0] in ("A", "N"):
            b = int(t[1])
            i = int(t[2]) if t[0] == "A" else want_next
            a = wal.addresses[-1] if r[5:] == _tok(wal.addresses[-1]) else next(x for x in wal.addresses if _tok(x) == r[5:])
            if _ref_entry(cfg, b, i) != a:
                return False, f"{op} answered {a}, a fresh wallet has {_ref_entry(cfg, b, i)} at {b}/{i}"
            handed.append((b, i, a))
            if a not in order:
                order.append(a)
            info = wal.address_info(a)
            if (info.branch, info.index, info.script_type) != (b, i, wal.script_type):
                return False, f"{op}: recorded {info}"
        elif t[0] == "K":
            if t[1] == "!":
                return False, "add answered a key it must refuse"
            a = am[t[1]]
            loose.append(a)
            if a not in order:
                order.append(a)
        # the invariant, after every step
        if list(wal.addresses) != order:
            return False, f"after {op}: ledger {wal.addresses} vs first-hand-out order {order}"
        if len(set(wal.addresses)) != len(wal.addresses) or len(wal) != len(order):
            return False, f"after {op}: duplicate in ledger"
        for b in (int(x) for x in cfg.split(",")):
            exp = 1 + max([i for bb, i, _ in handed if bb == b], default=-1)
            if wal._next_index.get(b, 0) != exp:  # noqa: SLF001
                return False, f"after {op}: next[{b}] = {wal._next_index.get(b, 0)}, handed out max+1 = {exp}"  # noqa: SLF001
    return True, f"{len(handed)} hand-outs"


# =============================================================================== cache independence
def _curve(name):
    return secp256k1 if name == "secp256k1" else CURVES[name]


def _pt(ec, k):
    return mult(k, ec=ec)


def _eval(d):
    """one pure API call, described by JSON-able data -> JSON-able answer."""
    k = d[0]
    if k == "mult":
        ec = _curve(d[1])
        return list(mult(d[2], None if d[3] is None else _pt(ec, d[3]), ec))
    if k == "prepared":
        ec = _curve(d[1])
        return list(PreparedPoint(_pt(ec, d[3]), ec).mult(d[2]))
    if k == "double_mult":
        ec = _curve(d[1])
        return list(double_mult_var(d[2], _pt(ec, d[3]), d[4], _pt(ec, d[5]), ec))
    if k == "multi_mult":
        ec = _curve(d[1])
        return list(multi_mult_var(d[2], [_pt(ec, x) for x in d[3]], ec))
    if k == "derive":
        return derive(d[1], d[2])
    if k == "b58cached":
        return bip32_mod._cached_base58_decode(d[1] if d[2] == "str" else d[1].encode()).hex()  # noqa: SLF001
    if k == "mnemonic":
        return bip39.mnemonic_from_entropy(bytes.fromhex(d[2]), d[1])
    if k == "entropy":
        return bip39.entropy_from_mnemonic(d[2], d[1])
    if k == "second_generator":
        return list(pedersen.second_generator(_curve(d[1])))
    if k == "session_values":
        v = musig2.session_values(_fresh_ctx(d[1]))
        return [list(v.Q), v.gacc, v.tacc, v.b, list(v.R), v.e]
    if k == "psig_verify":
        sid, j = d[1], d[2]
        parts = _session_parts(sid)
        ctx = _ctx(sid, fresh=d[3])
        s = musig2.sign(bytearray(parts[3][j][0]), parts[1][j], ctx)
        return [s.hex(), musig2.partial_sig_verify_(s, parts[3][j][1], parts[2][j], ctx)]
    if k == "ssa":
        q = d[1]
        sig = ssa.sign_(bytes.fromhex(d[2]), q, bytes(32)).serialize()
        return [sig.hex(), ssa.verify_(bytes.fromhex(d[2]), mult(q)[0], sig)]
    if k == "dsa":
        q = d[1]
        sig = dsa.sign_(bytes.fromhex(d[2]), q).serialize()
        return [sig.hex(), dsa.verify_(bytes.fromhex(d[2]), mult(q), sig)]
    if k == "mult_fixwind":     # the one caller of _cached_multiples_fixwind
        ec = _curve(d[1])
        return list(ec.aff_from_jac_var(cg._mult_fixed_window_cached_var(d[2], (*_pt(ec, d[3]), 1), ec, 4)))  # noqa: SLF001
    if k == "mult_window_cached":     # no caller inside btclib asks for cached=True today: the memo is reached directly
        ec = _curve(d[1])
        return list(ec.aff_from_jac_var(cg._mult_fixed_window_var(d[2], (*_pt(ec, d[3]), 1), ec, 4, cached=True)))  # noqa: SLF001
    if k == "electrum_old":
        mn = electrum_mod.old_mnemonic_from_hex_seed(d[1])
        return [mn, electrum_mod.hex_seed_from_old_mnemonic(mn)]
    if k == "ellswift":
        ec = _curve(d[1])
        return list(ellswift_mod.decode_var(bytes.fromhex(d[2]), ec))
    if k in ("prvkey_pub", "pubkey_point", "script_asm"):
        # a cached_property: one entry per instance.  -> [first read, second read, the undecorated function, on a second
        # equal instance, was the value stored in the instance]
        make, attr, canon = {
            "prvkey_pub": (lambda: key_mod.PrvKeyData(d[1], "mainnet", True), "pub", lambda v: v.sec.hex()),
            "pubkey_point": (lambda: key_mod.PubKeyData(bytes.fromhex(d[1])), "point", list),
            "script_asm": (lambda: script_mod.Script(bytes.fromhex(d[1])), "asm", lambda v: [str(x) for x in v]),
        }[k]
        o = make()
        cp = vars(type(o))[attr]
        # the function under the memo: functools.cached_property keeps it as .func; a hand-rolled one (a property whose body
        # stores into self.__dict__) has none apart from itself, and is read on an instance nobody has read before
        bare = cp.func if isinstance(cp, functools.cached_property) else cp.fget if isinstance(cp, property) else cp
        first, second = canon(getattr(o, attr)), canon(getattr(o, attr))
        return [first, second, canon(bare(make())), canon(getattr(make(), attr)), attr in vars(o)]
    raise common.HarnessError(f"unknown call {d}")


# every memo of btclib, as the translator plugin finds them by introspection of the imported package (the same list the
# Lean obligation `cache_inventory_covered` is stated on): name -> the calls of `_eval` that go THROUGH it (checked, not
# claimed: the cache.inventory oracle empties the memo, makes the calls on the Python arm and requires an entry to appear)
_ELL = hashlib.sha512(b"c20 ellswift").digest()
CACHE_COVER = {
    "btclib.bip32.bip32._cached_base58_decode": [["b58cached", _ACC, "str"], ["derive", _ACC, "m/0/7"]],
    "btclib.curves.curve_group._cached_fixed_base_multiples": [["mult", "secp160r1", 0xABCDEF0123456789ABCDEF, None]],
    "btclib.curves.curve_group._cached_multiples": [["mult_window_cached", "secp160r1", 0xABCDEF0123456789, 7]],
    "btclib.curves.curve_group._cached_multiples_fixwind": [["mult_fixwind", "secp160r1", 0xABCDEF0123456789, 7]],
    "btclib.curves.curve_group._cached_odd_multiples_aff": [["double_mult", "secp160r1", 0xABCDEF01234567, 1, 0x1234567, 5],
                                                            ["prepared", "secp160r1", 0xABCDEF01234567, 9]],
    "btclib.ecc.ellswift._CONSTANTS": [["ellswift", "secp256k1", _ELL.hex()], ["ellswift", "secp192k1", _ELL[:48].hex()]],
    "btclib.ecc.pedersen.second_generator": [["second_generator", "secp256k1"], ["second_generator", "secp160r1"]],
    "btclib.key.PrvKeyData.pub": [["prvkey_pub", _Q]],
    "btclib.key.PubKeyData.point": [["pubkey_point", _CHILD_PUB.hex()]],
    "btclib.mnemonic.electrum._old_word_indexes": [["electrum_old", "00112233445566778899aabbccddeeff"]],
    "btclib.mnemonic.electrum._old_wordlist": [["electrum_old", "00112233445566778899aabbccddeeff"]],
    "btclib.script.script.Script.asm": [["script_asm", "76a914" + "11" * 20 + "88ac"]],
}


@functools.lru_cache(maxsize=None)
def _inventory():
    return {r[0]: r for r in _plugin().cache_inventory()}


def _lru_functions():
    """every functools.lru_cache / functools.cache wrapper of btclib, by introspection (a new one is cleared and
    evicted with the rest from the day it appears)."""
    return [r[4] for r in _inventory().values() if r[1] in ("lru", "unbounded")]


def _clear_all():
    for f in _lru_functions():
        f.cache_clear()
    for r in _inventory().values():
        if r[1] == "moduleTable":
            r[4].clear()


def _memo_size(row):
    hold, obj = row[1], row[4]
    if hold in ("lru", "unbounded"):
        return obj.cache_info().currsize
    if hold == "moduleTable":
        return len(obj)
    return None     # per instance: `_eval` reports it


def _o_cache_inventory(w):
    """a memo found by introspection is one this check accounts for: the calls listed for it go through it (an entry
    appears in the emptied memo), and they answer the same emptied / warm / emptied again / on the other arm."""
    row = _inventory().get(w["name"])
    if row is None:
        return False, f"{w['name']}: not a memo of btclib any more (stale CACHE_COVER entry)"
    descs = CACHE_COVER.get(w["name"])
    if not descs:
        return False, (f"{w['name']} ({row[1]}{'' if row[2] is None else ' ' + str(row[2])}): a memo of btclib that no call of "
                       "this check is known to go through -- add it to CACHE_COVER and to coveredCaches")
    out = []
    with _flag(False):
        _clear_all()
        out.append([_eval(d) for d in descs])
        size = _memo_size(row)
        if size == 0 or (size is None and not all(a[4] for a in out[0])):
            return False, f"{w['name']}: the calls {descs} left it empty -- they do not go through it"
        out.append([_eval(d) for d in descs])
        _clear_all()
        out.append([_eval(d) for d in descs])
    with _flag(True):
        out.append([_eval(d) for d in descs])
        _clear_all()
        out.append([_eval(d) for d in descs])
    if any(o != out[0] for o in out):
        return False, f"{w['name']}: answers of {descs} differ between emptied / warm / other arm: {str(out)[:200]}"
    if row[1] == "perInstance" and any(not (a[0] == a[1] == a[2] == a[3]) for a in out[0]):
        return False, f"{w['name']}: first read, second read, undecorated function and a second equal instance differ: {str(out[0])[:200]}"
    return True, f"{row[1]}, {len(descs)} calls, size after them {size}"


_IMMUTABLE = (int, str, bytes, bool, float, frozenset, type(None))


def _mutable_part(v, depth=0):
    """the first mutable container reachable in an answer (tuples and frozen dataclasses are looked into)."""
    if isinstance(v, _IMMUTABLE):
        return None
    if isinstance(v, (list, dict, set, bytearray)):
        return type(v).__name__
    if isinstance(v, tuple) and depth < 4:
        return next((m for m in (_mutable_part(x, depth + 1) for x in v[:8]) if m), None)
    if hasattr(v, "__dataclass_fields__") and depth < 4:
        if not type(v).__dataclass_params__.frozen:
            return type(v).__name__
        return next((m for m in (_mutable_part(getattr(v, f), depth + 1) for f in v.__dataclass_fields__) if m), None)
    return None


def _memo_reader(name):
    """-> (read, through, public): `read()` asks the memo itself for one of its entries; `through()` makes btclib's own calls
    that go through that same entry; public = the memo is API (a property, or a function without a leading underscore)."""
    row = _inventory()[name]
    descs = CACHE_COVER[name]
    through = lambda: [_eval(d) for d in descs]  # noqa: E731
    if row[1] == "perInstance":
        d = descs[0]
        make, attr = {"prvkey_pub": (lambda: key_mod.PrvKeyData(d[1], "mainnet", True), "pub"),
                      "pubkey_point": (lambda: key_mod.PubKeyData(bytes.fromhex(d[1])), "point"),
                      "script_asm": (lambda: script_mod.Script(bytes.fromhex(d[1])), "asm")}[d[0]]
        o = make()
        return (lambda: getattr(o, attr)), (lambda: getattr(o, attr)), True
    if row[1] == "moduleTable":
        return (lambda: row[4]), through, False
    ec = CURVES["secp160r1"]
    args = {
        "btclib.ecc.pedersen.second_generator": lambda: (ec,),
        "btclib.bip32.bip32._cached_base58_decode": lambda: (_ACC,),
        "btclib.curves.curve_group._cached_multiples": lambda: ((*_pt(ec, 7), 1), ec),
        "btclib.curves.curve_group._cached_multiples_fixwind": lambda: ((*_pt(ec, 7), 1), ec, 4),
        "btclib.curves.curve_group._cached_odd_multiples_aff": lambda: (ec.GJ, ec, min(cg._FIXED_POINT_W, ec.scalar_len)),  # noqa: SLF001
        "btclib.curves.curve_group._cached_fixed_base_multiples": lambda: (ec.GJ, ec, curve_mod._FIXED_BASE_W),  # noqa: SLF001
        "btclib.mnemonic.electrum._old_word_indexes": lambda: (),
        "btclib.mnemonic.electrum._old_wordlist": lambda: (),
    }.get(name)
    if args is None:
        return None, through, not name.rsplit(".", 1)[1].startswith("_")
    return (lambda: row[4](*args())), through, not name.rsplit(".", 1)[1].startswith("_")


def _o_cached_answer_not_aliased(w):
    """nobody can change what a memo answers by editing an answer.  For a memo that is public API (a property, a function
    without a leading underscore): the caller edits the container it was handed and reads again -- the next answer must be
    the old one (regression for Script.asm, which handed out the list it kept until /repo b68e3481).  For a private memo,
    whose callers are btclib's own functions: the entry those functions go through (a cache HIT is required, so it is
    that entry) must be unchanged after they ran -- btclib itself never edits a kept container."""
    name = w["name"]
    read, through, public = _memo_reader(name)
    if read is None:
        return False, f"{name}: a memo this oracle has no arguments for"
    with _flag(False):      # the Python arm, where the tables are used
        row = _inventory()[name]
        through()
        hits0 = row[4].cache_info().hits if row[1] in ("lru", "unbounded") else None
        v = read()
        if hits0 is not None and row[4].cache_info().hits != hits0 + 1:
            return False, f"{name}: the entry this oracle reads is not the one btclib's calls {CACHE_COVER[name]} made (no cache hit)"
        kind = _mutable_part(v)
        if kind is None:
            return True, f"answers a {type(v).__name__} with no mutable part"
        before = copy.deepcopy(v)
        if not public:
            through()
            through()
            after = read()
            if after != before:
                return False, f"{name}: the {kind} it keeps changed while btclib's own calls {CACHE_COVER[name]} ran"
            return True, f"private; keeps a {kind}; unchanged by btclib's own callers"
        if isinstance(v, list):
            v.append("edited by the caller")
        elif isinstance(v, dict):
            v["edited by the caller"] = 1
        elif isinstance(v, set):
            v.add("edited by the caller")
        else:
            return False, f"{name} answers a {kind} (inside a {type(v).__name__}) that it may also keep"
        again = read()
        if again != before:
            return False, (f"{name} hands out the {kind} it keeps: after the caller edited one answer the next read is "
                           f"{str(again)[:80]}, it was {str(before)[:60]}")
        return True, f"public; answers a {kind}, its own each time"


def _evict(n, kind, heavy=False):
    """n distinct keys through the bounded caches this kind of call reads (more than their maxsize)."""
    if kind in ("mult", "prepared", "double_mult", "multi_mult", "ssa", "dsa", "psig_verify", "session_values"):
        ec = CURVES["secp112r1"]
        for i in range(n):
            Q = (*mult(i + 2, ec=ec), 1)
            cg._cached_multiples(Q, ec)  # noqa: SLF001
            cg._cached_odd_multiples_aff(Q, ec, 4)  # noqa: SLF001
        if heavy:   # the fixed-base tables are the expensive ones: only where the witness asks
            for i in range(135):
                cg._cached_fixed_base_multiples((*mult(i + 2, ec=ec), 1), ec, 2)  # noqa: SLF001
    if kind in ("derive", "b58cached"):
        for i in range(max(n, 2100)):
            try:
                bip32_mod._cached_base58_decode(f"junk{i}")  # noqa: SLF001
            except Exception:  # noqa: BLE001, S110
                pass
    if kind == "second_generator":
        for i in range(max(n, 130)):
            try:
                pedersen.second_generator(CURVES["secp112r1"], functools.partial(hashlib.sha256, bytes([i % 256, i // 256])))
            except Exception:  # noqa: BLE001, S110
                pass


def _cold(descs, no_bindings=False):
    env = dict(os.environ)
    if no_bindings:
        env["BTCLIB_NO_LIBSECP256K1"] = "1"
    p = subprocess.run([sys.executable, "-m", "harness.c20", "--cold"], input=json.dumps(descs).encode(),
                       stdout=subprocess.PIPE, stderr=subprocess.PIPE, cwd=common.ROOT, env=env, timeout=900)
    if p.returncode != 0:
        raise common.HarnessError("cold subprocess failed: " + p.stderr.decode()[-400:])
    return json.loads(p.stdout.decode().strip().split("\n")[-1])


_COLD: dict[str, object] = {}


def _o_cache_independent(w):
    d = w["call"]
    key = json.dumps(d)
    if key not in _COLD:
        _COLD[key] = _cold([d])[0]
    ref = _COLD[key]
    seen = {}
    with _flag(None):
        for cond in w["conds"]:
            if cond == "clear":
                _clear_all()
            elif cond == "evict":
                _evict(w.get("n", 150), d[0], w.get("heavy", False))
            elif cond == "flag0":
                set_serving(serving=False)
            elif cond == "flag1":
                if INSTALLED:
                    set_serving(serving=True)
            elif cond == "flip":
                for v in (False, True, False, True) if INSTALLED else (False,):
                    set_serving(serving=v)
            got = json.loads(json.dumps(_eval(d)))
            seen[cond] = got
            if got != ref:
                return False, f"{d} answered {str(got)[:80]} after `{cond}`, cold reference {str(ref)[:80]}"
    return True, f"{len(seen)} conditions"


def _o_key_sound(w):
    """equal lru_cache keys must denote equal answers of the undecorated function."""
    k = w["probe"]
    ec = CURVES["secp112r1"]
    if k == "bool_vs_int_width":
        Q = (*mult(w["m"], ec=ec), 1)
        f = cg._cached_odd_multiples_aff  # noqa: SLF001
        f.cache_clear()
        a = f(Q, ec, 1) if w["first"] == "int" else f(Q, ec, True)
        b = f(Q, ec, True) if w["first"] == "int" else f(Q, ec, 1)
        ra, rb = f.__wrapped__(Q, ec, 1), f.__wrapped__(Q, ec, True)
        return a == b == ra == rb, f"w=1 vs w=True: {a == ra} {b == rb}"
    if k == "equal_curves":
        name = w["curve"]
        ec1 = _curve(name)
        ec2 = Curve(ec1.p, ec1._a, ec1._b, ec1.G, ec1.n, ec1.cofactor, weakness_check=False, name="again")
        if not (ec1 == ec2 and hash(ec1) == hash(ec2)):
            return True, "no second construction of this curve is an equal key"
        Q = (*mult(w["m"], ec=ec1), 1)
        f = cg._cached_multiples  # noqa: SLF001
        f.cache_clear()
        a, b = f(Q, ec1), f(Q, ec2)
        return a == b == f.__wrapped__(Q, ec2) == f.__wrapped__(Q, ec1), "equal curves, one cache entry"
    if k == "str_vs_bytes":
        f = bip32_mod._cached_base58_decode  # noqa: SLF001
        f.cache_clear()
        s = w["xkey"]
        order = (s, s.encode()) if w["first"] == "str" else (s.encode(), s)
        a, b = f(order[0]), f(order[1])
        return a == b == f.__wrapped__(s) == f.__wrapped__(s.encode()), "str and bytes spellings"
    if k == "jac_spellings":
        # the same point under two Jacobian spellings is two keys: both must give the table of that point
        Q = mult(w["m"], ec=ec)
        z = 3
        Q1, Q2 = (*Q, 1), (Q[0] * z * z % ec.p, Q[1] * z * z * z % ec.p, z)
        f = cg._cached_multiples  # noqa: SLF001
        t1, t2 = f(Q1, ec), f(Q2, ec)
        same = all(ec.is_jac_equal(x, y) for x, y in zip(t1, t2))
        return same and len(t1) == len(t2), "Jacobian spellings"
    return False, "unknown probe"


def _two_curves(x, y, a1, a2, p=10007):
    """two curves over one field through the same point (x, y): equal points, different tables."""
    out = []
    for a in (a1, a2):
        b = (y * y - x * x * x - a * x) % p
        out.append(cg.CurveGroup(p, a, b))
    return out


def _same(f, g, args):
    """f(*args) and g(*args) agree: same value, or the same exception class."""
    def run(h):
        try:
            return ("ok", h(*args))
        except Exception as e:  # noqa: BLE001
            return ("err", _cls(e) + ":" + type(e).__name__)
    return run(f) == run(g)


def _o_vs_uncached(w):
    """Every memoised function against its undecorated self, over a family of near-colliding arguments, in a
    seeded order, twice (so every argument is answered once from a miss and once from a hit)."""
    rng = random.Random(w["seed"])
    fam = []
    if w["family"] == "tables":
        x, y = w["point"]
        try:
            ecs = _two_curves(x, y, w["a1"], w["a2"])
        except Exception as e:  # noqa: BLE001 - singular curve for these parameters: nothing to probe
            return True, f"no such pair of curves: {e}"
        ecs.append(cg.CurveGroup(ecs[0].p, ecs[0]._a, ecs[0]._b))  # noqa: SLF001 - an equal curve, built again
        for ec in ecs:
            for z in (1, 2):
                Q = (x * z * z % ec.p, y * z * z * z % ec.p, z)
                fam.append((cg._cached_multiples, (Q, ec)))  # noqa: SLF001
                for wd in (1, True, 2, 3, 4):
                    fam.append((cg._cached_multiples_fixwind, (Q, ec, wd)))  # noqa: SLF001
                    fam.append((cg._cached_odd_multiples_aff, (Q, ec, wd)))  # noqa: SLF001
                    fam.append((cg._cached_fixed_base_multiples, (Q, ec, wd)))  # noqa: SLF001
    elif w["family"] == "base58":
        keys = [_XPRV, _ACC] + [derive(_XPRV, f"m/0/{i}") for i in range(w["n"])] + \
               [xpub_from_xprv(derive(_XPRV, f"m/0/{i}")) for i in range(w["n"])]
        for k in keys:
            for spelled in (k, k.encode(), " " + k, k + " ", k.lower(), k[:-1] + ("1" if k[-1] != "1" else "2")):
                fam.append((bip32_mod._cached_base58_decode, (spelled,)))  # noqa: SLF001
    elif w["family"] == "second_generator":
        for name in ("secp256k1", "secp160r1", "secp112r1", "secp192k1"):
            for hf in (hashlib.sha256, hashlib.sha1, hashlib.sha512):
                fam.append((pedersen.second_generator, (_curve(name), hf)))
    order = fam + fam
    rng.shuffle(order)
    answered = 0
    for f, args in order:
        if not _same(f, f.__wrapped__, args):
            return False, f"{f.__wrapped__.__name__}{str(args)[:120]} differs from its undecorated self"
        try:
            f(*args)
            answered += 1
        except Exception:  # noqa: BLE001
            pass
    if answered * 4 < len(order):
        raise common.HarnessError(f"cache.vs_uncached {w['family']}: only {answered}/{len(order)} calls answered")
    return True, f"{len(order)} calls, {answered} answered"


# =============================================================================== curve identity (key-soundness of every curve-keyed cache and of the dispatch)
_INF = ("infinity",)


def _nadd(P, Q, p, a):
    """affine chord-and-tangent, None = infinity: the harness's own arithmetic, independent of btclib."""
    if P is None:
        return Q
    if Q is None:
        return P
    if P[0] == Q[0]:
        if (P[1] + Q[1]) % p == 0:
            return None
        lam = (3 * P[0] * P[0] + a) * pow(2 * P[1], -1, p) % p
    else:
        lam = (Q[1] - P[1]) * pow(Q[0] - P[0], -1, p) % p
    x = (lam * lam - P[0] - Q[0]) % p
    return x, (lam * (P[0] - x) - P[1]) % p


def _nmult(m, P, p, a):
    R = None
    while m:
        if m & 1:
            R = _nadd(R, P, p, a)
        P = _nadd(P, P, p, a)
        m >>= 1
    return R


def _order(p, a, b):
    n = p + 1
    for x in range(p):
        r = (x * x * x + a * x + b) % p
        n += 0 if r == 0 else (1 if pow(r, (p - 1) // 2, p) == 1 else -1)
    return n


def _is_prime(n):
    return n > 1 and all(n % d for d in range(2, int(n ** 0.5) + 1))


@functools.lru_cache(maxsize=None)
def _curve_pairs():
    """{component: (params1, params2)} — two constructible curves differing ONLY in that component.
    params = [p, a, b, gx, gy, n, cofactor, order_check].  No pair for b (G fixes it) nor for the cofactor
    (p and n fix it): no valid such curve exists."""
    P, G, n = secp256k1.p, secp256k1.G, secp256k1.n
    base = [P, 0, 7, G[0], G[1], n, 1, True]
    beta = next(t for t in (pow(g, (P - 1) // 3, P) for g in range(2, 50)) if t != 1)
    pairs = {"gy": (base, [P, 0, 7, G[0], P - G[1], n, 1, True]),
             "gx": (base, [P, 0, 7, beta * G[0] % P, G[1], n, 1, True])}
    primes = [q for q in range(211, 1200) if _is_prime(q)]
    # p: y^2 = x^3 + x + 7 through (1, 3), the same prime order over two fields
    seen = {}
    for q in primes:
        if (4 + 27 * 49) % q == 0:
            continue
        o = _order(q, 1, 7)
        if _is_prime(o) and o != q:
            if o in seen and "p" not in pairs:
                pairs["p"] = ([seen[o], 1, 7, 1, 3, o, 1, True], [q, 1, 7, 1, 3, o, 1, True])
            seen.setdefault(o, q)
    # a: G = (0, y) lies on y^2 = x^3 + a x + y^2 for every a
    for q in primes[:40]:
        y = 5
        by_order = {}
        for a in range(1, 60):
            if (4 * a ** 3 + 27 * (y * y) ** 2) % q == 0:
                continue
            o = _order(q, a, y * y % q)
            if _is_prime(o) and o != q:
                if o in by_order and "a" not in pairs:
                    pairs["a"] = ([q, by_order[o], y * y % q, 0, y, o, 1, True], [q, a, y * y % q, 0, y, o, 1, True])
                by_order.setdefault(o, a)
        if "a" in pairs:
            break
    # n: the true order, and another prime of the Hasse interval taken on trust (order_check=False)
    c = pairs["p"][0]
    other = next(k for k in range(c[5] + 1, c[5] + 60) if _is_prime(k) and k != c[0])
    pairs["n"] = (c, c[:5] + [other, 1, False])
    return pairs


def _mk_curve(c):
    return Curve(c[0], c[1], c[2], (c[3], c[4]), c[5], c[6], weakness_check=False, order_check=c[7], name="probe")


def _o_curve_identity(w):
    """Two curves differing in one component of their identity are different keys, and every memoised or
    backend-dispatching API, called alternately on the two (cold, warm, across backend flips), answers each
    curve's own reference — computed by the harness's own affine arithmetic."""
    comp, c1, c2 = w["component"], w["c1"], w["c2"]
    rng = random.Random(w["seed"])
    with _flag(None):
        _clear_all()
        ecs = [_mk_curve(c1), _mk_curve(c2)]
        conflated = None      # reported only if no API is caught answering wrongly because of it
        if ecs[0] == ecs[1] or ecs[1] == ecs[0] or not (ecs[0] != ecs[1]) or len({ecs[0]: 1, ecs[1]: 2}) != 2:
            conflated = f"curves differing only in {comp} compare equal / are one cache key: {str(c1[:7])[:90]} vs {str(c2[:7])[:90]}"
        big = c1[0] > 2 ** 200
        ms = [rng.randrange(1, 2 ** 250 if big else 2 ** 20) for _ in range(2 if big else 4)]
        for cond in w["conds"]:
            if cond == "clear":
                _clear_all()
            elif cond in ("flag0", "flag1"):
                if INSTALLED or cond == "flag0":
                    set_serving(serving=cond == "flag1")
            for m in ms:
                for ec, c in ((ecs[0], c1), (ecs[1], c2), (ecs[0], c1)):
                    p, a, G, n = c[0], c[1], (c[3], c[4]), c[5]
                    def ref(k, P=G):
                        r = _nmult(k % n, P, p, a)
                        return _INF if r is None else r
                    k = m % 97 + 2
                    Pk = ref(k)
                    checks = [("mult(m)", lambda: mult(m, None, ec), ref(m)),
                              ("mult(m, P)", lambda: mult(m, Pk, ec), ref(m, Pk)),
                              ("PreparedPoint.mult", lambda: PreparedPoint(Pk, ec).mult(m), ref(m, Pk)),
                              ("double_mult_var", lambda: double_mult_var(m, G, k, Pk, ec),
                               (lambda r: _INF if r is None else r)(_nadd(_nmult(m % n, G, p, a), _nmult(k % n, Pk, p, a), p, a))),
                              ("multi_mult_var", lambda: multi_mult_var([m, k, 3], [G, Pk, G], ec),
                               # term by term, each scalar reduced on its own: on the pair whose second `n` is taken on trust n*G is not infinity
                               (lambda r: _INF if r is None else r)(_nadd(_nadd(_nmult(m % n, G, p, a), _nmult(k % n, Pk, p, a), p, a),
                                                                            _nmult(3 % n, G, p, a), p, a))),
                              ("dsa.gen_keys", lambda: dsa.gen_keys(m % n or 1, ec)[1], ref(m % n or 1))]
                    if big:
                        q = m % n or 1
                        msg = _h("curve", m)
                        checks.append(("dsa sign/verify", lambda: dsa.verify_(msg, ref(q), dsa.sign_(msg, q, ec=ec)), True))
                        checks.append(("ssa.gen_keys", lambda: ssa.gen_keys(q, ec)[1], ref(q)[0]))
                    for name, f, want in checks:
                        try:
                            got = f()
                        except Exception as e:  # noqa: BLE001
                            return False, f"{name} on the {comp}-variant curve raised {type(e).__name__}: {e} (after `{cond}`)"
                        got = tuple(got) if isinstance(got, (tuple, list)) else got
                        if isinstance(got, tuple) and len(got) == 2 and got[1] == 0:
                            got = _INF      # btclib spells infinity as a point with y = 0; the reference as a marker
                        if got != want:
                            which = "second" if c is c2 else "first"
                            return False, (f"{name} with m={m} on the {which} curve of the `{comp}` pair answered {str(got)[:70]} "
                                           f"after `{cond}` (serving={is_serving()}), its own reference is {str(want)[:70]}"
                                           + ("; the two curves compare equal" if conflated else ""))
                    for f, args in ((cg._cached_multiples, ((*Pk, 1), ec)),  # noqa: SLF001
                                    (cg._cached_fixed_base_multiples, (ec.GJ, ec, 4)),  # noqa: SLF001
                                    (cg._cached_odd_multiples_aff, (ec.GJ, ec, 4))):  # noqa: SLF001
                        if not _same(f, f.__wrapped__, args):
                            return False, f"{f.__wrapped__.__name__} on the `{comp}` pair differs from its undecorated self"
    if conflated:
        return False, conflated
    return True, f"{comp}: {len(w['conds'])} conditions x {len(ms)} scalars x 3 alternations"


# =============================================================================== threads (a search)
def _thread_pool(seed):
    rng = random.Random(seed)
    ents = [_h("ent", seed, i)[:16].hex() for i in range(4)]
    pool = []
    for i in range(6):
        pool.append(["mult", "secp256k1", rng.getrandbits(255), None])
        pool.append(["mult", "secp256k1", rng.getrandbits(255), rng.randrange(2, 50)])
        pool.append(["prepared", "secp256k1", rng.getrandbits(200), 1000 + seed * 10 + i % 3])
        pool.append(["double_mult", "secp160r1", rng.getrandbits(150), 1, rng.getrandbits(150), 2000 + seed + i % 2])
        pool.append(["multi_mult", "secp112r1", [rng.getrandbits(100) for _ in range(4)], [3, 5, 7, 3000 + seed]])
        pool.append(["derive", _XPRV, f"m/{rng.randrange(50)}h/{i}"])
        pool.append(["derive", _ACC, f"m/{i % 2}/{rng.randrange(9)}"])
        pool.append(["mnemonic", rng.choice(["en", "it", "es", "fr"]), rng.choice(ents)])
        pool.append(["session_values", rng.randrange(3)])
        pool.append(["psig_verify", rng.choice([0, 1, 2, 6, 7]), 0, False])
        pool.append(["ssa", rng.randrange(1, 2**64), _h("m", i).hex()])
        pool.append(["dsa", rng.randrange(1, 2**64), _h("m", i).hex()])
        pool.append(["second_generator", rng.choice(["secp256k1", "secp160r1"])])
    return pool


def _o_threads(w):
    seed, nthreads = w["seed"], w.get("threads", 8)
    pool = _thread_pool(seed)
    with _flag(None):
        _clear_all()
        _CTX_SHARED.clear()
        seq = [json.loads(json.dumps(_eval(d))) for d in pool]          # sequential answers
        _clear_all()
        _CTX_SHARED.clear()
        wl = WordLists()                                                # a fresh lazy word-list, loaded concurrently
        bad: list[str] = []
        start = threading.Barrier(nthreads)

        def worker(tid):
            rng = random.Random(seed * 1000 + tid)
            order = list(range(len(pool)))
            rng.shuffle(order)
            start.wait()
            for n, k in enumerate(order):
                if w.get("flips", True) and tid == 0 and n % 5 == 0:
                    set_serving(serving=(n // 5) % 2 == 1 and INSTALLED)
                if tid == 1 and n % 7 == 0:
                    _clear_all()
                try:
                    if n % 11 == 0:
                        wl.load_lang("en")
                        if len(wl._wordlist["en"]) != 2048:  # noqa: SLF001
                            bad.append(f"thread {tid}: word-list of {len(wl._wordlist['en'])} words")  # noqa: SLF001
                    got = json.loads(json.dumps(_eval(pool[k])))
                except Exception as e:  # noqa: BLE001
                    bad.append(f"thread {tid}: {pool[k][:2]} raised {type(e).__name__}: {e}")
                    continue
                if got != seq[k]:
                    bad.append(f"thread {tid}: {pool[k]} answered {str(got)[:60]} vs sequential {str(seq[k])[:60]}")

        old = sys.getswitchinterval()
        sys.setswitchinterval(1e-6)
        try:
            ts = [threading.Thread(target=worker, args=(i,)) for i in range(nthreads)]
            for t in ts:
                t.start()
            for t in ts:
                t.join()
        finally:
            sys.setswitchinterval(old)
    return not bad, (bad[0] if bad else f"{nthreads} threads x {len(pool)} calls agree with the sequential answers")


# =============================================================================== threads: COLD START (a search)
def _purge_lazy():
    """put every lazily initialised piece of state back to "never used" (what a fresh interpreter has)."""
    from btclib.mnemonic import electrum as el  # noqa: PLC0415
    from btclib.mnemonic import mnemonic as mn  # noqa: PLC0415
    _clear_all()
    _CTX_SHARED.clear()
    for wl in (mn.WORDLISTS, el.ELECTRUM_WORDLISTS):
        for lang in list(wl.languages):
            wl._language_length[lang] = 0  # noqa: SLF001
            wl._wordlist[lang] = []  # noqa: SLF001
            wl._index[lang] = {}  # noqa: SLF001
    for f in (el._old_wordlist, el._old_word_indexes):  # noqa: SLF001
        f.cache_clear()


def _cold_pool(seed):
    """first uses of the lazy entry points: each thread makes the same calls, all for the first time at once."""
    from btclib.mnemonic import mnemonic as mn  # noqa: PLC0415
    rng = random.Random(seed)
    langs = rng.sample(["en", "it", "es", "fr", "ja", "cs", "pt", "ko", "zh-cn", "zh-tw"], 3)
    pool = []
    for lang in langs:
        if lang not in mn.WORDLISTS.languages:
            continue
        ent = _h("cold", seed, lang)[:16].hex()
        pool.append(["lookup", lang, ent])           # word -> index on a language nobody has loaded yet
        pool.append(["mnemonic", lang, ent])
    pool.append(["derive", _XPRV, f"m/{rng.randrange(50)}h/1"])
    pool.append(["derive", _ACC, f"m/0/{rng.randrange(50)}"])
    pool.append(["prepared", "secp256k1", rng.getrandbits(200), 4000 + seed % 7])     # a new point's tables
    pool.append(["mult", "secp256k1", rng.getrandbits(255), None])                     # the generator's tables
    pool.append(["double_mult", "secp160r1", rng.getrandbits(150), 1, rng.getrandbits(150), 5000 + seed % 5])
    pool.append(["session_values", rng.randrange(3)])                                  # SessionContext._values, shared ctx
    pool.append(["psig_verify", rng.choice([0, 1, 7]), 0, False])                      # _bindings_ctx, shared ctx
    pool.append(["second_generator", "secp160r1"])
    return pool


def _eval_cold(d):
    if d[0] == "lookup":
        words = bip39.mnemonic_from_entropy(bytes.fromhex(d[2]), d[1]).split()
        from btclib.mnemonic import mnemonic as mn  # noqa: PLC0415
        return [mn.WORDLISTS.index(wd, d[1]) for wd in words] + list(mn.indexes_from_mnemonic(" ".join(words), d[1]))
    if d[0] == "session_values":
        v = musig2.session_values(_ctx(d[1], fresh=False))
        return [list(v.Q), v.gacc, v.tacc, v.b, list(v.R), v.e]
    return _eval(d)


def _cold_start_child(cfg):
    """runs in a fresh interpreter: `reps` rounds; in each, the lazy state is purged and N threads, released by a
    barrier, all make the pool's calls for the first time; answers against the sequential ones."""
    seed, reps, nthreads = cfg["seed"], cfg["reps"], cfg["threads"]
    bad = []
    old = sys.getswitchinterval()
    for rep in range(reps):
        pool = _cold_pool(seed * 1000 + rep)
        if INSTALLED:
            set_serving(serving=(rep % 3 != 2))       # a third of the rounds build the Python arm's tables
        ref = [json.loads(json.dumps(_eval_cold(d))) for d in pool]      # sequential (this also warms; purged next)
        _purge_lazy()
        start = threading.Barrier(nthreads)

        def worker(tid, pool=pool, ref=ref, rep=rep, start=start):
            order = list(range(len(pool)))
            if tid % 2:                                # half the threads walk the pool the other way round
                order.reverse()
            start.wait()
            for k in order:
                try:
                    got = json.loads(json.dumps(_eval_cold(pool[k])))
                except Exception as e:  # noqa: BLE001
                    bad.append(f"round {rep} thread {tid}: {pool[k][:2]} raised {type(e).__name__}: {str(e)[:80]}")
                    continue
                if got != ref[k]:
                    bad.append(f"round {rep} thread {tid}: {pool[k][:2]} answered {str(got)[:50]} vs sequential {str(ref[k])[:50]}")

        sys.setswitchinterval(1e-6)
        try:
            ts = [threading.Thread(target=worker, args=(i,)) for i in range(nthreads)]
            for t in ts:
                t.start()
            for t in ts:
                t.join()
        finally:
            sys.setswitchinterval(old)
        if len(bad) > 5:
            break
    return {"bad": bad[:6], "reps": reps}


# ---- forced windows: a reader is put INSIDE every publishing step of every lazy filler
_INIT_NAMES = {"__init__", "__post_init__", "__new__", "__setstate__", "__init_subclass__", "__set_name__"}


def _publishing_lines():
    """{code object: {line numbers}} for every function of btclib (constructors excluded) with a statement that PUBLISHES
    state other callers read: a store into a container held by the instance (`self.x[k] = v`, `self.x.append(..)`), into
    `self.__dict__` / `vars(self)` (or a local alias), into a module-level container, or `object.__setattr__(arg, ..)`.
    Found by AST over every module of the package, resolved to the live code objects."""
    import ast  # noqa: PLC0415
    import importlib  # noqa: PLC0415
    import pkgutil  # noqa: PLC0415
    import btclib  # noqa: PLC0415
    mut = _plugin()._MUTATORS  # noqa: SLF001
    out = {}
    for mi in pkgutil.walk_packages(btclib.__path__, "btclib."):
        m = importlib.import_module(mi.name)
        f = getattr(m, "__file__", None)
        if not f or not f.endswith(".py"):
            continue
        tree = ast.parse(open(f).read())
        modnames = {t.id for st in tree.body if isinstance(st, (ast.Assign, ast.AnnAssign))
                    for t in (st.targets if isinstance(st, ast.Assign) else [st.target]) if isinstance(t, ast.Name)}

        def visit(node, path, m=m, modnames=modnames):
            for ch in ast.iter_child_nodes(node):
                if isinstance(ch, ast.ClassDef):
                    visit(ch, path + [ch.name])
                elif isinstance(ch, (ast.FunctionDef, ast.AsyncFunctionDef)):
                    if ch.name not in _INIT_NAMES:
                        lines = _fn_publishing_lines(ch, modnames, mut)
                        if lines:
                            obj = m
                            for part in path + [ch.name]:
                                obj = vars(obj).get(part) if obj is not None and hasattr(obj, "__dict__") else None
                            obj = getattr(obj, "fget", obj)
                            obj = getattr(obj, "__func__", obj)
                            obj = getattr(obj, "__wrapped__", obj)
                            code = getattr(obj, "__code__", None)
                            if code is not None:
                                out[code] = lines
                    visit(ch, path + [ch.name])
        visit(tree, [])
    return out


def _fn_publishing_lines(fn, modnames, mut):
    import ast  # noqa: PLC0415
    params = [a.arg for a in fn.args.posonlyargs + fn.args.args + fn.args.kwonlyargs]
    me = params[0] if params else None
    stored = {x.id for x in ast.walk(fn) if isinstance(x, ast.Name) and isinstance(x.ctx, ast.Store)}
    aliases = set()
    for n in ast.walk(fn):
        if isinstance(n, ast.Assign) and ast.unparse(n.value) in (f"{me}.__dict__", f"vars({me})"):
            aliases |= {t.id for t in n.targets if isinstance(t, ast.Name)}

    def shared(n):      # an expression naming a container other callers can see
        if isinstance(n, ast.Attribute) and isinstance(n.value, ast.Name) and n.value.id == me and me in ("self", "cls"):
            return True
        if isinstance(n, ast.Name) and (n.id in aliases or (n.id in modnames and n.id not in stored and n.id not in params)):
            return True
        return ast.unparse(n) == f"vars({me})"

    lines = set()
    for n in ast.walk(fn):
        if isinstance(n, ast.Subscript) and isinstance(n.ctx, ast.Store) and shared(n.value):
            lines.add(n.lineno)
        if isinstance(n, ast.Call) and isinstance(n.func, ast.Attribute):
            if n.func.attr in mut and shared(n.func.value):
                lines.add(n.lineno)
            if n.func.attr == "__setattr__" and ast.unparse(n.func.value) == "object" and n.args \
                    and isinstance(n.args[0], ast.Name) and n.args[0].id in params:
                lines.add(n.lineno)
    return lines


def _forced_calls(seed, thorough):
    """first uses through the public API, grouped by the lazy state they fill: per word-list object and language (bip39,
    electrum, slip39's list), and the other fillers with a publishing step."""
    from btclib.mnemonic import electrum as el  # noqa: PLC0415
    from btclib.mnemonic import mnemonic as mn  # noqa: PLC0415
    rng = random.Random(seed)
    groups = []
    for which, wl in (("bip39", mn.WORDLISTS), ("electrum", el.ELECTRUM_WORDLISTS)):
        langs = list(wl.languages)
        if not thorough:
            langs = rng.sample(langs, 3)
        for lang in langs:
            ent = _h("forced", seed, which, lang)[:16].hex()
            calls = [["wl_len", which, lang], ["wl_roundtrip", which, lang], ["wl_words", which, lang]]
            if which == "bip39" and wl.language_length(lang) == 2048:
                calls += [["mnemonic", lang, ent], ["entropy", lang, bip39.mnemonic_from_entropy(bytes.fromhex(ent), lang)]]
            if which == "electrum":
                calls += [["el_roundtrip", lang, int(ent, 16) % 2**120]]
            groups.append(calls)
    groups.append([["ellswift", "secp192k1", _ELL[:48].hex()], ["ellswift", "secp256k1", _ELL.hex()]])
    groups.append([["session_values", 1], ["psig_verify", 1, 0, False]])
    groups.append([["electrum_old", "00112233445566778899aabbccddeeff"]])
    return groups


def _eval_forced(d):
    from btclib.mnemonic import electrum as el  # noqa: PLC0415
    from btclib.mnemonic import mnemonic as mn  # noqa: PLC0415
    if d[0].startswith("wl_"):
        wl = mn.WORDLISTS if d[1] == "bip39" else el.ELECTRUM_WORDLISTS
        if d[0] == "wl_len":
            return wl.language_length(d[2])
        if d[0] == "wl_words":
            ws = wl.wordlist(d[2])
            return [len(ws), ws[0], ws[-1], wl.index(ws[7], d[2])]
        m_ = mn.mnemonic_from_indexes([5, 1, 7, 0], d[2], wl)
        return [m_, list(mn.indexes_from_mnemonic(m_, d[2], wl))]
    if d[0] == "el_roundtrip":
        m_ = el._mnemonic_from_int_entropy(d[2], d[1])  # noqa: SLF001
        return [m_, el._bin_str_entropy_from_mnemonic(m_, d[1])]  # noqa: SLF001
    return _eval_cold(d)


def _forced_child(cfg):
    """for each group of first uses and each kind of reader: purge; one thread makes the first use with a LINE hook on every
    publishing statement of every filler (sys.monitoring); at each such statement -- state half published -- the hook
    releases ONE fresh reader thread and waits a moment for it: a correct filler makes it wait for the lock (or compute its
    own), a lock-free shortcut lets it read what is not all there yet.  Every answer must be the sequential one."""
    import time  # noqa: PLC0415
    seed, thorough = cfg["seed"], cfg.get("thorough", False)
    lines = _publishing_lines()
    mon = sys.monitoring
    tool = 3
    bad, windows = [], 0
    sys.setswitchinterval(1e-6)
    mon.use_tool_id(tool, "c20-forced-window")
    state = {"readers": []}

    def on_line(code, line):
        if line not in lines.get(code, ()):
            return mon.DISABLE
        if state["readers"]:
            ev, th = state["readers"].pop()
            state["windows"] = state.get("windows", 0) + 1
            ev.set()
            th.join(0.004)          # it either finishes (on whatever it could read) or is waiting for the lock
        else:
            time.sleep(0)
        return None

    mon.register_callback(tool, mon.events.LINE, on_line)
    for code in lines:
        mon.set_local_events(tool, code, mon.events.LINE)
    try:
        for calls in _forced_calls(seed, thorough):
            if INSTALLED:
                set_serving(serving=False)
            ref = {json.dumps(d): json.loads(json.dumps(_eval_forced(d))) for d in calls}
            for reader in calls:
                loader = calls[(calls.index(reader) + 1) % len(calls)]
                _purge_lazy()

                def run(d, who, gate=None):
                    if gate is not None:
                        gate.wait()
                    try:
                        got = json.loads(json.dumps(_eval_forced(d)))
                    except Exception as e:  # noqa: BLE001
                        bad.append({"loader": loader, "reader": reader, "who": who,
                                    "what": f"{d[:3]} raised {type(e).__name__}: {str(e)[:90]}"})
                        return
                    if got != ref[json.dumps(d)]:
                        bad.append({"loader": loader, "reader": reader, "who": who,
                                    "what": f"{d[:3]} answered {str(got)[:60]}, alone it answers {str(ref[json.dumps(d)])[:60]}"})

                pool = []
                for k in range(cfg.get("threads", 8) - 1):
                    ev = threading.Event()
                    th = threading.Thread(target=run, args=(reader, f"reader {k} released inside a publishing step", ev))
                    th.start()
                    pool.append((ev, th))
                state["readers"] = list(pool)
                lt = threading.Thread(target=run, args=(loader, "the thread making the first use"))
                lt.start()
                lt.join()
                state["readers"] = []
                for ev, th in pool:
                    ev.set()
                for ev, th in pool:
                    th.join()
                if len(bad) > 3:
                    break
            if len(bad) > 3:
                break
    finally:
        for code in lines:
            mon.set_local_events(tool, code, 0)
        mon.register_callback(tool, mon.events.LINE, None)
        mon.free_tool_id(tool)
    return {"bad": bad[:4], "windows": state.get("windows", 0), "fillers": len(lines)}


def _o_forced_window(w):
    """every publishing step of every lazy filler, with a reader released inside it (deterministic, not by luck)."""
    p = subprocess.run([sys.executable, "-m", "harness.c20", "--forced"], input=json.dumps(w).encode(),
                       stdout=subprocess.PIPE, stderr=subprocess.PIPE, cwd=common.ROOT, timeout=1800)
    if p.returncode != 0:
        raise common.HarnessError("forced-window subprocess failed: " + p.stderr.decode()[-600:])
    r = json.loads(p.stdout.decode().strip().split("\n")[-1])
    if r["bad"]:
        b = r["bad"][0]
        return False, (f"first use {b['loader'][:3]} in one thread, {b['reader'][:3]} from a thread released inside a publishing step "
                       f"of the filler: {b['who']}: {b['what']}")
    if r["windows"] == 0:
        return False, "no publishing step of any filler was reached: the hook is not attached to the code that runs"
    return True, f"{r['windows']} readers released inside publishing steps of {r['fillers']} functions with one; all answers sequential"


def _o_cold_start(w):
    """a SEARCH over schedules (not a proof): a fresh interpreter, first uses made concurrently."""
    p = subprocess.run([sys.executable, "-m", "harness.c20", "--coldstart"], input=json.dumps(w).encode(),
                       stdout=subprocess.PIPE, stderr=subprocess.PIPE, cwd=common.ROOT, timeout=1800)
    if p.returncode != 0:
        raise common.HarnessError("cold-start subprocess failed: " + p.stderr.decode()[-400:])
    r = json.loads(p.stdout.decode().strip().split("\n")[-1])
    return not r["bad"], (r["bad"][0] if r["bad"] else f"{r['reps']} rounds x {w['threads']} threads: every first use agrees")


ORACLES = {
    "nonce.single_use": _o_nonce_single_use,
    "nonce.psbt_partial_sign": _o_psbt_partial_sign,
    "nonce.spellings": _o_nonce_spellings,
    "signer.wiped_dead": _o_signer_dead,
    "softsigner.closed_never_signs": _o_soft_closed,
    "softsigner.closed_refuses_reaching": _o_soft_closed_generic,
    "wallet.invariant": _o_wallet_invariant,
    "backend.captured_objects": _o_captured_objects,
    "cache.independent": _o_cache_independent,
    "cache.key_sound": _o_key_sound,
    "cache.vs_uncached": _o_vs_uncached,
    "cache.inventory": _o_cache_inventory,
    "cache.answer_not_aliased": _o_cached_answer_not_aliased,
    "curve.identity": _o_curve_identity,
    "threads.search": _o_threads,
    "threads.cold_start": _o_cold_start,
    "threads.forced_window": _o_forced_window,
}


# =============================================================================== run
def _all_histories(alphabet, depth):
    return [list(p) for p in itertools.product(alphabet, repeat=depth)]


def _nt(line, out):
    return any(not r.startswith("err") for r in out[3:].split(";")) if out.startswith("ok ") else False


def run(ctx):
    rng = ctx.rng
    thorough = ctx.tier == "thorough"
    try:
        _run(ctx, rng, thorough)
    finally:
        if INSTALLED:
            set_serving(serving=True)


def _lap(ctx, name, t=[0.0]):  # noqa: B006 - section timings into the evidence
    import time  # noqa: PLC0415
    now = time.time()
    if name:
        ctx.count("seconds", name, round(now - t[0], 1))
    t[0] = now


def _run(ctx, rng, thorough):
    _lap(ctx, None)
    # ---------------------------------------------------------------- nonce
    variants = ["real", "real", "real", "k1zero", "k2n", "short", "badtail", "spent", "long"]
    kinds = ["right", "right", "other", "zero", "n", "neg", "stranger"]
    depth = 6 if thorough else 4
    cases = []
    for sid0, j in ((0, 0), (1, 2), (5, 0), (6, 1)) if thorough else ((1, 2),):
        alpha = [_sign_op(sid0, _prv(sid0, j, "right")), _sign_op(sid0, _prv(sid0, j, "other")),
                 _sign_op(3, _prv(sid0, j, "right")), _sign_op((sid0 + 1) % 3, _prv(sid0, j, "right")), "P"]
        n0 = _nonce0(sid0, j, "real")
        for ops in _all_histories(alpha, depth):
            cases.append((f"nonce {common.hx(n0)} {';'.join(ops)}", _fmt(_nonce_run(n0, ops))))
    ctx.correspond("nonce.all", EXE, cases, nontrivial=_nt)
    ctx.exhaustive_streams.append(f"nonce.all: every history of length {depth} over 5 ops (sign right key, sign other "
                                  "key, sign unassembled session, sign other session, peek)")
    cases = []
    for _ in range(ctx.n(250, 3000)):
        sid0 = rng.randrange(N_SESSIONS)
        j = rng.randrange(3)
        n0 = _nonce0(sid0, j, rng.choice(variants))
        ops = []
        wit = []
        for _ in range(rng.randrange(1, 9)):
            if rng.random() < 0.15:
                ops.append("P")
                continue
            osid = sid0 if rng.random() < 0.7 else rng.randrange(N_SESSIONS)
            kind = rng.choice(kinds)
            ops.append(_sign_op(osid, _prv(osid if kind != "right" else sid0, j, kind)))
            wit.append([osid, kind])
            ctx.count("nonce.ops", f"{kind}/{'same' if osid == sid0 else 'other'}-session")
        fresh = rng.random() < 0.5
        cases.append((f"nonce {common.hx(n0)} {';'.join(ops)}", _fmt(_nonce_run(n0, ops, fresh_ctx=fresh))))
    ctx.correspond("nonce.random", EXE, cases, nontrivial=_nt)
    pdepth = 6 if thorough else 4
    cases = []
    for k in (0, 1, 2) if thorough else (rng.randrange(3),):
        alpha = [_psbt_sign_op("right", k), _psbt_sign_op("other", k), _psbt_sign_op("stranger", k), _psbt_sign_op("noagg", k), "P"]
        n0 = _psbt_session()[1][k]
        for ops in _all_histories(alpha, pdepth if k == 0 or not thorough else 4):
            cases.append((f"nonce {common.hx(n0)} {';'.join(ops)}", _fmt(_nonce_run(n0, ops))))
    ctx.correspond("nonce.psbt_partial_sign.all", EXE, cases, nontrivial=_nt)
    ctx.exhaustive_streams.append(f"nonce.psbt_partial_sign.all: every history of length {pdepth} over psbt.musig2.partial_sign with "
                                  "the right key, another participant's key, a stranger's key, a wrong aggregate key, and peek")
    for _ in range(ctx.n(40, 600)):
        ctx.check("nonce.psbt_partial_sign", {"k": rng.randrange(3), "ops": [rng.choice(["right", "right", "other", "stranger", "noagg"])
                                                                             for _ in range(rng.randrange(1, 7))]})
    # every spelling of the caller-held nonce through both entry points, different sessions included
    sdepth = 4 if thorough else 3     # 7 ops x 5 spellings: length 5 alone cost 6 min of the thorough tier
    cases = []
    for spelling in SPELLINGS:
        k = rng.randrange(3)
        alpha = [_psbt_q_op("right", k), _psbt_q_op("right", k, "psbtB"), _psbt_q_op("other", k),
                 _sign_op_ctx(lambda: _psbt_ctx("psbtx"), PSBT_KEYS[k], "psbtx"),
                 _sign_op_ctx(lambda: _psbt_ctx("psbtxB"), PSBT_KEYS[k], "psbtxB"), _psbt_q_op("stranger", k), "P"]
        n0 = _psbt_session()[1][k]
        for ops in _all_histories(alpha, sdepth):
            cases.append((f"noncek {spelling} {common.hx(n0)} {';'.join(ops)}", _fmt(_noncek_run(spelling, n0, ops))))
        # the ecc pool too: two sessions on the same keys (0 and 6), short and long buffers
        for sid0, other in ((0, 6), (1, 7)):
            for variant in ("real", "short", "long", "spent"):
                n1 = _nonce0(sid0, 0, variant)
                for ops in _all_histories([_sign_op(sid0, _prv(sid0, 0, "right")), _sign_op(other, _prv(sid0, 0, "right")),
                                           _sign_op(3, _prv(sid0, 0, "right"))], 3):
                    cases.append((f"noncek {spelling} {common.hx(n1)} {';'.join(ops)}", _fmt(_noncek_run(spelling, n1, ops))))
    ctx.correspond("nonce.spellings.all", EXE, cases, nontrivial=lambda ln, o: "sig:" in o)
    ctx.exhaustive_streams.append(f"nonce.spellings.all: for each of {list(SPELLINGS)}, every history of length {sdepth} over "
                                  "partial_sign (session A, different session B, other key, stranger), musig2.sign (A, B), peek")
    for spelling in SPELLINGS:
        for _ in range(ctx.n(6, 60)):
            pool = rng.choice(["psbt", "ecc"])
            if pool == "psbt":
                att = [[rng.choice(["psbt", "ecc"]), rng.choice(["psbt", "psbtB"])] for _ in range(rng.randrange(2, 6))]
                wit = {"spelling": spelling, "pool": "psbt", "k": rng.randrange(3), "attempts": att}
            else:
                sid0 = rng.choice([0, 1])
                att = [["ecc", rng.choice([sid0, sid0 + 6])] for _ in range(rng.randrange(2, 6))]
                wit = {"spelling": spelling, "pool": "ecc", "sid": sid0, "k": rng.randrange(2), "attempts": att}
            ctx.check("nonce.spellings", wit)
            ctx.count("nonce.spellings", spelling)
    for _ in range(ctx.n(150, 2000)):
        sid0, j = rng.randrange(N_SESSIONS), rng.randrange(3)
        ops = [[sid0 if rng.random() < 0.7 else rng.randrange(N_SESSIONS), rng.choice(kinds)]
               for _ in range(rng.randrange(1, 7))]
        ctx.check("nonce.single_use", {"sid": sid0, "j": j, "variant": rng.choice(variants), "ops": ops})

    _lap(ctx, "nonce")
    # ---------------------------------------------------------------- signers
    core = ["S1", "S0", "W", "E", "X"]
    for kind in ("dsa", "ssa"):
        for delegated in ((True, False) if INSTALLED else (False,)):
            d = (6 if delegated else 4) if thorough else (4 if delegated else 3)
            cases = []
            for ops in _all_histories(core, d):
                cases.append((f"signer {kind} {int(delegated)} {';'.join(ops)}", _fmt(_signer_run(kind, delegated, ops))))
            ctx.correspond(f"signer.all.{kind}.{'delegated' if delegated else 'python'}", EXE, cases, nontrivial=_nt)
            ctx.exhaustive_streams.append(f"signer.all.{kind}.{'delegated' if delegated else 'python'}: every history "
                                          f"of length {d} over sign_(ok), sign_(bad arg), wipe, __enter__, __exit__")
    cases = []
    for _ in range(ctx.n(80, 1200)):
        kind, delegated = rng.choice(["dsa", "ssa"]), (rng.random() < 0.7 and INSTALLED)
        ops = [rng.choice(core + ["S1", "S1", "F0", "F1"]) for _ in range(rng.randrange(1, 12))]
        if rng.random() < 0.5:   # most histories should reach a signature before they die
            ops = [o for o in ops if o not in ("W", "X")] + [rng.choice(["W", "X"])] + \
                  [rng.choice(core + ["F0", "F1"]) for _ in range(rng.randrange(0, 5))]
        cases.append((f"signer {kind} {int(delegated)} {';'.join(ops)}", _fmt(_signer_run(kind, delegated, ops))))
        ctx.check("signer.wiped_dead", {"kind": kind, "delegated": delegated, "ops": ops})
    ctx.correspond("signer.random", EXE, cases, nontrivial=_nt)

    _lap(ctx, "signers")
    # ---------------------------------------------------------------- software signer
    salpha = ["C", "xpub:1", "sign_message:1", "sign_ecdsa:1", "sign_schnorr_script_path:1", "sign_psbt:1"]
    d = 5 if thorough else 3
    cases = [(f"soft {';'.join(ops)}", _fmt(_soft_run(ops))) for ops in _all_histories(salpha, d)]
    ctx.correspond("soft.all", EXE, cases, nontrivial=_nt)
    ctx.exhaustive_streams.append(f"soft.all: every history of length {d} over close and five methods")
    cases = []
    sall = ["C"] + [f"{m}:1" for m in SOFT_METHODS] + ["xpub:0", "sign_message:0", "display_address:0"]
    for _ in range(ctx.n(60, 800)):
        ops = [rng.choice(sall) for _ in range(rng.randrange(1, 10))]
        cases.append((f"soft {';'.join(ops)}", _fmt(_soft_run(ops))))
    ctx.correspond("soft.random", EXE, cases, nontrivial=_nt)
    # found by this oracle on /repo before 6b38e831 (the three KeyManager methods did not call _assert_open);
    # the key is kept stable so that a regression is recognised as the same finding
    for m in SIGNING:
        for before in ([], ["xpub"], [m]):
            ctx.check("softsigner.closed_never_signs", {"method": m, "before": before},
                      key="softwaresigner-closed-still-signs-through-keymanager" if m.startswith("sign_ecdsa") or
                      m.startswith("sign_schnorr") else None)

    # every method the translator's reachability analysis puts in the guard theorem, called on a closed signer
    reaching = _plugin().software_signer_signing()
    for m in reaching:
        ctx.check("softsigner.closed_refuses_reaching", {"method": m}, key=f"softwaresigner-closed-still-answers-{m}")
        ctx.count("softsigner.reaching_methods", m)
    unknown = [m for m in reaching + [n for n, _ in _plugin().software_signer_guards()] if m not in SOFT_METHODS]
    if unknown:
        ctx.note(f"SoftwareSigner has public methods this harness has no call shape for: {sorted(set(unknown))} (they are in the "
                 "guard theorem and the generic closed-signer oracle, not in the soft.* streams)")

    _lap(ctx, "software_signer")
    # ---------------------------------------------------------------- wallets
    fa, fk = _tok(FOREIGN_ADDR), _tok(_foreign_key_addr())
    alphabets = {
        "0,1": ["A:0:0", "A:0:2", "A:1:1", "A:7:0", "A:0:-1", "N:0", "N:1"],
        "0,3,5": ["A:0:1", "A:3:1", "A:5:0", "A:5:1", "N:0", "N:3", "N:5"],
        "0,2": ["A:0:0", "A:2:0", "N:0", "N:2", "A:0:3"],
    }
    for cfg, alpha in alphabets.items():
        d = 6 if thorough else 4
        if thorough and len(alpha) > 6:
            d = 6 if cfg == "0,1" else 5
        cs = _wallet_all(cfg, alpha, d)
        for k in range(0, len(cs), 20000):
            ctx.correspond(f"wallet.all.{cfg}", EXE, cs[k:k + 20000], nontrivial=_nt)
        ctx.exhaustive_streams.append(f"wallet.all.{cfg}: every history of length {d} over {alpha}")
    t01 = _tok(_ref_entry("0,1", 0, 1))
    kalpha = ["A:0:1", "K:!", f"K:{t01}", f"K:{fk}", "N:0", f"I:{t01}"]     # loose keys: refused, colliding with a position, foreign
    cs = _wallet_all("0,1", kalpha, 5 if thorough else 4)
    ctx.correspond("wallet.all.0,1.keys", EXE, cs, nontrivial=_nt)
    ctx.exhaustive_streams.append(f"wallet.all.0,1.keys: every history of length {5 if thorough else 4} over {kalpha}")
    cases = []
    for _ in range(ctx.n(150, 2500)):
        cfg = rng.choice(list(WALLETS))
        branches = [int(x) for x in cfg.split(",")]
        ops = []
        for _ in range(rng.randrange(1, 14)):
            r = rng.random()
            b = rng.choice(branches + [rng.choice([-1, 4, 9])] if rng.random() < 0.15 else branches)
            if r < 0.35:
                i = rng.choice([0, 1, 2, 3, 5, 6]) if rng.random() < 0.85 else rng.choice([-1, -7, 65535, 65536, 70000])
                ops.append(f"A:{b}:{i}")
            elif r < 0.6:
                ops.append(f"N:{b}")
            else:
                pb, pi = rng.choice(branches), rng.randrange(7)
                e = _ref_entry(cfg, pb, pi)
                tok = fa if (e in ("!", "~") or rng.random() < 0.2) else _tok(e)
                k = rng.choice(["P", "I", "C", "L", "K"] if cfg == "0,1" else ["P", "I", "C", "L"])
                if k == "K" and tok == fa:
                    tok = fk if rng.random() < 0.6 else "!"
                ops.append({"P": f"P:{tok}:{rng.choice([0, 3, 6])}", "I": f"I:{tok}", "C": f"C:{tok}", "L": "L",
                            "K": f"K:{tok}"}[k])
        cases.append((_wallet_line(cfg, ops), _fmt(_wallet_run(cfg, ops))))
        ctx.check("wallet.invariant", {"cfg": cfg, "ops": ops})
        ctx.count("wallet.cfg", cfg)
    ctx.correspond("wallet.random", EXE, cases, nontrivial=_nt)

    _lap(ctx, "wallets")
    # ---------------------------------------------------------------- memo: the LRU instance is functools'
    cases = []
    for _ in range(ctx.n(150, 3000)):
        ms = rng.choice([1, 2, 3, 5, 8])
        ops = [("clr" if rng.random() < 0.05 else f"c{rng.randrange(-3, ms + 4)}") for _ in range(rng.randrange(1, 40))]
        cases.append((f"memo {ms} {';'.join(ops)}", _fmt(_memo_run(ms, ops))))
    ctx.correspond("memo.lru", EXE, cases)

    _lap(ctx, "memo")
    # ---------------------------------------------------------------- backend flag; objects holding a bindings object
    if INSTALLED:
        d = 5 if thorough else 4
        deep = "dsc"[ctx.seed % 3]        # one class at full depth (by seed), the other two one shorter
        for kinds in "dsc":
            balpha = ["T1", "F", "B1", "B2", "U0", "U1", "C1"] + (["D0"] if kinds == "c" else [])
            dk = d if kinds == deep else d - 1
            cases = []
            # quick: the full-depth class starts from one flag value (by seed); a history opening with a flip covers the other
            for flag0 in ((True, False) if (thorough or kinds != deep) else (ctx.seed // 3 % 2 == 0,)):
                for ops in _all_histories(balpha, dk):
                    cases.append((f"backend {int(flag0)} {kinds} {';'.join(ops)}", _fmt(_backend_run(flag0, kinds, ops))))
            ctx.correspond(f"backend.all.{KINDS[kinds]}", EXE, cases, nontrivial=lambda ln, o: "C@" in o or "P@" in o)
            ctx.exhaustive_streams.append(f"backend.all.{KINDS[kinds]}: every history of length {dk} over {balpha} (set True, set "
                                          "False, build an object for a served (ec, hf) / for one served only on its free path, use "
                                          "object 0 / 1, free call, and for a chain the tweak that makes it let go); from both flag "
                                          "values; C/P = the bindings package was / was not entered during the call")
        ball = ["T1", "T0", "F", "B1", "B0", "B2", "U0", "U1", "U2", "U3", "D2", "D5", "C1", "C0", "C2"]
        cases = []
        for _ in range(ctx.n(60, 1000)):
            ops = [rng.choice(ball) for _ in range(rng.randrange(2, 14))]
            flag0 = rng.random() < 0.5
            cases.append((f"backend {int(flag0)} dsc {';'.join(ops)}", _fmt(_backend_run(flag0, "dsc", ops))))
            # histories made to cross: build under one value, flip, use
            ops2 = [rng.choice(["B1", "B1", "B0", "B2"]) for _ in range(3)] + [rng.choice(["F", "T1"])] + \
                   [rng.choice(["U0", "U1", "U2", "D2", "F", "T1", "B1"]) for _ in range(rng.randrange(2, 8))]
            cases.append((f"backend {int(flag0)} dsc {';'.join(ops2)}", _fmt(_backend_run(flag0, "dsc", ops2))))
            ctx.check("backend.captured_objects", {"flag": flag0, "kinds": "dsc", "ops": ops2})
            ctx.check("backend.captured_objects", {"flag": flag0, "kinds": "dsc", "ops": ops})
        ctx.correspond("backend.random", EXE, cases, nontrivial=lambda ln, o: "C@" in o or "P@" in o)
        # Backend.run itself against the free dispatching functions
        falpha = ["T1", "T0", "F", "C1", "C2", "C0"]
        fd = 4 if thorough else 3
        for fn in FREE_FNS:
            cases = []
            for flag0 in ((True, False) if thorough else (ctx.seed % 2 == 0,)):
                for ops in _all_histories(falpha, fd):
                    cases.append((f"backendfree {int(flag0)} {fn} {';'.join(ops)}", _fmt(_backendfree_run(flag0, fn, ops))))
            ctx.correspond(f"backendfree.all.{fn}", EXE, cases, nontrivial=lambda ln, o: "C" in o[3:] or "P" in o[3:])
        ctx.exhaustive_streams.append(f"backendfree.all.<fn>: for each of {FREE_FNS}, every history of length {fd} over {falpha} "
                                      "(C1: secp256k1+sha256, C2: secp256k1+sha1, C0: secp256r1), from both flag values (quick: one, by seed)")
        for name, k in sorted(_ENTRY.items()):
            ctx.count("backend.bindings_entry_points_seen", name, k)
        sites = _dispatch_sites()
        reached = {s_ for s_ in _SITES}
        for s_ in sorted(sites):
            ctx.count("backend.dispatch_sites", s_, _SITES.get(s_, 0))
        ctx.note(f"dispatch sites (functions asking _libsecp256k1_serves, by AST): {len(sites)}; reached during the spied calls of the "
                 f"backend streams: {len(sites & reached)}; NOT reached by them (their dispatch is C04's streams' business): "
                 f"{sorted(sites - reached)}")
    else:
        ctx.note("bindings not installed: the backend streams have nothing to flip")
    _lap(ctx, "backend")

    # ---------------------------------------------------------------- cache independence (real code alone)
    calls = []
    for name in ("secp256k1", "secp112r1", "secp160r1", "secp192k1"):
        for _ in range(2 if not thorough else 8):
            m = rng.getrandbits(250)
            calls.append(["mult", name, m, None])
            calls.append(["mult", name, m, rng.randrange(2, 99)])
            calls.append(["prepared", name, m, rng.randrange(2, 99)])
            calls.append(["double_mult", name, m, rng.randrange(1, 9), rng.getrandbits(200), rng.randrange(2, 99)])
            calls.append(["multi_mult", name, [rng.getrandbits(100) for _ in range(5)], [rng.randrange(2, 99) for _ in range(5)]])
    for i in range(4 if not thorough else 20):
        calls.append(["derive", _XPRV, f"m/{rng.randrange(99)}h/{rng.randrange(99)}"])
        calls.append(["derive", _ACC, f"m/{i % 2}/{rng.randrange(99)}"])
        calls.append(["b58cached", _ACC, rng.choice(["str", "bytes"])])
        ent = common.rand_bytes(rng, rng.choice([16, 24, 32])).hex()
        lang = rng.choice(["en", "it", "es", "fr", "ja", "cs"])
        calls.append(["mnemonic", lang, ent])
        calls.append(["entropy", lang, bip39.mnemonic_from_entropy(bytes.fromhex(ent), lang)])
    calls += [["second_generator", "secp256k1"], ["second_generator", "secp160r1"]]
    # the calls that go through each memo found by introspection (cold / warm / clear / evict / flips like the rest)
    for descs in CACHE_COVER.values():
        calls += [d_ for d_ in descs if d_ not in calls]
    calls += [["session_values", s] for s in (0, 1, 2, 6, 7)]
    calls += [["psig_verify", s, 0, fr] for s in (0, 1, 7) for fr in (True, False)]
    calls += [["ssa", rng.randrange(1, N), _h("ssa", i).hex()] for i in range(2)]
    calls += [["dsa", rng.randrange(1, N), _h("dsa", i).hex()] for i in range(2)]
    for d_, r in zip(calls, _cold(calls)):
        _COLD[json.dumps(d_)] = r
    cold_py = _cold(calls, no_bindings=True)
    for d_, r in zip(calls, cold_py):
        if r != _COLD[json.dumps(d_)]:
            ctx.fail("property", "cache.independent", f"cold answers differ between backends on {d_}",
                     key="cold-backend-divergence", oracle={"oracle": "cache.independent", "witness": {"call": d_, "conds": ["flag0"]}})
    conds_all = ["warm", "warm", "clear", "evict", "flag0", "clear", "flip", "flag1", "evict", "warm"]
    for d_ in calls:
        conds = list(conds_all)
        rng.shuffle(conds)
        heavy = d_[0] in ("mult", "prepared") and rng.random() < (0.2 if not thorough else 0.1)
        ctx.check("cache.independent", {"call": d_, "conds": conds, "n": 150 if not thorough else 1500, "heavy": heavy})
        ctx.count("cache.calls", d_[0])
    for m in range(2, 6 if not thorough else 40):
        for first in ("int", "bool"):
            ctx.check("cache.key_sound", {"probe": "bool_vs_int_width", "m": m, "first": first})
        ctx.check("cache.key_sound", {"probe": "jac_spellings", "m": m})
        ctx.check("cache.key_sound", {"probe": "equal_curves", "m": m, "curve": rng.choice(["secp112r1", "secp160r1"])})
    for first in ("str", "bytes"):
        ctx.check("cache.key_sound", {"probe": "str_vs_bytes", "xkey": _ACC, "first": first})
        ctx.check("cache.key_sound", {"probe": "str_vs_bytes", "xkey": _XPRV, "first": first})

    for k in range(ctx.n(6, 60)):
        ctx.check("cache.vs_uncached", {"family": "tables", "seed": rng.getrandbits(32), "point": [rng.randrange(1, 10007), rng.randrange(1, 10007)],
                                        "a1": rng.randrange(0, 10007), "a2": rng.randrange(0, 10007)})
    ctx.check("cache.vs_uncached", {"family": "base58", "seed": rng.getrandbits(32), "n": 6 if not thorough else 40})
    ctx.check("cache.vs_uncached", {"family": "second_generator", "seed": rng.getrandbits(32)})

    # every memo of the imported package, found by introspection: accounted for, and really gone through
    for name, row in sorted(_inventory().items()):
        ctx.check("cache.inventory", {"name": name}, key=f"cache-unaccounted-{name}")
        ctx.count("cache.inventory", f"{row[1]}{'' if row[2] is None else ':' + str(row[2])}{' curve-keyed' if row[3] else ''}")
        if name in CACHE_COVER:     # every inventoried memo; the oracle itself sorts out which answer mutable containers
            ctx.check("cache.answer_not_aliased", {"name": name}, key=f"cached-answer-aliased-{name}")
    for name in sorted(set(CACHE_COVER) - set(_inventory())):
        ctx.check("cache.inventory", {"name": name}, key=f"cache-unaccounted-{name}")
    ctx.note("memos of btclib are found by introspection of the imported package each run (lru_cache / cache wrappers, "
             "cached_property, properties/methods storing into self.__dict__ / vars(self) / object.__setattr__(self, ..), module-level "
             "containers a function fills); lazy state set on an ARGUMENT by a free function or by plain attribute assignment (WordLists, "
             "SessionContext._values/_bindings_ctx) is not found that way and is covered by name (wordlist model, cold-start oracle)")
    _lap(ctx, "caches")
    for comp, (c1, c2) in sorted(_curve_pairs().items()):
        for k in range(ctx.n(1, 6)):
            conds = ["cold", "warm", "flag0", "warm", "flag1", "clear", "flag0", "flag1"]
            if k:
                rng.shuffle(conds)
            first, second = (c1, c2) if k % 2 == 0 else (c2, c1)
            ctx.check("curve.identity", {"component": comp, "c1": first, "c2": second, "conds": conds, "seed": rng.getrandbits(32)},
                      key=f"curve-identity-{comp}")
            ctx.count("curve.pairs", comp)
    missing = {"p", "a", "gx", "gy", "n"} - set(_curve_pairs())
    if missing:
        raise common.HarnessError(f"no curve pair found for components {sorted(missing)}")
    _lap(ctx, "curves")

    # ---------------------------------------------------------------- threads: a search, not a proof
    for k in range(ctx.n(2, 40)):
        ctx.check("threads.search", {"seed": ctx.seed * 1000 + k, "threads": 8, "flips": True})
    for k in range(ctx.n(2, 6)):
        ctx.check("threads.cold_start", {"seed": ctx.seed * 100 + k, "reps": 25 if not thorough else 80, "threads": 8})
    ctx.check("threads.forced_window", {"seed": ctx.seed, "thorough": thorough, "threads": 8}, key="lazy-filler-read-half-published")
    _lap(ctx, "threads")
    ctx.note("threads.search and threads.cold_start are SEARCHES over real CPython schedules (8 threads, switch interval "
             "1e-6 s; warm caches with concurrent clears and backend flips, and first uses from purged lazy state in fresh "
             "interpreters), not proofs")


if __name__ == "__main__":
    if "--cold" in sys.argv:
        ds = json.loads(sys.stdin.read())
        print(json.dumps([json.loads(json.dumps(_eval(d))) for d in ds]))
    elif "--forced" in sys.argv:
        print(json.dumps(_forced_child(json.loads(sys.stdin.read()))))
    elif "--coldstart" in sys.argv:
        print(json.dumps(_cold_start_child(json.loads(sys.stdin.read()))))
