"""C13 — seeds and master keys on hostile text, decided against the specifications alone.

`the seed and master key derived are those of the standard key-stretching, independently computed`:
* BIP39: seed = PBKDF2-HMAC-SHA512(NFKD(sentence), "mnemonic" + NFKD(passphrase), 2048, 64);
* Electrum: seed = PBKDF2-HMAC-SHA512(normalize_text(sentence), "electrum" + normalize_text(passphrase), 2048, 64),
  normalize_text = NFKD, THEN lower-case, drop combining marks, collapse whitespace, drop the blanks between two
  characters of Electrum's CJK table (electrum/mnemonic.py);
* master key = BIP32 root of that seed (HMAC-SHA512("Bitcoin seed", seed)), for Electrum `segwit` its child 0'.
Everything below is written from those texts with hashlib / hmac / unicodedata; nothing of btclib is called by a
reference.  The text comes from a generator that knows Unicode's decomposition classes (compatibility characters of
every <tag>, characters whose decomposition holds capitals, combining marks, Hangul, CJK of every interval of
Electrum's table and their borders, full/half-width forms, ligatures, the Kelvin / Angstrom / Ohm signs, every blank).
"""
from __future__ import annotations

import hashlib
import hmac
import os
import unicodedata

# ------------------------------------------------------------------ Electrum's normalize_text, rewritten
# electrum/mnemonic.py CJK_INTERVALS (the names are Electrum's), kept as text so that it shares no literal with btclib
_ELECTRUM_CJK = """
4E00-9FFF CJK Unified Ideographs|3400-4DBF Extension A|20000-2A6DF Extension B|2A700-2B73F Extension C|
2B740-2B81F Extension D|F900-FAFF CJK Compatibility Ideographs|2F800-2FA1D Compatibility Supplement|3190-319F Kanbun|
2E80-2EFF CJK Radicals Supplement|2F00-2FDF CJK Radicals|31C0-31EF CJK Strokes|2FF0-2FFF Ideographic Description|
E0100-E01EF Variation Selectors Supplement|3100-312F Bopomofo|31A0-31BF Bopomofo Extended|
FF00-FFEF Halfwidth and Fullwidth Forms|3040-309F Hiragana|30A0-30FF Katakana|31F0-31FF Katakana Phonetic Extensions|
1B000-1B0FF Kana Supplement|AC00-D7AF Hangul Syllables|1100-11FF Hangul Jamo|A960-A97F Hangul Jamo Extended A|
D7B0-D7FF Hangul Jamo Extended B|3130-318F Hangul Compatibility Jamo|A4D0-A4FF Lisu|16F00-16F9F Miao|
A000-A48F Yi Syllables|A490-A4CF Yi Radicals
"""
CJK_RANGES = sorted(tuple(int(x, 16) for x in item.split()[0].split("-"))
                    for item in _ELECTRUM_CJK.replace("\n", "").split("|"))
assert len(CJK_RANGES) == 29


def ref_is_cjk(c: str) -> bool:
    o = ord(c)
    return any(lo <= o <= hi for lo, hi in CJK_RANGES)


_ASCII_BLANKS = " \t\n\r\x0b\x0c"          # string.whitespace, spelled out


def ref_electrum_normalize(text: str) -> str:
    """Electrum's normalize_text, step by step."""
    t = unicodedata.normalize("NFKD", text)
    t = t.lower()
    t = "".join(c for c in t if not unicodedata.combining(c))
    t = " ".join(t.split())
    return "".join(c for i, c in enumerate(t)
                   if not (c in _ASCII_BLANKS and ref_is_cjk(t[i - 1]) and ref_is_cjk(t[i + 1])))


def normalize_variants(text: str) -> dict:
    """what the text would become if ONE step of normalize_text were left out or moved — used only to COUNT which
    steps a generated text is sensitive to (coverage), never to judge."""
    def run(nfkd=True, lower="after", marks=True, collapse=True, cjk=True):
        t = text.lower() if lower == "before" else text
        if nfkd:
            t = unicodedata.normalize("NFKD", t)
        if lower == "after":
            t = t.lower()
        if marks:
            t = "".join(c for c in t if not unicodedata.combining(c))
        if collapse:
            t = " ".join(t.split())
        if cjk and collapse:
            t = "".join(c for i, c in enumerate(t)
                        if not (c in _ASCII_BLANKS and ref_is_cjk(t[i - 1]) and ref_is_cjk(t[i + 1])))
        return t
    base = run()
    out = {}
    for name, kw in (("lower_before_nfkd", {"lower": "before"}), ("no_lower", {"lower": None}),
                     ("no_nfkd", {"nfkd": False}), ("nfc_not_nfkd", None), ("keep_marks", {"marks": False}),
                     ("no_collapse", {"collapse": False}), ("no_cjk_join", {"cjk": False})):
        if name == "nfc_not_nfkd":
            t = unicodedata.normalize("NFD", text).lower()
            t = "".join(c for c in t if not unicodedata.combining(c))
            v = " ".join(t.split())
            v = "".join(c for i, c in enumerate(v)
                        if not (c in _ASCII_BLANKS and ref_is_cjk(v[i - 1]) and ref_is_cjk(v[i + 1])))
        else:
            v = run(**kw)
        out[name] = v != base
    return out


_OLD_WORDS: set = set()


def _old_words():
    if not _OLD_WORDS:
        import btclib.mnemonic as pkg          # only to find the data directory; the file is read here
        p = os.path.join(os.path.dirname(pkg.__file__), "_data", "electrum_old_english.txt")
        with open(p, encoding="ascii") as f:
            _OLD_WORDS.update(line.rstrip("\n") for line in f)
    return _OLD_WORDS


def ref_is_old_seed(text: str) -> bool:
    """Electrum's is_old_seed (deliberately weak, #3149)."""
    t = ref_electrum_normalize(text)
    words = t.split()
    uses_old = all(w in _old_words() for w in words)
    try:
        is_hex = len(bytes.fromhex(t)) in (16, 32)
    except ValueError:
        is_hex = False
    return is_hex or (uses_old and len(words) in (12, 24))


def ref_seed_version(text: str) -> str:
    return hmac.new(b"Seed version", ref_electrum_normalize(text).encode(), hashlib.sha512).hexdigest()


def ref_electrum_seed_type(text: str) -> str:
    """Electrum's calc_seed_type: old first, then the prefix table; the word count is taken BEFORE normalisation."""
    n = len(text.split())
    if ref_is_old_seed(text):
        return "old"
    sv = ref_seed_version(text)
    if sv.startswith("01"):
        return "standard"
    if sv.startswith("100"):
        return "segwit"
    if sv.startswith("101") and (n == 12 or n >= 20):
        return "2fa"
    if sv.startswith("102"):
        return "2fa_segwit"
    return ""


def ref_electrum_seed(mnemonic: str, passphrase: str) -> bytes:
    return hashlib.pbkdf2_hmac("sha512", ref_electrum_normalize(mnemonic).encode(),
                               b"electrum" + ref_electrum_normalize(passphrase).encode(), 2048, 64)


def ref_bip39_seed(mnemonic: str, passphrase: str) -> bytes:
    """BIP39 "From mnemonic to seed": both strings in UTF-8 NFKD."""
    return hashlib.pbkdf2_hmac("sha512", unicodedata.normalize("NFKD", mnemonic).encode(),
                               b"mnemonic" + unicodedata.normalize("NFKD", passphrase).encode(), 2048, 64)


# ------------------------------------------------------------------ BIP32 root and one hardened child, from the BIP
_P = 2 ** 256 - 2 ** 32 - 977
_N = 0xFFFFFFFFFFFFFFFFFFFFFFFFFFFFFFFEBAAEDCE6AF48A03BBFD25E8CD0364141
_G = (0x79BE667EF9DCBBAC55A06295CE870B07029BFCDB2DCE28D959F2815B16F81798,
      0x483ADA7726A3C4655DA4FBFC0E1108A8FD17B448A68554199C47D08FFB10D4B8)
_B58 = "123456789ABCDEFGHJKLMNPQRSTUVWXYZabcdefghijkmnopqrstuvwxyz"
XPRV_VERSIONS = {("mainnet", "standard"): "0488ade4", ("testnet", "standard"): "04358394",
                 ("mainnet", "segwit"): "04b2430c", ("testnet", "segwit"): "045f18bc"}   # BIP32 / SLIP-0132


def _ec_add(a, b):
    if a is None:
        return b
    if b is None:
        return a
    if a[0] == b[0] and (a[1] + b[1]) % _P == 0:
        return None
    lam = (3 * a[0] * a[0] * pow(2 * a[1], -1, _P) if a == b else (b[1] - a[1]) * pow(b[0] - a[0], -1, _P)) % _P
    x = (lam * lam - a[0] - b[0]) % _P
    return x, (lam * (a[0] - x) - a[1]) % _P


def ec_point(k: int):
    r, q = None, _G
    while k:
        if k & 1:
            r = _ec_add(r, q)
        q = _ec_add(q, q)
        k >>= 1
    return r


def _ec_pub(k: int) -> bytes:
    r = ec_point(k)
    return bytes([2 + (r[1] & 1)]) + r[0].to_bytes(32, "big")


# ------------------------------------------------------------------ Electrum's pre-2.0 scheme, from old_mnemonic.py / keystore.py
def old_wordlist():
    import btclib.mnemonic as pkg
    with open(os.path.join(os.path.dirname(pkg.__file__), "_data", "electrum_old_english.txt"), encoding="ascii") as f:
        return [line.rstrip("\n") for line in f]


def ref_old_encode(hex_seed: str):
    """mn_encode: w1 = x % n, w2 = (x // n + w1) % n, w3 = (x // n // n + w2) % n for each 8 hex characters"""
    wl = old_wordlist()
    n = len(wl)
    out = []
    for i in range(len(hex_seed) // 8):
        x = int(hex_seed[8 * i:8 * i + 8], 16)
        w1 = x % n
        w2 = (x // n + w1) % n
        w3 = (x // n // n + w2) % n
        out += [wl[w1], wl[w2], wl[w3]]
    return out


def ref_old_master(hex_seed: str):
    """Old_KeyStore.stretch_key and mpk_from_seed: 100 000 x sha256(digest + seed), seed = the hex CHARACTERS;
    the master public key is x || y of the point."""
    seed = hex_seed.encode("ascii")
    d = seed
    for _ in range(100000):
        d = hashlib.sha256(d + seed).digest()
    k = int.from_bytes(d, "big")
    if not 0 < k < _N:
        return k, None
    x, y = ec_point(k)
    return k, (x.to_bytes(32, "big") + y.to_bytes(32, "big")).hex()


def b58check(payload: bytes) -> str:
    data = payload + hashlib.sha256(hashlib.sha256(payload).digest()).digest()[:4]
    n = int.from_bytes(data, "big")
    out = ""
    while n:
        n, r = divmod(n, 58)
        out = _B58[r] + out
    return "1" * (len(data) - len(data.lstrip(b"\x00"))) + out


def _xprv(version: str, depth: int, fp: bytes, index: int, chain: bytes, k: int) -> str:
    return b58check(bytes.fromhex(version) + bytes([depth]) + fp + index.to_bytes(4, "big") + chain + b"\x00" +
                    k.to_bytes(32, "big"))


def ref_master(seed: bytes, version: str, hardened_child0: bool = False):
    """BIP32 master key of a seed (None when BIP32 says the seed is invalid); with `hardened_child0` its child 0'."""
    i = hmac.new(b"Bitcoin seed", seed, hashlib.sha512).digest()
    k, chain = int.from_bytes(i[:32], "big"), i[32:]
    if not 0 < k < _N:
        return None
    if not hardened_child0:
        return _xprv(version, 0, bytes(4), 0, chain, k)
    idx = 0x80000000
    i2 = hmac.new(chain, b"\x00" + k.to_bytes(32, "big") + idx.to_bytes(4, "big"), hashlib.sha512).digest()
    t = int.from_bytes(i2[:32], "big")
    kc = (t + k) % _N
    if t >= _N or kc == 0:
        return None
    fp = hashlib.new("ripemd160", hashlib.sha256(_ec_pub(k)).digest()).digest()[:4]
    return _xprv(version, 1, fp, idx, i2[32:], kc)


# ------------------------------------------------------------------ the Unicode-aware generator
_UNI: dict = {}
BLANKS = [" ", "  ", "\t", "\n", "\r\n", "\x0b", "\x0c", "\x1c", "\x1f", "\x85", "\u00a0", "\u1680", "\u2000",
          "\u2002", "\u2003", "\u2007", "\u2009", "\u200a", "\u2028", "\u2029", "\u202f", "\u205f", "\u3000", " \u3000 "]
# Kelvin, Angstrom, Ohm; TM, Numero, square MHz, double-struck R / C, TEL, SM, square Co. / KK / hPa / cal / Pa, degree C / F,
# modifier capitals, squared / mathematical / enclosed letters, ligatures, DZ digraphs, sharp s, long s, dotless / dotted i,
# sigma and final sigma, upsilon hook, lunate sigma, diaeresis (space + mark), the longest decomposition (U+FDFA),
# zero-width characters, soft hyphen, roman numerals, circled / full-width letters, half-width kana with voice marks,
# precomposed kana, lone combining marks, characters whose canonical order changes under NFKD
SPECIALS = ["\u212a", "\u212b", "\u2126", "\u2122", "\u2116", "\u3392", "\u211d", "\u2102", "\u2121", "\u2120",
            "\u33c7", "\u33cd", "\u3371", "\u3388", "\u33a9", "\u2103", "\u2109", "\u1d2c", "\u1d40", "\U0001f130",
            "\U0001d400", "\U0001d4d0", "\U0001d7ce", "\U0001f16a", "\ufb01", "\ufb02", "\ufb00", "\ufb03", "\ufb06",
            "\ufb05", "\u01c4", "\u01c5", "\u01c6", "\u00df", "\u1e9e", "\u017f", "\u0131", "\u0130", "\u03a3",
            "\u03c2", "\u03d2", "\u03f9", "\u00a8", "\ufdfa", "\u200b", "\ufeff", "\u00ad", "\u2163", "\u2173",
            "\u24b6", "\u24d0", "\uff21", "\uff41", "\uff76\uff9e", "\uff8a\uff9f", "\u304c", "\u30d1",
            "\u3099", "\u0344", "\u0958", "\u2adc", "\u1e9b\u0323", "\u0041\u030a", "\u00e5", "\u00c5", "\u1f82",
            "\ufe4e", "\u2474", "\u32ff", "\u3300", "\u3250", "\u20a8", "\u2100", "\u2105", "\u1d2d", "\ua7f8",
            "\u03a3\u03a3", "a\u03a3", "\u1e9e\u0301"]


def uni_tables():
    """code points by decomposition class, read from the Unicode character database (unicodedata properties only)."""
    if _UNI:
        return _UNI
    tags, caps, marks, upper, lower = {}, [], [], [], []
    for cp in list(range(0x20, 0x30000)) + list(range(0xE0100, 0xE01F0)):
        if 0xD800 <= cp <= 0xDFFF:
            continue
        c = chr(cp)
        cat = unicodedata.category(c)
        if cat in ("Cn", "Co"):
            continue
        d = unicodedata.decomposition(c)
        if d:
            f = d.split()
            tags.setdefault(f[0] if f[0][0] == "<" else "canon", []).append(c)
            if any(unicodedata.category(chr(int(x, 16))) == "Lu" for x in f if x[0] != "<"):
                caps.append(c)
        if unicodedata.combining(c):
            marks.append(c)
        if cat == "Lu":
            upper.append(c)
        elif cat == "Ll" and cp < 0x2000:
            lower.append(c)
    cjk = []
    for lo, hi in CJK_RANGES:
        # border and middle code points, plus the first and last ASSIGNED ones that NFKD leaves in place (only those
        # can still be in the interval when the CJK rule looks at them)
        live = [x for x in range(lo, hi + 1) if unicodedata.category(chr(x)) not in ("Cn", "Co", "Cs")]
        stable = [x for x in live if unicodedata.normalize("NFKD", chr(x)) == chr(x)]
        pick = {lo, lo + 1, (lo + hi) // 2, hi - 1, hi} & set(live)
        pick |= set(stable[:2] + stable[-2:] + stable[len(stable) // 2:len(stable) // 2 + 1])
        cjk.append([chr(x) for x in sorted(pick)])
    borders = [chr(x) for lo, hi in CJK_RANGES for x in (lo - 1, hi + 1)
               if not 0xD800 <= x <= 0xDFFF and unicodedata.category(chr(x)) not in ("Cn", "Co", "Cs")]
    _UNI.update(tags=tags, tag_names=sorted(tags), caps=caps, marks=marks, upper=upper, lower=lower,
                cjk=[x for x in cjk if x], borders=borders)
    return _UNI


def _token(rng) -> str:
    u = uni_tables()
    k = rng.randrange(16)
    if k == 0:
        return "".join(rng.choice("abcdefghijklmnopqrstuvwxyzABCDEFGHIJKLMNOPQRSTUVWXYZ0123456789")
                       for _ in range(rng.randrange(1, 5)))
    if k in (1, 2):
        return rng.choice(u["tags"][rng.choice(u["tag_names"])])
    if k in (3, 4):
        return rng.choice(u["caps"])
    if k == 5:
        return rng.choice("aeiounAEIOUNcszkKoOyYαΑиИ") + "".join(
            rng.choice(u["marks"]) for _ in range(rng.randrange(1, 4)))
    if k == 6:
        return rng.choice(u["upper"])
    if k == 7:
        return rng.choice(u["lower"])
    if k in (8, 9):
        # CJK of one interval of Electrum's table, blanks between: the join rule
        g = rng.choice(u["cjk"])
        other = rng.choice(u["cjk"] + [u["borders"], list("aZ9")])
        return rng.choice(g) + rng.choice(BLANKS) + rng.choice(other) + rng.choice(["", rng.choice(BLANKS) + rng.choice(g)])
    if k == 10:
        return chr(rng.randrange(0xAC00, 0xD7A4)) + rng.choice(["", " ", "\u3000"]) + chr(rng.randrange(0xAC00, 0xD7A4))
    if k == 11:
        return rng.choice(BLANKS)
    if k == 12:
        return chr(rng.randrange(0xFF01, 0xFF5F)) + rng.choice(["", " "]) + chr(rng.randrange(0xFF61, 0xFFA0))
    if k == 13:
        return rng.choice(u["borders"]) + " " + rng.choice(rng.choice(u["cjk"]))
    return rng.choice(SPECIALS)


def _stable(x: int) -> bool:
    """a code point (assigned or not) that reaches the CJK rule as itself: NFKD, lower() and the removal of combining
    marks leave it alone."""
    if not 0 <= x < 0x110000 or 0xD800 <= x <= 0xDFFF:
        return False
    c = chr(x)
    return unicodedata.normalize("NFKD", c) == c and c.lower() == c and not unicodedata.combining(c) and \
        len(c.split()) == 1


def cjk_border_texts(rng):
    """for every interval of Electrum's table: its first and last code point that can reach the rule, and the code
    points just outside, each next to a blank and a certain CJK character, on either side."""
    out = []
    for lo, hi in CJK_RANGES:
        inside = [x for x in range(lo, hi + 1) if _stable(x)]
        ends = ([inside[0], inside[-1]] if inside else []) + [x for x in (lo - 1, hi + 1) if _stable(x)]
        for x in ends:
            blank = rng.choice(BLANKS)
            out.append(chr(x) + blank + "\u4e2d" if rng.random() < 0.5 else "\u30a2" + blank + chr(x))
    return out


def hostile_text(rng, max_tokens=7) -> str:
    t = "".join(_token(rng) + (rng.choice(BLANKS) if rng.random() < 0.3 else "")
                for _ in range(rng.randrange(1, max_tokens + 1)))
    if rng.random() < 0.15:
        t = rng.choice(BLANKS) + t + rng.choice(BLANKS)
    return t


def hostile_hex(rng, nbytes=16) -> str:
    """a hex seed written in digits and letters that only NFKD turns into ASCII (full-width, mathematical)."""
    out = []
    for ch in "".join(rng.choice("0123456789abcdef") for _ in range(2 * nbytes)):
        k = rng.randrange(4)
        if ch.isdigit():
            out.append([ch, chr(0xFF10 + int(ch)), chr(0x1D7CE + int(ch)), chr(0x1D7D8 + int(ch))][k])
        else:
            o = ord(ch) - ord("a")
            out.append([ch, chr(0xFF21 + o), chr(0xFF41 + o), chr(0x1D400 + o)][k])
    return "".join(out)


_REV: dict = {}
_REV_NFKD: dict = {}


def _respellings():
    """normalised character -> single code points that Electrum's normalisation maps to it; and the same for NFKD alone."""
    if not _REV:
        for cp in range(0x20, 0x30000):
            if 0xD800 <= cp <= 0xDFFF:
                continue
            c = chr(cp)
            if unicodedata.decomposition(c):
                k = unicodedata.normalize("NFKD", c)
                if len(k) == 1 and k != c:
                    _REV_NFKD.setdefault(k, []).append(c)
            elif c.lower() == c:
                continue
            n = ref_electrum_normalize("x" + c + "x")[1:-1]
            if len(n) == 1 and n != c:
                _REV.setdefault(n, []).append(c)
    return _REV, _REV_NFKD


def respell(rng, sentence: str, scheme: str) -> str:
    """another spelling of the same sentence.  scheme "electrum": capitals, compatibility / full-width / mathematical
    letters, precomposed or extra accents (Electrum drops them).  scheme "bip39": only what NFKD undoes (compatibility
    letters, composed forms).  Both: every kind of blank between and around the words."""
    rev, rev_nfkd = _respellings()
    u = uni_tables()
    norm = ref_electrum_normalize if scheme == "electrum" else (lambda x: " ".join(unicodedata.normalize("NFKD", x).split()))
    out = []
    for w in sentence.split():
        s = ""
        for ch in unicodedata.normalize("NFKD", w):
            r = rng.random()
            if scheme == "bip39":
                s += rng.choice(rev_nfkd[ch]) if r < 0.2 and ch in rev_nfkd else ch
            elif r < 0.25 and ch in rev:
                s += rng.choice(rev[ch])
            elif r < 0.35:
                s += ch.upper() if len(ch.upper()) == 1 else ch
            elif r < 0.42 and not unicodedata.combining(ch):
                s += ch + rng.choice(u["marks"])
            else:
                s += ch
        if rng.random() < 0.5:
            s = unicodedata.normalize("NFC", s)
        out.append(s if norm(s) == norm(w) else w)          # e.g. dotless i, final sigma: upper() is not undone
    if not out:
        return sentence
    seps = [rng.choice(BLANKS) for _ in out[1:]] if rng.random() < 0.7 else [rng.choice(BLANKS)] * (len(out) - 1)
    t = out[0] + "".join(a + b for a, b in zip(seps, out[1:]))
    if rng.random() < 0.3:
        t = rng.choice(BLANKS) + t + rng.choice(BLANKS)
    return t if norm(t) == norm(sentence) else sentence
