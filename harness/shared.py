"""Validation of the shared executable primitives of the Lean model (DESIGN §1, L1).

The hash functions written in Lean (lean/Model/Common/{Sha256,Sha512,Sha1,Ripemd160,Hmac,Pbkdf2,SipHash}.lean)
are *modelled, not verified*: their only specification is hashlib.  Every property harness whose driver serves
`Btc.hashOp` calls `validate_hashes(ctx, EXE)` at the start of its run:

    from . import shared
    shared.validate_hashes(ctx, EXE)

Expected values come from hashlib / hmac (cross-checked in-process against btclib.hashes, against btclib's
pure-python `_ripemd160` and against hard-coded NIST/RFC digests), siphash from btclib.hashes.siphash
(cross-checked against the SipHash reference vectors).  Streams are named `hash.<name>`.
"""
from __future__ import annotations

import hashlib
import hmac

from btclib import hashes as bh
from btclib._ripemd160 import ripemd160 as pure_ripemd160

from . import common
from .common import hx

# every Merkle–Damgård boundary of a 64-byte (pad 9) and a 128-byte (pad 17) block function, twice over
BOUNDARIES = sorted({b + d for b in (0, 55, 56, 63, 64, 65, 111, 112, 119, 120, 127, 128, 129, 183, 184, 191, 192,
                                      193, 239, 240, 247, 248, 255, 256, 257) for d in (-1, 0, 1) if b + d >= 0})


def _hashlib_ripemd160(m: bytes):
    try:
        return hashlib.new("ripemd160", m).digest()
    except ValueError:
        return None


_REF_BAD: list[str] = []


def _ripemd160(m: bytes) -> bytes:
    """btclib's pure-python RIPEMD-160 *and* hashlib's (where the interpreter has one): they must agree."""
    p = pure_ripemd160(m)
    h = _hashlib_ripemd160(m)
    if h is not None and h != p:
        _REF_BAD.append(f"_ripemd160 != hashlib.ripemd160 on {m.hex()[:200]}")
    return p


UNARY = {
    "sha256": lambda m: hashlib.sha256(m).digest(),
    "sha512": lambda m: hashlib.sha512(m).digest(),
    "sha1": lambda m: hashlib.sha1(m, usedforsecurity=False).digest(),
    "ripemd160": _ripemd160,
    "hash160": lambda m: _ripemd160(hashlib.sha256(m).digest()),
    "hash256": lambda m: hashlib.sha256(hashlib.sha256(m).digest()).digest(),
}
# what btclib itself calls for the same thing (in-process cross-check: the model is tied to *these*)
BTCLIB = {"sha256": bh.sha256, "sha1": bh.sha1, "ripemd160": bh.ripemd160, "hash160": bh.hash160,
          "hash256": bh.hash256}

_A = b"abc"
_B448 = b"abcdbcdecdefdefgefghfghighijhijkijkljklmklmnlmnomnopnopq"
_B896 = (b"abcdefghbcdefghicdefghijdefghijkefghijklfghijklmghijklmnhijklmnoijklmnopjklmnopqklmnopqrlmnopqrsmnopqrst"
         b"nopqrstu")
# FIPS 180-4 / RIPEMD-160 paper known answers: (name, message or (pattern, count), hex digest)
KAT = [
    ("sha256", b"", "e3b0c44298fc1c149afbf4c8996fb92427ae41e4649b934ca495991b7852b855"),
    ("sha256", _A, "ba7816bf8f01cfea414140de5dae2223b00361a396177a9cb410ff61f20015ad"),
    ("sha256", _B448, "248d6a61d20638b8e5c026930c3e6039a33ce45964ff2167f6ecedd419db06c1"),
    ("sha256", _B896, "cf5b16a778af8380036ce59e7b0492370b249b11e8f07a51afac45037afee9d1"),
    ("sha256", (b"a", 1000000), "cdc76e5c9914fb9281a1c7e284d73e67f1809a48a497200e046d39ccc7112cd0"),
    ("sha512", b"", "cf83e1357eefb8bdf1542850d66d8007d620e4050b5715dc83f4a921d36ce9ce"
                      "47d0d13c5d85f2b0ff8318d2877eec2f63b931bd47417a81a538327af927da3e"),
    ("sha512", _A, "ddaf35a193617abacc417349ae20413112e6fa4e89a97ea20a9eeee64b55d39a"
                    "2192992a274fc1a836ba3c23a3feebbd454d4423643ce80e2a9ac94fa54ca49f"),
    ("sha512", _B896, "8e959b75dae313da8cf4f72814fc143f8f7779c6eb9f7fa17299aeadb6889018"
                       "501d289e4900f7e4331b99dec4b5433ac7d329eeb6dd26545e96e55b874be909"),
    ("sha512", (b"a", 1000000), "e718483d0ce769644e2e42c7bc15b4638e1f98b13b2044285632a803afa973eb"
                                 "de0ff244877ea60a4cb0432ce577c31beb009c5c2c49aa2e4eadb217ad8cc09b"),
    ("sha1", b"", "da39a3ee5e6b4b0d3255bfef95601890afd80709"),
    ("sha1", _A, "a9993e364706816aba3e25717850c26c9cd0d89d"),
    ("sha1", _B448, "84983e441c3bd26ebaae4aa1f95129e5e54670f1"),
    ("sha1", (b"a", 1000000), "34aa973cd4c4daa4f61eeb2bdbad27316534016f"),
    ("ripemd160", b"", "9c1185a5c5e9fc54612808977ee8f548b2258d31"),
    ("ripemd160", b"a", "0bdc9d2d256b3ee9daae347be6f4dc835a467ffe"),
    ("ripemd160", _A, "8eb208f7e05d987a9b044a8e98c6b087f15a0bfc"),
    ("ripemd160", b"message digest", "5d0689ef49d2fae572b881b123a85ffa21595f36"),
    ("ripemd160", b"abcdefghijklmnopqrstuvwxyz", "f71c27109c692c1b56bbdceb5b9d2865b3708dbc"),
    ("ripemd160", _B448, "12a053384a9c0c88e405a06c27dcf49ada62eb2b"),
    ("ripemd160", b"ABCDEFGHIJKLMNOPQRSTUVWXYZabcdefghijklmnopqrstuvwxyz0123456789",
     "b0e20b6e3116640286ed3a87a5713079b21f5189"),
    ("ripemd160", (b"1234567890", 8), "9b752e45573d4b39f4dbd3323cab82bf63326bfb"),
    ("ripemd160", (b"a", 1000000), "52783243c1697bdbe16d37f97f68f08325dc1528"),
]

# RFC 4231 (HMAC-SHA-256/512) and RFC 2202 (HMAC-SHA-1): (key, data)
HMAC_VECTORS = [
    (b"\x0b" * 20, b"Hi There"),
    (b"Jefe", b"what do ya want for nothing?"),
    (b"\xaa" * 20, b"\xdd" * 50),
    (bytes(range(1, 26)), b"\xcd" * 50),
    (b"\x0c" * 20, b"Test With Truncation"),
    (b"\xaa" * 131, b"Test Using Larger Than Block-Size Key - Hash Key First"),
    (b"\xaa" * 131, b"This is a test using a larger than block-size key and a larger than block-size data. "
                    b"The key needs to be hashed before being used by the HMAC algorithm."),
    (b"\xaa" * 80, b"Test Using Larger Than Block-Size Key - Hash Key First"),
    (b"", b""),
]
HMAC_KAT = {  # first vector of RFC 4231 / RFC 2202
    "sha256": "b0344c61d8db38535ca8afceaf0bf12b881dc200c9833da726e9376c2e32cff7",
    "sha512": "87aa7cdea5ef619d4ff0b4241a1d6cb02379f4e2ce4ec2787ad0b30545e17cde"
              "daa833b7d6b8a702038b274eaea3f4e4be9d914eeb61f1702e696c203a126854",
    "sha1": "b617318655057264e28bc0b6fb378c8ef146be00",
}
HMACS = {"hmac256": "sha256", "hmac512": "sha512", "hmac1": "sha1"}

# RFC 6070-style / RFC 7914 §11 PBKDF2 vectors: (hash, pw, salt, iters, dklen, hex)
PBKDF2_KAT = [
    ("sha256", b"passwd", b"salt", 1, 64,
     "55ac046e56e3089fec1691c22544b605f94185216dde0465e68b9d57c20dacbc"
     "49ca9cccf179b645991664b39d77ef317c71b845b1e30bd509112041d3a19783"),
    ("sha256", b"password", b"salt", 2, 32, "ae4d0c95af6b46d32d0adff928f06dd02a303f8ef3c251dfd6e2d85a95474c43"),
    ("sha512", b"password", b"salt", 1, 64,
     "867f70cf1ade02cff3752599a3a53dc4af34c7a669815ae5d513554e1c8cf252"
     "c02d470a285a0501bad999bfe943c08f050235d7d68b1da55e63f73b60a57fce"),
    ("sha512", b"password", b"salt", 2, 64,
     "e1d9c16aa681708a45f5c7c4e215ceb66e011a2e9f0040713f18aefdb866d53c"
     "f76cab2868a39b9f7840edce4fef5a82be67335c77a6068e04112754f27ccf4e"),
]

# SipHash-2-4 reference vectors (Aumasson & Bernstein, `vectors.h`): key 00..0f, message 00..len-1
SIP_K0, SIP_K1 = 0x0706050403020100, 0x0F0E0D0C0B0A0908
SIP_KAT = {0: 0x726FDB47DD0E0E31, 1: 0x74F839C593DC67FD, 7: 0xAB0200F58B01D137, 8: 0x93F5F5799A932462,
           15: 0xA129CA6149BE45E5, 63: 0x958A324CEB064572}


def _self_check(ctx) -> None:
    """The Python side of the tie: hashlib == btclib.hashes == pure-python ripemd160 == published digests.

    A failure here is not a model/implementation disagreement but a broken reference: it is recorded as a
    correspondence finding on `hash.reference` so that it cannot pass silently."""
    bad = []
    for name, msg, dig in KAT:
        if isinstance(msg, tuple):
            msg = msg[0] * msg[1]
            if name == "ripemd160" and len(msg) > 10000:
                # 1 MB through the pure-python one costs ~2 s: use hashlib where it has it
                got = _hashlib_ripemd160(msg) or pure_ripemd160(msg)
                if got.hex() != dig:
                    bad.append(f"{name} KAT")
                continue
        if UNARY[name](msg).hex() != dig:
            bad.append(f"{name} KAT len {len(msg)}")
    for n in range(0, 200, 7):
        m = bytes((i * 37 + n) & 0xFF for i in range(n))
        for name, f in BTCLIB.items():
            if f(m) != UNARY[name](m):
                bad.append(f"btclib.hashes.{name} != hashlib at len {n}")
        r = _hashlib_ripemd160(m)
        if r is not None and r != pure_ripemd160(m):
            bad.append(f"_ripemd160 != hashlib at len {n}")
        if bh.tagged_hash(b"tag/%d" % n, m) != _tagged(b"tag/%d" % n, m):
            bad.append(f"tagged_hash at len {n}")
    for name, dig in HMAC_KAT.items():
        if hmac.new(*HMAC_VECTORS[0], name).hexdigest() != dig:
            bad.append(f"hmac {name} KAT")
    for name, pw, salt, it, dk, dig in PBKDF2_KAT:
        if hashlib.pbkdf2_hmac(name, pw, salt, it, dk).hex() != dig:
            bad.append(f"pbkdf2 {name} KAT")
    for n, v in SIP_KAT.items():
        if bh.siphash(SIP_K0, SIP_K1, bytes(range(n))) != v:
            bad.append(f"siphash reference vector len {n}")
    st = ctx.streams.setdefault("hash.reference", {"cases": 0, "mismatches": 0, "model": None})
    st["cases"] += 1
    for b in bad:
        st["mismatches"] += 1
        ctx.fail("correspondence", "hash.reference", "python-side reference disagreement: " + b, key="hash.reference")


def _tagged(tag: bytes, m: bytes) -> bytes:
    t = hashlib.sha256(tag).digest()
    return hashlib.sha256(t + t + m).digest()


def _msg(rng, n: int) -> bytes:
    k = rng.random()
    if k < 0.1:
        return bytes([rng.choice([0, 0x80, 0xFF])]) * n
    return rng.randbytes(n)


def _siphash_line(k0, k1, m):
    line = f"hash.siphash {k0} {k1} {hx(m)}"
    try:
        return line, f"ok {bh.siphash(k0, k1, m)}"
    except Exception as e:  # noqa: BLE001
        return line, "err " + common.err_class(e)


def hash_cases(ctx) -> dict[str, list[tuple[str, str]]]:
    """stream name -> [(op line, expected output line)]"""
    rng = ctx.rng
    out: dict[str, list[tuple[str, str]]] = {}

    # lengths: every length 0..300 for one function per length (all six on the boundaries), plus long ones
    for name, f in UNARY.items():
        cases = []
        lens = list(range(0, 301)) + [rng.randrange(301, 5000) for _ in range(ctx.n(6, 60))]
        for n in lens:
            m = _msg(rng, n)
            cases.append((f"hash.{name} {hx(m)}", "ok " + f(m).hex()))
        for kname, msg, dig in KAT:
            if kname != name:
                continue
            if isinstance(msg, tuple):
                cases.append((f"hash.rep {name} {hx(msg[0])} {msg[1]}", "ok " + dig))
            else:
                cases.append((f"hash.{name} {hx(msg)}", "ok " + dig))
        n = rng.randrange(1, 4000)
        pat = rng.randbytes(rng.randrange(1, 5))
        cases.append((f"hash.rep {name} {hx(pat)} {n}", "ok " + f(pat * n).hex()))
        out["hash." + name] = cases

    cases = []
    tags = [b"", b"BIP0340/challenge", b"BIP0340/aux", b"BIP0340/nonce", b"TapLeaf", b"TapBranch", b"TapTweak",
            b"TapSighash", b"KeyAgg list", b"KeyAgg coefficient", b"MuSig/nonce", rng.randbytes(70)]
    for n in BOUNDARIES + [rng.randrange(0, 400) for _ in range(ctx.n(40, 400))]:
        tag = rng.choice(tags)
        m = _msg(rng, n)
        cases.append((f"hash.tagged {hx(tag)} {hx(m)}", "ok " + _tagged(tag, m).hex()))
    out["hash.tagged"] = cases

    for op, hname in HMACS.items():
        bs = 128 if hname == "sha512" else 64
        cases = []
        for key, data in HMAC_VECTORS:
            cases.append((f"hash.{op} {hx(key)} {hx(data)}", "ok " + hmac.new(key, data, hname).hexdigest()))
        cases.append((f"hash.{op} {hx(HMAC_VECTORS[0][0])} {hx(HMAC_VECTORS[0][1])}", "ok " + HMAC_KAT[hname]))
        klens = [0, 1, 16, 20, 32, 33, 63, 64, 65, bs - 1, bs, bs + 1, 2 * bs, 2 * bs + 1, 300]
        for kl in klens:
            for ml in (0, rng.randrange(1, 80), rng.choice(BOUNDARIES)):
                key, m = rng.randbytes(kl), _msg(rng, ml)
                cases.append((f"hash.{op} {hx(key)} {hx(m)}", "ok " + hmac.new(key, m, hname).hexdigest()))
        for _ in range(ctx.n(60, 600)):
            key = rng.randbytes(rng.choice([rng.randrange(0, 40), rng.randrange(0, 2 * bs + 20)]))
            m = _msg(rng, rng.choice([rng.randrange(0, 300), rng.choice(BOUNDARIES)]))
            cases.append((f"hash.{op} {hx(key)} {hx(m)}", "ok " + hmac.new(key, m, hname).hexdigest()))
        out["hash." + op] = cases

    for op, hname, hlen in (("pbkdf2_512", "sha512", 64), ("pbkdf2_256", "sha256", 32)):
        cases = []
        for kname, pw, salt, it, dk, dig in PBKDF2_KAT:
            if kname == hname:
                cases.append((f"hash.{op} {hx(pw)} {hx(salt)} {it} {dk}", "ok " + dig))
        # BIP39 / Electrum shape once with the real iteration count
        pw = "légal winner thank year wave sausage worth useful legal winner thank yellow".encode()
        todo = [(pw, b"mnemonic" + b"TREZOR", 2048, 64)]
        for it in (1, 2, 3):
            for dk in (1, hlen - 1, hlen, hlen + 1, 2 * hlen, 2 * hlen + 5):
                todo.append((rng.randbytes(rng.randrange(0, 2 * hlen + 80)), rng.randbytes(rng.randrange(0, 40)), it, dk))
        for _ in range(ctx.n(10, 100)):
            todo.append((rng.randbytes(rng.randrange(0, 200)), rng.randbytes(rng.randrange(0, 150)),
                         rng.randrange(1, 12), rng.randrange(1, 3 * hlen + 2)))
        for pw_, salt, it, dk in todo:
            cases.append((f"hash.{op} {hx(pw_)} {hx(salt)} {it} {dk}",
                          "ok " + hashlib.pbkdf2_hmac(hname, pw_, salt, it, dk).hex()))
        out["hash." + op] = cases

    cases = []
    for n, v in SIP_KAT.items():
        cases.append((f"hash.siphash {SIP_K0} {SIP_K1} {hx(bytes(range(n)))}", f"ok {v}"))
    for n in range(0, 64):
        cases.append(_siphash_line(SIP_K0, SIP_K1, bytes(range(n))))
    words = [0, 1, 2**32 - 1, 2**32, 2**63 - 1, 2**63, 2**64 - 1]
    for k0 in words:
        for k1 in (0, 2**64 - 1, rng.getrandbits(64)):
            cases.append(_siphash_line(k0, k1, _msg(rng, rng.randrange(0, 40))))
    for n in [32, 255, 256, 257, 263, 264, 511, 512, 513, 1000]:  # the length byte wraps at 256
        cases.append(_siphash_line(rng.getrandbits(64), rng.getrandbits(64), _msg(rng, n)))
    for _ in range(ctx.n(100, 2000)):
        cases.append(_siphash_line(rng.getrandbits(64), rng.getrandbits(64), _msg(rng, rng.randrange(0, 80))))
    for k0, k1 in ((2**64, 0), (0, 2**64), (2**64 + 5, 2**70)):  # btclib refuses words that do not fit
        cases.append(_siphash_line(k0, k1, b"\x00"))
    out["hash.siphash"] = cases
    return out


def validate_hashes(ctx, exe) -> bool:
    """Run every `hash.*` stream against driver `exe`; returns True when nothing disagreed.

    Mismatches are recorded on ctx as correspondence findings (streams `hash.<name>`)."""
    before = len([f for f in ctx.findings if f.stream.startswith("hash.")])
    _self_check(ctx)
    for stream, cases in hash_cases(ctx).items():
        ctx.correspond(stream, exe, cases, key=stream)
    while _REF_BAD:
        ctx.streams["hash.reference"]["mismatches"] += 1
        ctx.fail("correspondence", "hash.reference", "python-side reference disagreement: " + _REF_BAD.pop(),
                 key="hash.reference")
    return len([f for f in ctx.findings if f.stream.startswith("hash.")]) == before
