"""C08 layer 5: every spend form with signatures produced by btclib's own signing primitives, mutated, run through
`verify_input` and through the Lean transcription of Core's VerifyScript (signature oracle answered from
sig_hash + dsa/ssa)."""
from __future__ import annotations

from btclib.curves import mult, secp256k1 as ec
from btclib.ecc import dsa, ssa
from btclib.hashes import hash160, sha256, tagged_hash
from btclib.script import sig_hash

from . import c08_gen as G
from . import c08_spend as SP
from .common import hx, rand_bytes

N = ec.n
KEYS = [0x1111111111111111111111111111111111111111111111111111111111111111 + 7 * i for i in range(1, 6)]


def pub(q, compressed=True):
    x, y = mult(q)
    if compressed:
        return bytes([2 + (y & 1)]) + x.to_bytes(32, "big")
    return b"\x04" + x.to_bytes(32, "big") + y.to_bytes(32, "big")


def xonly(q):
    return mult(q)[0].to_bytes(32, "big")


def der_int(v, pad=0, longlen=False):
    b = v.to_bytes((v.bit_length() + 8) // 8 or 1, "big")
    b = b"\x00" * pad + b
    ln = bytes([0x81, len(b)]) if longlen else bytes([len(b)])
    return b"\x02" + ln + b


def der(r, s, ht, mut="valid"):
    if mut == "lax_pad":
        body = der_int(r, pad=1) + der_int(s)
    elif mut == "lax_longlen":
        body = der_int(r, longlen=True) + der_int(s)
    else:
        body = der_int(r) + der_int(s)
    out = b"\x30" + bytes([len(body)]) + body
    if mut == "lax_trailing":
        out = b"\x30" + bytes([len(body) + 1]) + body + b"\x00"
    return out + bytes([ht])


SIG_MUTS = ["valid", "valid", "valid", "high_s", "lax_pad", "lax_longlen", "lax_trailing", "wrong_key", "empty",
            "ht_undefined", "ht_other", "wrong_msg", "r_not_x", "s_overflow"]


class Spend:
    def __init__(self, rng, lt, seq, ver, amount):
        self.rng, self.lt, self.seq, self.ver, self.amount = rng, lt, seq, ver, amount
        self.spk = b""
        self.notes = []

    def tx(self):
        return SP.mk_tx(b"", [], self.lt, self.seq, self.ver, self.amount, self.spk)

    def ecdsa(self, q, script_code, segwit, mut):
        """a signature by key q over script_code, mutated"""
        rng = self.rng
        self.notes.append(mut)
        if mut == "empty":
            return b""
        ht = 1
        if mut == "ht_undefined":
            ht = rng.choice([0, 4, 0x80, 0x84, 0xFF])
        elif mut == "ht_other":
            ht = rng.choice([2, 3, 0x81, 0x82, 0x83])
        tx, _ = self.tx()
        h = sig_hash.segwit_v0(script_code, tx, 0, ht, self.amount) if segwit else sig_hash.legacy(script_code, tx, 0, ht)
        if mut == "wrong_msg":
            h = sha256(h)
        if mut == "wrong_key":
            q = KEYS[4]
        sg = dsa.sign_(h, q)
        r, s = sg.r, sg.s
        if mut == "high_s":
            s = N - s
        if mut == "r_not_x":
            r = 5
        if mut == "s_overflow":
            s = N + 1
        return der(r, s, ht, mut)

    def schnorr(self, q, ext_flag, annex, ext, mut, prevouts_spk=None):
        rng = self.rng
        self.notes.append("s:" + mut)
        if mut == "empty":
            return b""
        ht = 0
        if mut == "ht_other":
            ht = rng.choice([1, 2, 3, 0x81, 0x82, 0x83])
        if mut == "ht_undefined":
            ht = rng.choice([4, 0x80, 0x84, 0xFF])
        tx, prevouts = self.tx()
        try:
            h = sig_hash.taproot(tx, 0, prevouts, ht if mut != "ht_undefined" else 1, ext_flag, annex, ext)
        except Exception:  # noqa: BLE001
            h = bytes(32)
        if mut == "wrong_msg":
            h = sha256(h)
        if mut == "wrong_key":
            q = KEYS[4]
        sg = ssa.sign_(h, q).serialize()
        if ht:
            sg += bytes([ht])
        if mut == "explicit_default":
            sg += b"\x00"
        if mut == "len66":
            sg += b"\x00\x00" if not ht else b"\x00"
        if mut == "len63":
            sg = sg[:63]
        return sg


SCHNORR_MUTS = ["valid", "valid", "valid", "ht_other", "ht_undefined", "wrong_key", "wrong_msg", "empty",
                "explicit_default", "len66", "len63"]


def p2pk(q, compressed=True):
    return G.push(pub(q, compressed)) + b"\xac"


def p2pkh(q):
    return b"\x76\xa9" + G.push(hash160(pub(q))) + b"\x88\xac"


def multisig(m, qs):
    return G.push_num(m) + b"".join(G.push(pub(q)) for q in qs) + G.push_num(len(qs)) + b"\xae"


def tap_leaf(script, ver=0xC0):
    return tagged_hash(b"TapLeaf", bytes([ver]) + SP.G_varint(len(script)) + script)


def tap_branch(a, b):
    return tagged_hash(b"TapBranch", min(a, b) + max(a, b))


def tap_output(internal_q, root):
    """(output x-only key, parity, output private key)"""
    px = xonly(internal_q)
    qx, parity, t = SP.tweak(px, root)
    d = internal_q if mult(internal_q)[1] % 2 == 0 else N - internal_q
    return qx, parity, (d + t) % N


def inner_script(s: Spend, kind, segwit):
    """(script, stack items bottom-first as a function of the script) for P2SH / P2WSH inner scripts"""
    rng = s.rng
    if kind == "pk":
        q = KEYS[0]
        sc = p2pk(q, rng.random() < 0.8 or segwit and rng.random() < 0.7)
        return sc, lambda: [s.ecdsa(q, sc, segwit, rng.choice(SIG_MUTS))]
    if kind == "ms":
        qs = KEYS[:3]
        sc = multisig(2, qs)
        muts = [rng.choice(SIG_MUTS), rng.choice(SIG_MUTS)] if rng.random() < 0.4 else ["valid", rng.choice(SIG_MUTS)]
        order = rng.choice([(0, 1), (0, 2), (1, 2), (1, 0)])
        dummy = b"" if rng.random() < 0.85 else b"\x01"
        return sc, lambda: [dummy] + [s.ecdsa(qs[i], sc, segwit, m) for i, m in zip(order, muts)]
    if kind == "free":
        sc, st = rng.choice([(b"\x51", []), (b"\x87", [b"\x05", b"\x05"]), (b"\x93\x55\x87", [b"\x02", b"\x03"]),
                             (b"\x00", []), (b"\x51\x51", []), (b"\x63\x51\x67\x00\x68", [b"\x01"]),
                             (b"\x63\x51\x67\x00\x68", [b"\x02"]), (b"\xb1\x75\x51", []), (b"\x75\x51", [bytes(521)]),
                             (b"\x75\x51", [bytes(520)]), (b"\x6a", []), (b"\x51\x69", [b"\x01"])])
        return sc, lambda: list(st)
    if kind == "locktime":
        if rng.random() < 0.5:
            o = rng.choice([s.lt, s.lt - 1, s.lt + 1, G.LT_T - 1, G.LT_T, G.LT_T + 1, 0])
            sc = G.push_num(max(o, -1)) + b"\xb1\x75\x51"
        else:
            m = s.seq & 0x40FFFF
            o = rng.choice([m, m - 1, m + 1, 0x400000, 0x3FFFFF, 0x80000000, 0x80000000 | m, 0])
            sc = G.push_num(max(o, -1)) + b"\xb2\x75\x51"
        return sc, lambda: []
    if kind == "codesep":
        q = KEYS[1]
        sc = b"\x51\x75\xab" + p2pk(q)
        code = p2pk(q) if True else sc
        return sc, lambda: [s.ecdsa(q, code if not segwit else code, segwit, rng.choice(["valid", "wrong_msg"]))]
    raise ValueError(kind)


FORCE = {}


def _pick(rng, key, choices):
    """`rng.choice(choices)`, unless `FORCE` pins this decision (the fixed script-path cases of `run`)"""
    return FORCE[key] if key in FORCE else rng.choice(choices)


def build(rng):
    """one spend: (label, scriptSig, scriptPubKey, witness bottom-first, amount, lt, seq, ver)"""
    lt, seq, ver = rng.choice([(0, 0xFFFFFFFF, 1), (0, 0xFFFFFFFE, 2), (10, 5, 2),
                               (rng.choice(G.LOCKTIMES), rng.choice(G.SEQUENCES), rng.choice(G.VERSIONS))])
    s = Spend(rng, lt, seq, ver, rng.choice([0, 1, 12345678, 21 * 10**14]))
    form = _pick(rng, "form", ["p2pk", "p2pkh", "ms", "p2sh", "p2sh", "p2wpkh", "p2wpkh", "p2wsh", "p2wsh", "p2sh-p2wpkh",
                                "p2sh-p2wsh", "p2sh-p2wsh", "p2tr-key", "p2tr-key", "p2tr-script", "p2tr-script", "p2tr-script",
                                "future", "bare-free"])
    ss, wit = b"", []
    label = form
    if form == "p2pk":
        q = KEYS[0]
        s.spk = p2pk(q, rng.random() < 0.7)
        ss = G.push(s.ecdsa(q, s.spk, False, rng.choice(SIG_MUTS)))
    elif form == "p2pkh":
        q = KEYS[1]
        s.spk = p2pkh(q)
        ss = G.push(s.ecdsa(q, s.spk, False, rng.choice(SIG_MUTS))) + G.push(pub(q))
    elif form == "ms":
        s.spk, items = inner_script(s, "ms", False)
        ss = b"".join(G.push(x) for x in items())
    elif form == "bare-free":
        s.spk, items = inner_script(s, rng.choice(["free", "locktime"]), False)
        ss = b"".join(G.push(x) for x in items())
    elif form == "p2sh":
        redeem, items = inner_script(s, rng.choice(["pk", "ms", "free", "codesep", "locktime"]), False)
        s.spk = b"\xa9" + G.push(hash160(redeem)) + b"\x87"
        ss = b"".join(G.push(x) for x in items()) + G.push(redeem)
    elif form in ("p2wpkh", "p2sh-p2wpkh"):
        q = KEYS[2]
        pk = pub(q, rng.random() < 0.9)
        prog = b"\x00" + G.push(hash160(pk))
        code = b"\x76\xa9" + G.push(hash160(pk)) + b"\x88\xac"
        if form == "p2wpkh":
            s.spk = prog
        else:
            s.spk = b"\xa9" + G.push(hash160(prog)) + b"\x87"
            ss = G.push(prog)
        wit = [s.ecdsa(q, code, True, rng.choice(SIG_MUTS)), pk]
    elif form in ("p2wsh", "p2sh-p2wsh"):
        ws, items = inner_script(s, rng.choice(["pk", "ms", "free", "free", "codesep", "locktime"]), True)
        prog = b"\x00" + G.push(sha256(ws))
        if form == "p2wsh":
            s.spk = prog
        else:
            s.spk = b"\xa9" + G.push(hash160(prog)) + b"\x87"
            ss = G.push(prog)
        wit = items() + [ws]
    elif form == "p2tr-key":
        q = KEYS[3]
        root = b"" if rng.random() < 0.5 else tap_leaf(b"\x51")
        qx, _, d = tap_output(q, root)
        s.spk = b"\x51" + G.push(qx)
        annex = b"\x50" + rand_bytes(rng, rng.randrange(4)) if rng.random() < 0.25 else b""
        wit = [s.schnorr(d, 0, annex, b"", rng.choice(SCHNORR_MUTS))]
        if annex:
            wit.append(annex)
            label += "+annex"
    elif form == "p2tr-script":
        q = KEYS[3]
        kind = _pick(rng, "kind", ["checksig", "checksig", "csa", "free", "success", "leafver", "ff", "codesep", "upgkey", "budget",
                                   "locktime"])
        leaf_ver = 0xC0
        k1, k2 = KEYS[0], KEYS[1]
        if kind in ("checksig", "upgkey"):
            leaf = G.push(xonly(k1) if kind == "checksig" else xonly(k1) + b"\x01") + b"\xac"
        elif kind == "codesep":
            leaf = b"\x51\x75\xab" + G.push(xonly(k1)) + b"\xac"
        elif kind == "csa":
            leaf = G.push(xonly(k1)) + b"\xac" + G.push(xonly(k2)) + b"\xba\x52\x87"
        elif kind == "budget":
            # budget = 50 + serialized witness size: k non-empty signatures against an upgradable 33-byte key
            unit = G.push(b"\x02" + bytes(32)) + b"\xac\x75"          # <key33> CHECKSIG DROP, signature from the witness
            nsig = rng.choice([1, 2, 3, 4, 5, 6])
            leaf = unit * nsig + b"\x51"
        elif kind == "locktime":
            leaf = inner_script(s, "locktime", True)[0]
        elif kind == "free":
            leaf = rng.choice([b"\x51", b"\x00", b"\x51\x51", b"\x63\x51\x67\x00\x68", b"\x02\x00\x00\x63\x51\x68\x51"])
        elif kind == "success":
            leaf = rng.choice([b"\x50", b"\x51\x50", b"\xff\x50", b"\x50\xff", b"\x4c\x50", b"\x50\x4c", b"\x7e", b"\x00\x63\xbb\x68\x51",
                               b"\x02\x50"])
        elif kind == "ff":
            leaf = rng.choice([b"\x00\x63\xff\x68\x51", b"\xff", b"\x51\xff", b"\x51\x63\x00\xff\x68", b"\x51\x64\xff\x68"])
        else:
            leaf = b"\x51"
            leaf_ver = rng.choice([0xC2, 0xC4, 0x66, 0x50])
        lh = tap_leaf(leaf, leaf_ver)
        path = [tap_leaf(b"\x52")] if rng.random() < 0.5 else []
        root = lh
        for n_ in path:
            root = tap_branch(root, n_)
        qx, parity, _ = tap_output(q, root)
        s.spk = b"\x51" + G.push(qx)
        control = bytes([leaf_ver + parity]) + xonly(q) + b"".join(path)
        annex = b"\x50" + rand_bytes(rng, rng.randrange(3)) if rng.random() < 0.2 else b""
        if "annex" in FORCE:
            annex = b"\x50\x01\x02" if FORCE["annex"] else b""
        items = []
        if kind in ("checksig", "upgkey", "codesep"):
            pos = 2 if kind == "codesep" else 0xFFFFFFFF
            ext = lh + b"\x00" + pos.to_bytes(4, "little")
            items = [s.schnorr(k1, 1, annex, ext, _pick(rng, "mut", SCHNORR_MUTS))]
        elif kind == "csa":
            ext = lh + b"\x00" + (0xFFFFFFFF).to_bytes(4, "little")
            items = [s.schnorr(k2, 1, annex, ext, _pick(rng, "mut", SCHNORR_MUTS)), s.schnorr(k1, 1, annex, ext, _pick(rng, "mut", SCHNORR_MUTS))]
        elif kind == "budget":
            items = [rng.choice([b"\x01", b"\x01", b""]) for _ in range(nsig)]
            if rng.random() < 0.5:
                # pad the witness so that the budget lands on 50*nsig - 1 / 50*nsig / 50*nsig + 1
                base = SP.witness_size(items + [leaf, control] + ([annex] if annex else []))
                want = 50 * sum(1 for x in items if x) + rng.choice([-1, 0, 1]) - 50
                pad = want - base - 1
                if 0 <= pad <= 520 and annex == b"":
                    annex = b"\x50" + bytes(max(pad - 1, 0)) if pad >= 1 else b""
        elif kind == "free" and leaf == b"\x63\x51\x67\x00\x68":
            items = [rng.choice([b"\x01", b"", b"\x02", b"\x01\x00"])]
        wit = items + [leaf, control]
        if annex:
            wit.append(annex)
        label += ":" + kind
    elif form == "future":
        ver_op = rng.choice([0x51, 0x52, 0x53, 0x60, 0x00])
        prog = rand_bytes(rng, rng.choice([2, 20, 32, 33, 40, 41, 1]))
        if rng.random() < 0.2:
            ver_op, prog = 0x51, b"\x4e\x73"
        s.spk = bytes([ver_op]) + G.push(prog)
        wit = [b"\x01"] if rng.random() < 0.5 else []
        if rng.random() < 0.3:
            inner = s.spk
            s.spk = b"\xa9" + G.push(hash160(inner)) + b"\x87"
            ss = G.push(inner)
            label += "-p2sh"

    # structural mutations
    m = _pick(rng, "m", ["none"] * 10 + ["ss_extra_push", "ss_pushdata1", "ss_nonempty", "wit_unexpected", "wit_extra", "wit_drop",
                                    "wit_script_flip", "ctrl_flip", "ctrl_trunc", "oversize", "ss_nonpush", "ss_extra_tail",
                                    "prog_flip", "ss_empty", "ss_pushdata2", "parity_flip", "annex_like", "annex_like"])
    if m == "ss_extra_push":
        ss = rng.choice([b"\x02\x01\x02", b"\x00", b"\x51"]) + ss
    elif m == "ss_pushdata1" and ss:
        # re-spell the last push of the scriptSig with OP_PUSHDATA1
        spans = []
        pos = 0
        from btclib.script.script import op_code_spans
        spans = list(op_code_spans(ss))
        if spans and 0 < spans[-1][0] < 76:
            o, a, b = spans[-1]
            ss = ss[:a] + b"\x4c" + bytes([o]) + ss[a + 1:b]
    elif m == "ss_pushdata2" and ss:
        from btclib.script.script import op_code_spans
        spans = list(op_code_spans(ss))
        if spans and 0 < spans[-1][0] < 76:
            o, a, b = spans[-1]
            w = rng.choice([2, 4])
            ss = ss[:a] + bytes([0x4D if w == 2 else 0x4E]) + o.to_bytes(w, "little") + ss[a + 1:b]
    elif m == "parity_flip" and form == "p2tr-script":
        i = -2 if wit[-1][:1] == b"\x50" and len(wit) >= 3 else -1
        if wit[i]:
            wit[i] = bytes([wit[i][0] ^ 1]) + wit[i][1:]
    elif m == "annex_like" and wit:
        # what is, and what is almost, an annex: tag 0x50 last / not last, 0x4f, 0x51, empty, on a one-element stack
        tag = rng.choice([b"\x50", b"\x50\x01", b"\x4f", b"\x51", b"", b"\x50" + bytes(600)])
        if rng.random() < 0.7:
            wit = wit + [tag]
        else:
            wit = [tag] + wit
    elif m == "ss_nonempty":
        ss = ss + rng.choice([b"\x00", b"\x51", b"\x61"])
    elif m == "ss_extra_tail":
        ss = ss + b"\x51"
    elif m == "ss_empty":
        ss = b""
    elif m == "ss_nonpush":
        ss = b"\x61" + ss
    elif m == "wit_unexpected" and not wit:
        wit = [b"\x01"]
    elif m == "wit_extra":
        wit = [rng.choice([b"", b"\x01", bytes(33)])] + wit
    elif m == "wit_drop" and wit:
        wit = wit[1:] if rng.random() < 0.5 else wit[:-1]
    elif m == "wit_script_flip" and len(wit) >= 1:
        i = -2 if form == "p2tr-script" and len(wit) >= 2 else -1
        if wit[i]:
            wit[i] = wit[i][:-1] + bytes([wit[i][-1] ^ 1])
    elif m == "ctrl_flip" and form == "p2tr-script":
        c = bytearray(wit[-1] if not wit[-1].startswith(b"\x50") or len(wit) < 3 else wit[-2])
        if c:
            c[rng.randrange(len(c))] ^= 1 << rng.randrange(8)
            wit[-1 if not wit[-1].startswith(b"\x50") or len(wit) < 3 else -2] = bytes(c)
    elif m == "ctrl_trunc" and form == "p2tr-script":
        wit[-1] = wit[-1][: rng.choice([0, 1, 32, 33, 34, 64])]
    elif m == "oversize" and wit:
        wit = [bytes(rng.choice([520, 521, 600]))] + wit
    elif m == "prog_flip" and s.spk:
        b = bytearray(s.spk)
        b[rng.randrange(len(b))] ^= 1
        s.spk = bytes(b)
    label += "/" + m + "/" + "+".join(s.notes)
    return label, ss, s.spk, wit, s.amount, lt, seq, ver


CONSENSUS = ["P2SH", "DERSIG", "NULLDUMMY", "CHECKLOCKTIMEVERIFY", "CHECKSEQUENCEVERIFY", "WITNESS", "TAPROOT"]
POLICY = [n for n in SP.ALL_NAMES if n not in CONSENSUS]


def closed(names):
    """Core asserts WITNESS => P2SH and CLEANSTACK => P2SH & WITNESS"""
    s = set(names)
    if "CLEANSTACK" in s:
        s |= {"P2SH", "WITNESS"}
    if "WITNESS" in s or "TAPROOT" in s:
        s |= {"P2SH", "WITNESS"} if "TAPROOT" in s else {"P2SH"}
    return ",".join(sorted(s)) if s else "-"


def flag_choices(rng):
    out = ["-", closed(CONSENSUS), closed(SP.ALL_NAMES), "P2SH", closed(["P2SH", "WITNESS"])]
    for n in SP.ALL_NAMES:
        out.append(closed([n]))
        out.append(closed(CONSENSUS + [n]))
    for _ in range(40):
        k = rng.choice([2, 3, 5, 8, 12])
        out.append(closed(rng.sample(SP.ALL_NAMES, k)))
        out.append(closed(CONSENSUS + rng.sample(POLICY, min(k, len(POLICY)))))
    return out


# fixed cases: the two design-time divergences (now repaired in /repo) and their neighbours
def corpus():
    redeem_ws = b"\x51"
    prog = b"\x00" + G.push(sha256(redeem_ws))
    spk = b"\xa9" + G.push(hash160(prog)) + b"\x87"
    fl = closed(["P2SH", "WITNESS"])
    out = []
    for name, ss in (("exact", G.push(prog)), ("extra-push", b"\x02\x01\x02" + G.push(prog)),
                     ("pushdata1", b"\x4c" + bytes([len(prog)]) + prog), ("extra-op0", b"\x00" + G.push(prog)),
                     ("pushdata2", b"\x4d" + len(prog).to_bytes(2, "little") + prog),
                     ("pushdata4", b"\x4e" + len(prog).to_bytes(4, "little") + prog),
                     ("trailing-nop", G.push(prog) + b"\x61"), ("empty", b"")):
        out.append(("corpus:p2sh-p2wsh/" + name, fl, ss, spk, [redeem_ws], 0))
        out.append(("corpus:p2sh-p2wsh-noflag/" + name, "P2SH", ss, spk, [redeem_ws], 0))
    q = KEYS[3]
    for leaf in (b"\x00\x63\xff\x68\x51", b"\xff\x50", b"\x50\xff", b"\xff", b"\x51\xff", b"\x51\x63\x00\xff\x68"):
        lh = tap_leaf(leaf)
        qx, parity, _ = tap_output(q, lh)
        control = bytes([0xC0 + parity]) + xonly(q)
        out.append(("corpus:tapscript-0xff/" + leaf.hex(), closed(CONSENSUS), b"", b"\x51" + G.push(qx), [leaf, control], 1))
    # lax_der_signature_refused: a valid p2pk signature spelled with a long-form length, no DER flag
    import random
    sp = Spend(random.Random(0), 0, 0xFFFFFFFF, 1, 0)
    sp.spk = p2pk(KEYS[0])
    for mut in ("lax_longlen", "lax_trailing", "lax_pad", "valid"):
        out.append(("corpus:lax-der/" + mut, "-", G.push(sp.ecdsa(KEYS[0], sp.spk, False, mut)), sp.spk, [], 0))
    # op_success_oversized_witness_element_refused: OP_SUCCESS leaf, 520 / 521-byte witness element
    lh = tap_leaf(b"\x50")
    qx, parity, _ = tap_output(KEYS[3], lh)
    for n in (520, 521):
        out.append((f"corpus:op-success-oversize/{n}", closed(CONSENSUS), b"", b"\x51" + G.push(qx),
                    [bytes(n), b"\x50", bytes([0xC0 + parity]) + xonly(KEYS[3])], 0))
    # strictenc_hashtype_zero_accepted: a valid signature over hash type 0, STRICTENC
    sp0 = Spend(random.Random(3), 0, 0xFFFFFFFF, 1, 0)      # rng whose first ht_undefined choice is 0 is not assumed:
    sp0.spk = p2pk(KEYS[0])
    tx0, _ = sp0.tx()
    sg0 = dsa.sign_(sig_hash.legacy(sp0.spk, tx0, 0, 0), KEYS[0])
    out.append(("corpus:hashtype0/strictenc", "STRICTENC", G.push(der(sg0.r, sg0.s, 0)), sp0.spk, [], 0))
    out.append(("corpus:hashtype0/none", "-", G.push(der(sg0.r, sg0.s, 0)), sp0.spk, [], 0))
    # schnorr_sig_size_accepted (repaired in /repo): key path with 64 / 66 / 63 bytes
    qx, _, d = tap_output(KEYS[3], b"")
    sp = Spend(random.Random(0), 0, 0xFFFFFFFF, 1, 0)
    sp.spk = b"\x51" + G.push(qx)
    for mut in ("valid", "len66", "len63", "explicit_default"):
        out.append(("corpus:schnorr-size/" + mut, closed(CONSENSUS), b"", sp.spk, [sp.schnorr(d, 0, b"", b"", mut)], 0))
    return out


def classify(ln, io, mo):
    if "foreign" in io or not (io.startswith("ok") or io.startswith("err")):
        return "foreign_exception"
    return SP.classify_named(ln, io, mo)


def run(ctx, spec):
    rng = ctx.rng
    lines = []
    for label, fl, ss, spk, wit, amount in corpus():
        lines.append(f"verify {fl} {hx(ss)} {hx(spk)} {SP.hexlist(wit)} 0 4294967295 1 {amount} ask")
        ctx.count("verify.forms", label.split("/")[0])
    flags = flag_choices(rng)
    # fixed cases first: the unmutated taproot script path with valid signatures, every signing leaf kind (OP_CHECKSIG,
    # OP_CODESEPARATOR at op code position 2 before it, OP_CHECKSIGADD) with and without an annex, under the consensus flags
    fixed = [{"form": "p2tr-script", "kind": k, "annex": a, "mut": "valid", "m": "none"}
             for k in ("checksig", "codesep", "csa") for a in (False, True)]
    for j in range(ctx.n(700, 20000)):
        FORCE.clear()
        if j < len(fixed):
            FORCE.update(fixed[j])
        label, ss, spk, wit, amount, lt, seq, ver = build(rng)
        FORCE.clear()
        fl = (rng.choice(flags) if rng.random() < 0.75 else closed(CONSENSUS)) if j >= len(fixed) else closed(CONSENSUS)
        lines.append(f"verify {fl} {hx(ss)} {hx(spk)} {SP.hexlist(wit)} {lt} {seq} {ver} {amount} ask")
        ctx.count("verify.forms", label.split("/")[0])
        ctx.count("verify.mutations", label.split("/")[1])
        if label.startswith("p2tr-script") and label.split("/")[1] == "none":
            # taproot script path, unmutated: is an annex present, where does the last executed OP_CODESEPARATOR stand,
            # and what does the real engine say
            has_annex = len(wit) >= 2 and wit[-1][:1] == b"\x50"
            io = SP.impl_verify(lines[-1].split(" "))
            ctx.count("verify.taproot-script-path", f"{label.split('/')[0].split(':')[-1]}{'+annex' if has_annex else ''}:{io}")
    spec(ctx, "core.verify_input", lines, classify)
