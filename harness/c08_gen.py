"""Generators for C08: number blobs, raw byte scripts, and a typed-stack script program grammar."""
from __future__ import annotations

from .common import rand_bytes

# ------------------------------------------------------------------ small things


def enc(i: int) -> bytes:
    """CScriptNum::serialize (independent of btclib)."""
    if i == 0:
        return b""
    a = abs(i)
    out = bytearray()
    while a:
        out.append(a & 0xFF)
        a >>= 8
    if out[-1] & 0x80:
        out.append(0x80 if i < 0 else 0)
    elif i < 0:
        out[-1] |= 0x80
    return bytes(out)


def push(d: bytes, form: int | None = None) -> bytes:
    """push of d; form None = minimal operator, 76/77/78 = that PUSHDATA"""
    n = len(d)
    if form is None:
        form = n if n < 76 else 76 if n < 256 else 77 if n < 65536 else 78
    if form < 76:
        return bytes([n]) + d
    w = 1 << (form - 76)
    if n >= 1 << (8 * w):
        return push(d)
    return bytes([form]) + n.to_bytes(w, "little") + d


def push_num(i: int) -> bytes:
    if i == 0:
        return b"\x00"
    if i == -1:
        return b"\x4f"
    if 1 <= i <= 16:
        return bytes([0x50 + i])
    return push(enc(i))


def number_blobs(rng, n):
    out = [b"", b"\x00", b"\x80", b"\x01", b"\x81", b"\x7f", b"\xff", b"\x00\x00", b"\x00\x80", b"\x80\x00",
           b"\x80\x80", b"\xff\x00", b"\xff\x80", b"\x00\x01", b"\xff\xff\xff\x7f", b"\xff\xff\xff\xff",
           b"\xff\xff\xff\xff\x00", b"\xff\xff\xff\xff\x80", b"\x00\x00\x00\x80", b"\x00\x00\x00\x00\x80",
           b"\x00" * 8 + b"\x80", b"\xff" * 8, b"\xff" * 9]
    for v in (0, 1, -1, 127, 128, -128, 255, 256, 32767, 32768, 2**31 - 1, 2**31, -(2**31), 2**39 - 1, 2**63 - 1,
              -(2**63) + 1):
        e = enc(v)
        out += [e, e + b"\x00", e + b"\x80", e[:-1] if e else e]
    while len(out) < n:
        k = rng.choice([0, 1, 1, 2, 2, 3, 4, 4, 5, 5, 6, 8, 9, 10])
        b = bytearray(rand_bytes(rng, k))
        r = rng.random()
        if b and r < 0.35:
            b[-1] = rng.choice([0, 0x80, 0x7F, 0xFF, 1, 0x81])
        if len(b) > 1 and r < 0.2:
            b[-2] = rng.choice([0, 0x80, 0x7F, 0xFF])
        if b and 0.35 <= r < 0.5:
            b = bytearray(len(b) - 1) + b[-1:]
        out.append(bytes(b))
    return out[:max(n, 60)]


def byte_scripts(rng, n):
    """raw byte strings read as scripts: random bytes, valid pushes of every width, truncations"""
    out = [b"", b"\x00", b"\x4c", b"\x4d\x01", b"\x4e\x01\x00\x00", b"\x4c\x00", b"\x4d\x00\x00", b"\x4e\x00\x00\x00\x00",
           b"\x01", b"\x4b" + b"\x11" * 75, b"\x4b" + b"\x11" * 74, b"\x4c\x4c" + b"\x22" * 76, b"\x4d\x00\x01" + b"\x33" * 256,
           b"\x4e\xff\xff\xff\xff", b"\x4e\x00\x00\x00\x80" + b"\x00" * 10, b"\xff", b"\x50", b"\x61\x4f"]
    while len(out) < n:
        parts = []
        for _ in range(rng.randrange(1, 9)):
            r = rng.random()
            if r < 0.35:
                parts.append(bytes([rng.randrange(256)]))
            elif r < 0.8:
                ln = rng.choice([0, 1, 2, 5, 20, 32, 33, 74, 75, 76, 77, 100, 255, 256, 300, 520, 521])
                form = rng.choice([None, None, 76, 77, 78])
                if form is None or ln < (1 << (8 * (1 << (form - 76)))):
                    if form is not None and form < 76:
                        form = None
                    parts.append(push(rand_bytes(rng, min(ln, 600)) if ln <= 600 else b"", form))
            else:
                parts.append(rand_bytes(rng, rng.randrange(4)))
        b = b"".join(parts)
        r = rng.random()
        if r < 0.25 and b:
            b = b[: rng.randrange(len(b))]
        elif r < 0.35 and b:
            k = rng.randrange(len(b))
            b = b[:k] + bytes([b[k] ^ (1 << rng.randrange(8))]) + b[k + 1:]
        out.append(b)
    return out[:max(n, 30)]


def fad_cases(rng, n):
    out = [(b"", b""), (b"\x00", b"\x00"), (b"\x02\x00\x00", b"\x00"), (b"\x01\x01\x01\x01", b"\x01\x01"),
           (b"\x03\x02\xff\x03\x02\xff\x03", b"\x02\xff\x03"), (b"\x02\xfe\xed\x51", b"\xfe\xed\x51"),
           (b"\x00\x02\xfe\xed\x51\x00", b"\x00"), (b"\x4c\x01\x01\x01\x01", b"\x01\x01")]
    while len(out) < n:
        sig = rand_bytes(rng, rng.choice([0, 1, 1, 2, 3, 9]))
        needle = push(sig) if rng.random() < 0.8 else rand_bytes(rng, rng.randrange(1, 4))
        parts = []
        for _ in range(rng.randrange(1, 8)):
            r = rng.random()
            if r < 0.4:
                parts.append(needle)
            elif r < 0.6:
                parts.append(push(needle + rand_bytes(rng, rng.randrange(3))))
            elif r < 0.8:
                parts.append(bytes([rng.choice([0x00, 0x51, 0x61, 0x75, 0xac, 0xab, 0x01, 0x02, 0x4c])]))
            else:
                parts.append(push(rand_bytes(rng, rng.randrange(4)), rng.choice([None, 76, 77])))
        s = b"".join(parts)
        if rng.random() < 0.2 and s:
            s = s[: rng.randrange(len(s))]
        out.append((s, needle))
    return out


# ------------------------------------------------------------------ the typed-stack program grammar
# (name, code, inputs (bottom..top), outputs); 'n' number <= 4 bytes, 'x' anything
A = "x"
N = "n"
OPS = [
    ("NOP", 0x61, [], []),
    ("DUP", 0x76, [A], None), ("DROP", 0x75, [A], []), ("SWAP", 0x7C, [A, A], None), ("OVER", 0x78, [A, A], None),
    ("ROT", 0x7B, [A, A, A], None), ("TUCK", 0x7D, [A, A], None), ("NIP", 0x77, [A, A], None),
    ("2DUP", 0x6E, [A, A], None), ("3DUP", 0x6F, [A, A, A], None), ("2OVER", 0x70, [A, A, A, A], None),
    ("2ROT", 0x71, [A] * 6, None), ("2SWAP", 0x72, [A] * 4, None), ("2DROP", 0x6D, [A, A], []),
    ("IFDUP", 0x73, [A], None), ("DEPTH", 0x74, [], [N]), ("SIZE", 0x82, [A], None),
    ("TOALT", 0x6B, [A], None), ("FROMALT", 0x6C, [], None),
    ("EQUAL", 0x87, [A, A], [N]),
    ("1ADD", 0x8B, [N], [N]), ("1SUB", 0x8C, [N], [N]), ("NEGATE", 0x8F, [N], [N]), ("ABS", 0x90, [N], [N]),
    ("NOT", 0x91, [N], [N]), ("0NOTEQUAL", 0x92, [N], [N]),
    ("ADD", 0x93, [N, N], [N]), ("SUB", 0x94, [N, N], [N]), ("BOOLAND", 0x9A, [N, N], [N]), ("BOOLOR", 0x9B, [N, N], [N]),
    ("NUMEQUAL", 0x9C, [N, N], [N]), ("NUMNOTEQUAL", 0x9E, [N, N], [N]), ("LESSTHAN", 0x9F, [N, N], [N]),
    ("GREATERTHAN", 0xA0, [N, N], [N]), ("LESSTHANOREQUAL", 0xA1, [N, N], [N]), ("GREATERTHANOREQUAL", 0xA2, [N, N], [N]),
    ("MIN", 0xA3, [N, N], [N]), ("MAX", 0xA4, [N, N], [N]), ("WITHIN", 0xA5, [N, N, N], [N]),
    ("RIPEMD160", 0xA6, [A], [A]), ("SHA1", 0xA7, [A], [A]), ("SHA256", 0xA8, [A], [A]), ("HASH160", 0xA9, [A], [A]),
    ("HASH256", 0xAA, [A], [A]),
    ("CODESEPARATOR", 0xAB, [], []),
    ("NOP1", 0xB0, [], []), ("CLTV", 0xB1, [N], [N]), ("CSV", 0xB2, [N], [N]), ("NOP4", 0xB3, [], []), ("NOP10", 0xB9, [], []),
]
SHUFFLE = {
    "DUP": lambda s: s + [s[-1]], "SWAP": lambda s: s[:-2] + [s[-1], s[-2]], "OVER": lambda s: s + [s[-2]],
    "ROT": lambda s: s[:-3] + [s[-2], s[-1], s[-3]], "TUCK": lambda s: s[:-2] + [s[-1], s[-2], s[-1]],
    "NIP": lambda s: s[:-2] + [s[-1]], "2DUP": lambda s: s + s[-2:], "3DUP": lambda s: s + s[-3:],
    "2OVER": lambda s: s + s[-4:-2], "2ROT": lambda s: s[:-6] + s[-4:] + s[-6:-4], "2SWAP": lambda s: s[:-4] + s[-2:] + s[-4:-2],
    "IFDUP": lambda s: s, "SIZE": lambda s: s + [N],
}
DISABLED = [0x7E, 0x7F, 0x80, 0x81, 0x83, 0x84, 0x85, 0x86, 0x8D, 0x8E, 0x95, 0x96, 0x97, 0x98, 0x99]


def der_blob(rng, kind=None):
    """something shaped like a DER signature + hash type (never a valid signature of anything)"""
    n = 0xFFFFFFFFFFFFFFFFFFFFFFFFFFFFFFFEBAAEDCE6AF48A03BBFD25E8CD0364141

    def integer(v, pad=0):
        b = v.to_bytes((v.bit_length() + 8) // 8 or 1, "big")
        return b"\x02" + bytes([len(b) + pad]) + b"\x00" * pad + b

    kind = kind or rng.choice(["ok", "ok", "highs", "sovf", "rovf", "pad", "neg", "trunc", "ht", "zero", "junk", "long"])
    r = rng.randrange(1, n)
    s = rng.randrange(1, n // 2)
    if kind == "highs":
        s = rng.randrange(n // 2 + 1, n)
    elif kind == "sovf":
        s = rng.choice([n, n + 1, 2**256 - 1])
    elif kind == "rovf":
        r = rng.choice([n, n + 5, 2**256 - 1])
    elif kind == "zero":
        r, s = rng.choice([(0, s), (r, 0)])
    body = integer(r, 1 if kind == "pad" else 0) + integer(s)
    if kind == "neg":
        body = b"\x02\x01\x80" + integer(s)
    sig = b"\x30" + bytes([len(body)]) + body
    ht = rng.choice([1, 1, 2, 3, 0x81, 0x82, 0x83, 0, 4, 0x80, 0xFF]) if kind == "ht" else rng.choice([1, 1, 1, 2, 3, 0x81])
    sig += bytes([ht])
    if kind == "trunc":
        sig = sig[: rng.randrange(1, len(sig))]
    elif kind == "junk":
        sig = rand_bytes(rng, rng.choice([1, 8, 9, 70, 73, 74]))
    elif kind == "long":
        sig = b"\x30" + bytes([len(body) + 2]) + body + b"\x00\x00" + bytes([ht])
    return sig


def key_blob(rng):
    r = rng.random()
    if r < 0.35:
        return bytes([rng.choice([2, 3])]) + rand_bytes(rng, 32)
    if r < 0.5:
        return b"\x04" + rand_bytes(rng, 64)
    if r < 0.6:
        return bytes([rng.choice([6, 7])]) + rand_bytes(rng, 64)
    if r < 0.7:
        return b""
    if r < 0.8:
        return bytes([rng.choice([2, 3, 4, 5, 0])]) + rand_bytes(rng, rng.choice([0, 31, 32, 33, 63, 64, 65]))
    if r < 0.9:
        return rand_bytes(rng, 32)
    return rand_bytes(rng, rng.randrange(1, 70))


class Prog:
    """one program under construction: bytes + abstract stack"""

    def __init__(self, rng, tapscript=False, init=(), nosig=False):
        self.nosig = nosig
        self.rng = rng
        self.b = bytearray()
        self.st = list(init)
        self.alt = 0
        self.tap = tapscript
        self.nops = 0

    def emit(self, b, counted=0):
        self.b += b
        self.nops += counted

    def a_push(self):
        rng = self.rng
        r = rng.random()
        if r < 0.45:
            v = rng.choice([0, 1, 1, 2, 3, 5, 16, 17, -1, -2, 127, 128, 255, 256, 1000, 2**31 - 1, -(2**31) + 1,
                            rng.randrange(-70000, 70000)])
            self.emit(push_num(v))
            self.st.append(N)
        elif r < 0.55:
            # non-minimal spellings of numbers / pushes
            v = rng.choice([0, 1, 5, 16, -1, 200])
            e = rng.choice([enc(v) + b"\x00", enc(v), b"\x80", b"\x00", enc(v) + b"\x80" if v else b"\x00\x80"])
            form = rng.choice([None, 76, 77, 78])
            self.emit(push(e, form))
            self.st.append(N if len(e) <= 4 else A)
        elif r < 0.9:
            ln = rng.choice([0, 1, 1, 2, 4, 5, 8, 20, 32, 33, 65, 75, 76, 80, 255, 256, 519, 520])
            self.emit(push(rand_bytes(rng, ln), rng.choice([None, None, None, 76, 77, 78]) if ln < 200 else None))
            self.st.append(N if ln <= 4 else A)
        else:
            self.emit(push(rand_bytes(rng, rng.choice([521, 522, 600]))))
            self.st.append(A)

    def ensure(self, kinds):
        """push what is missing so that the top of the abstract stack matches `kinds`"""
        have = self.st[-len(kinds):] if kinds else []
        if len(have) == len(kinds) and all(k == A or h == N for h, k in zip(have, kinds)):
            return
        for k in kinds:
            if k == N:
                self.emit(push_num(self.rng.choice([0, 1, 2, 3, 7, -1, 100, -5, 65536])))
                self.st.append(N)
            else:
                self.a_push()

    def a_op(self):
        rng = self.rng
        name, code, ins, outs = rng.choice(OPS)
        if rng.random() < 0.85:
            self.ensure(ins)
        if name == "FROMALT":
            if self.alt == 0 and rng.random() < 0.8:
                return
            self.alt = max(0, self.alt - 1)
            self.st.append(A)
        elif name == "TOALT":
            self.alt += 1
            if self.st:
                self.st.pop()
        elif outs is None:
            if len(self.st) >= len(ins):
                self.st = SHUFFLE[name](self.st)
        else:
            if ins:
                del self.st[-len(ins):]
            self.st += outs
        self.emit(bytes([code]), 1)

    def a_boundary(self):
        """numeric op codes on operands sitting on their boundaries (equal, adjacent, zero, sign change, 4/5-byte edge)"""
        rng = self.rng
        vals = [0, 1, -1, 2, 5, 4, 6, 127, 128, -128, 2**31 - 1, -(2**31) + 1, 2**31 - 2]
        r = rng.random()
        if r < 0.35:
            mn, mx = sorted(rng.sample(vals, 2)) if rng.random() < 0.8 else (5, 5)
            x = rng.choice([mn, mx, mn - 1, mx - 1, mx + 1, mn + 1])
            if abs(x) >= 2**31:
                x = mn
            self.emit(push_num(x) + push_num(mn) + push_num(mx) + b"\xa5", 1)
        elif r < 0.8:
            a = rng.choice(vals)
            b = rng.choice([a, a + 1 if a < 2**31 - 1 else a, a - 1 if a > -(2**31) + 1 else a, rng.choice(vals), 0])
            code = rng.choice([0x93, 0x94, 0x9A, 0x9B, 0x9C, 0x9E, 0x9F, 0xA0, 0xA1, 0xA2, 0xA3, 0xA4])
            self.emit(push_num(a) + push_num(b) + bytes([code]), 1)
        elif r < 0.9:
            a = rng.choice(vals)
            self.emit(push_num(a) + bytes([rng.choice([0x8B, 0x8C, 0x8F, 0x90, 0x91, 0x92])]), 1)
        else:
            # the 4-byte operand / 5-byte result asymmetry: a result may overflow, the next op code may not read it
            a = rng.choice([2**31 - 1, -(2**31) + 1, 2**31 - 2])
            first = rng.choice([b"\x8b", b"\x8c", b"\x76\x93", b"\x8f\x8c"])
            second = rng.choice([b"\x8b", b"\x8c", b"\x91", b"\x82", b"\x75\x51", b"\x8f", b"\x00\x93"])
            self.emit(push_num(a) + first + second, 3)
        self.st.append(N)

    def a_pickroll(self):
        rng = self.rng
        d = len(self.st)
        k = rng.choice([0, 0, 1, 2, d - 1, d, d + 1, -1]) if d else rng.choice([0, 1, -1])
        self.emit(push_num(k))
        roll = rng.random() < 0.5
        self.emit(bytes([0x7A if roll else 0x79]), 1)
        if 0 <= k < d:
            t = self.st[-k - 1]
            if roll:
                del self.st[-k - 1]
            self.st.append(t)

    def a_verify(self):
        rng = self.rng
        r = rng.random()
        if r < 0.3:
            self.ensure([A])
            self.emit(b"\x76\x88", 2)      # DUP EQUALVERIFY
            self.st = self.st[:-1]
        elif r < 0.5:
            self.emit(push_num(rng.choice([1, 1, 1, 0, 5])) + b"\x69", 1)
        elif r < 0.7:
            self.ensure([N])
            self.emit(b"\x76\x9d", 2)      # DUP NUMEQUALVERIFY
            self.st = self.st[:-1]
        elif r < 0.8:
            self.ensure([A, A])
            self.emit(bytes([rng.choice([0x88, 0x9D])]), 1)
            self.st = self.st[:-2]
        else:
            self.ensure([A])
            self.emit(b"\x69", 1)
            self.st = self.st[:-1]

    def a_checksig(self):
        rng = self.rng
        sig = b"" if rng.random() < 0.4 else der_blob(rng)
        key = key_blob(rng)
        if self.tap:
            sig = b"" if rng.random() < 0.5 else rand_bytes(rng, rng.choice([64, 65, 63, 66, 1]))
            r = rng.random()
            if r < 0.4:
                self.emit(push(sig) + push(key) + bytes([rng.choice([0xAC, 0xAC, 0xAD])]), 1)
                self.st.append(N)
            else:
                self.emit(push(sig) + push_num(rng.choice([0, 1, 2, -1, 2**31 - 1])) + push(key) + b"\xba", 1)
                self.st.append(N)
            return
        r = rng.random()
        if r < 0.5:
            self.emit(push(sig) + push(key) + bytes([rng.choice([0xAC, 0xAC, 0xAD])]), 1)
            self.st.append(N)
        else:
            nk = rng.choice([0, 1, 1, 2, 3, 3, 20, 21])
            ns = rng.choice([0, 0, 1, 1, 2, nk, nk + 1]) if nk else rng.choice([0, 0, 1])
            ns = min(ns, 22)
            dummy = b"\x00" if rng.random() < 0.8 else rng.choice([b"\x51", b"\x01\x00", b""])
            body = dummy
            for _ in range(ns):
                body += push(b"" if rng.random() < 0.6 else der_blob(rng))
            body += push_num(ns if rng.random() < 0.9 else rng.choice([-1, ns + 1, 300]))
            for _ in range(nk):
                body += push(key_blob(rng))
            body += push_num(nk if rng.random() < 0.9 else rng.choice([-1, 21, nk + 1]))
            body += bytes([rng.choice([0xAE, 0xAE, 0xAF])])
            self.emit(body, 1 + nk)
            self.st.append(N)

    def a_random_byte(self):
        rng = self.rng
        c = rng.choice([rng.randrange(256), rng.randrange(0x4F, 256), rng.choice(DISABLED), 0x50, 0x62, 0x65, 0x66, 0x89, 0x8A,
                        0xBA, 0xBB, 0xFE, 0xFF, 0x67, 0x68])
        if 0 < c <= 78:
            self.a_push()
            return
        self.emit(bytes([c]), 1 if c > 0x60 else 0)

    def a_if(self, depth):
        rng = self.rng
        r = rng.random()
        cond = rng.choice([0, 1, 1, 2]) if r < 0.75 else None
        if cond is not None:
            c = push_num(cond) if rng.random() < 0.8 else push(rng.choice([b"\x00", b"\x80", b"\x01\x00", b"\x02", b"\x00\x00"]))
            self.emit(c)
        else:
            self.ensure([A])
            self.st.pop()
        self.emit(bytes([rng.choice([0x63, 0x63, 0x64])]), 1)
        base = list(self.st)
        self.block(rng.randrange(0, 5), depth + 1)
        if rng.random() < 0.6:
            self.emit(b"\x67", 1)
            self.st = list(base)
            self.block(rng.randrange(0, 4), depth + 1)
            if rng.random() < 0.08:
                self.emit(b"\x67", 1)
        # settle both branches on the entry depth
        if rng.random() < 0.9:
            self.st = base
        if rng.random() < 0.94:
            self.emit(b"\x68", 1)

    def a_dead(self):
        """an unexecuted branch holding arbitrary op codes"""
        rng = self.rng
        self.emit(b"\x00\x63", 1)
        for _ in range(rng.randrange(1, 6)):
            r = rng.random()
            if r < 0.6:
                c = rng.randrange(0x4F, 256)
                if c in (0x63, 0x64, 0x67, 0x68) and rng.random() < 0.7:
                    continue
                self.emit(bytes([c]), 1 if c > 0x60 else 0)
            elif r < 0.9:
                ln = rng.choice([0, 1, 75, 76, 520, 521])
                self.emit(push(rand_bytes(rng, ln), rng.choice([None, 76, 77])))
            else:
                self.emit(bytes([rng.choice([0x4C, 0x4D, 0x4E])]) + rand_bytes(rng, rng.randrange(3)))
        self.emit(b"\x68", 1)

    def block(self, n, depth=0):
        rng = self.rng
        for _ in range(n):
            r = rng.random()
            if r < 0.30:
                self.a_push()
            elif r < 0.65:
                self.a_op()
            elif r < 0.72:
                self.a_boundary()
            elif r < 0.77:
                self.a_pickroll()
            elif r < 0.82:
                self.a_verify()
            elif r < 0.87:
                if self.nosig:
                    self.a_boundary()
                else:
                    self.a_checksig()
            elif r < 0.92 and depth < 4:
                self.a_if(depth)
            elif r < 0.95:
                self.a_dead()
            else:
                self.a_random_byte()


def program(rng, tapscript=False, init=(), nosig=False):
    p = Prog(rng, tapscript, init, nosig)
    p.block(rng.choice([1, 2, 4, 8, 12, 20, 30]))
    if rng.random() < 0.05 and p.b:
        del p.b[rng.randrange(len(p.b)):]
    return bytes(p.b)


def init_stack(rng):
    out = []
    for _ in range(rng.choice([0, 0, 0, 1, 2, 3, 6])):
        r = rng.random()
        out.append(enc(rng.choice([0, 1, 2, -1, 5, 1000])) if r < 0.6 else rand_bytes(rng, rng.choice([0, 1, 5, 32, 33, 520])))
    return out


def limit_programs(rng):
    """families straddling the four limits; returns (script, initial stack, label)"""
    out = []
    nop = b"\x61"
    for k in (199, 200, 201, 202, 203):
        out.append((nop * k, [], f"ops{k}"))
        out.append((b"\x51" * 30 + nop * k, [], f"ops{k}+pushes"))
        out.append((b"\x00\x63" + nop * (k - 2) + b"\x68", [], f"ops{k}-dead"))
        out.append((b"\x50" * 0 + b"\x00\x63" + b"\x50" * 40 + nop * (k - 2) + b"\x68", [], f"ops{k}-reserved-free"))
    for nk in (0, 1, 19, 20, 21):
        for k in (179, 180, 181, 182, 199, 200, 201):
            # k NOPs + CHECKMULTISIG (1) + nk keys
            body = nop * k + b"\x00\x00" + b"".join(push(b"\x02" + bytes(32)) for _ in range(nk)) + push_num(nk) + b"\xae"
            out.append((body, [], f"msig{nk}+{k}"))
    for ln in (519, 520, 521, 522):
        d = bytes(ln)
        out.append((push(d), [], f"push{ln}"))
        out.append((push(d, 78), [], f"push4-{ln}"))
        out.append((b"\x00\x63" + push(d) + b"\x68", [], f"push{ln}-dead"))
        out.append((push(d) + b"\x75\x51", [], f"push{ln}-drop"))
    for n in (998, 999, 1000, 1001, 1002):
        out.append((b"\x51" * n, [], f"stack{n}"))
        out.append((b"\x51" * (n - 1) + b"\x76", [], f"stack{n}-dup"))
        out.append((b"\x51" * (n - 500) + b"\x6b" * 100 + b"\x51" * 500, [], f"stack{n}-alt"))
        out.append((b"\x6f" * 0 + b"\x51\x51\x51" + b"\x6f" * ((n - 3) // 3) + b"\x51" * ((n - 3) % 3), [], f"stack{n}-3dup"))
        out.append((b"\x61", [b"\x01"] * n, f"stack{n}-initial") if n <= 1000 else (b"\x51", [b"\x01"] * 1000, "stack-initial+1"))
    for n in (9999, 10000, 10001, 10002):
        pushes = push(bytes(520), 77) * 19                      # 19 * 523 = 9937
        pad = n - len(pushes)
        out.append((pushes + nop * pad if pad <= 201 else pushes + b"\x51" * pad, [], f"size{n}"))
        out.append((b"\x51" * n, [], f"size{n}-ones"))
        out.append((b"\x00\x63" + push(bytes(500), 77) * 19 + b"\x68" + b"\x00" * (n - 3 - 19 * 503), [], f"size{n}-dead"))
    return out


LT_T = 500000000
LOCKTIMES = [0, 100, LT_T - 1, LT_T, LT_T + 1, 2**32 - 1]
SEQUENCES = [0xFFFFFFFF, 0xFFFFFFFE, 0, 5, 0xFFFF, 0x10000, 0x3FFFFF, 0x400000, 0x400005, 0x40FFFF, 0x410000,
             0x7FFFFFFF, 0x80000000, 0x80000005, 0x80400005]
VERSIONS = [1, 2, 0, 3, 2**32 - 1]


def locktime_programs(rng, full=False):
    """OP_CHECKLOCKTIMEVERIFY / OP_CHECKSEQUENCEVERIFY with operand and transaction fields sitting exactly on every
    threshold: 500000000 (kind), the operand against the field (-1, 0, +1), final sequence, bit 31 (disable),
    bit 22 (type), the 16-bit mask, version 2, the 5-byte operand width.  -> (script, lock_time, sequence, version)"""
    out = []
    for lt in LOCKTIMES:
        ops = {0, -1, 1, lt, lt - 1, lt + 1, LT_T - 1, LT_T, LT_T + 1, 2**31 - 1, 2**31, 2**32 - 1, 2**39 - 1, 2**39}
        for o in sorted(ops):
            if o > 2**63 - 1 or o < -(2**63):
                continue
            for seq in ((0xFFFFFFFF, 0xFFFFFFFE, 0) if full or o in (lt, lt + 1, lt - 1, LT_T, LT_T - 1) else (0xFFFFFFFE,)):
                out.append((push_num(o) + b"\xb1", lt, seq, 1))
    for seq in SEQUENCES:
        masked = seq & 0x40FFFF
        ops = {0, -1, 1, masked, masked - 1, masked + 1, seq & 0xFFFF, (seq & 0xFFFF) + 1, 0x400000 | (seq & 0xFFFF),
               (0x400000 | (seq & 0xFFFF)) + 1, 0x3FFFFF, 0x400000, 0x40FFFF, 0x410000, 0xFFFF, 0x10000, 0x80000000,
               0x80000000 | masked, 0x80000000 | 0x40FFFF, 0x7FFFFFFF, 0xFFFFFFFF, 2**39 - 1, 2**39, seq}
        for o in sorted(ops):
            if o < -1:
                continue
            for ver in (VERSIONS if full or o in (masked, masked + 1) else (2, 1)):
                out.append((push_num(o) + b"\xb2", 0, seq, ver))
    # non-minimal / empty / missing operands
    for tail in (b"\xb1", b"\xb2"):
        for pre in (b"", b"\x00", b"\x01\x00", b"\x05" + bytes(5), b"\x06" + bytes(6), b"\x05\xff\xff\xff\xff\x00",
                    b"\x05\xff\xff\xff\xff\x80"):
            out.append((pre + tail, LT_T, 5, 2))
    return out


def budget_programs():
    """tapscript validation weight: k non-empty signatures against an upgradable (33-byte) and against an unknown-size
    key, budget 50k-1 / 50k / 50k+1; empty signatures are free.  -> (script, weight)"""
    out = []
    up = push(b"\x01") + push(b"\x02" + bytes(32)) + b"\xac\x75"      # <sig> <33-byte key> CHECKSIG DROP
    free = b"\x00" + push(b"\x02" + bytes(32)) + b"\xac\x75"
    add = push(b"\x01") + b"\x00" + push(bytes(31)) + b"\xba\x75"     # CHECKSIGADD, 31-byte key
    for k in (1, 2, 3, 7):
        for w in (50 * k - 51, 50 * k - 50, 50 * k - 1, 50 * k, 50 * k + 1):
            if w < 0:
                continue
            out.append((up * k + b"\x51", w))
            out.append((add * k + b"\x51", w))
            out.append((up * (k - 1) + free * 3 + up + b"\x51", w))
    return out


def flag_sets(rng, n, names):
    """∅, each single flag, everything, and random subsets of `names`"""
    out = ["-"] + list(names) + [",".join(names)]
    while len(out) < n:
        k = rng.choice([1, 2, 2, 3, 4, 6, len(names) - 1])
        out.append(",".join(sorted(rng.sample(list(names), min(k, len(names))))))
    return out


def tap_push_orders(rng):
    """tapscripts that are valid but for ONE push over 520 bytes, the oversized push standing first, in the middle or last
    among pushes within the limit, executed or inside an untaken branch, with and without an OP_SUCCESSx behind them (which
    makes the whole script valid): where the pre-scan's `an element was too long` has to survive the pushes that follow"""
    def pd(n):
        return push(bytes(rng.randrange(256) for _ in range(n)))
    out = []
    for big in (521, 522, 523 + rng.randrange(400), 65535):
        for small in (1, 75, 76, 255, 256, 519, 520):
            b, s_ = pd(big), pd(small)
            drop = b"\x75"
            out.append(b + drop + s_ + drop + b"\x51")                       # oversized first
            out.append(s_ + drop + b + drop + b"\x51")                       # oversized last
            out.append(s_ + drop + b + drop + pd(small) + drop + b"\x51")    # oversized in the middle
            out.append(b"\x00\x63" + b + b"\x68" + s_ + drop + b"\x51")     # oversized in an untaken branch, a push after it
            out.append(b"\x00\x63" + s_ + b + b"\x68" + b"\x51")            # … as the last push
            out.append(b + drop + s_ + drop + b"\x51" + b"\x50")             # an OP_SUCCESSx after them: valid
    return out
