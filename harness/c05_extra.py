"""C05: PSBT map layer, p2p envelope, BIP32 key data — implementation side and streams."""
from __future__ import annotations

OPS = {}


def run(ctx):
    return
