"""C05: PSBT map layer, p2p envelope, BIP32 key data — implementation side, oracles and streams."""
from __future__ import annotations

import base64
import os
import re
from io import BytesIO

from btclib import var_bytes
from btclib.psbt import Psbt, PsbtIn, PsbtOut
from btclib.psbt.psbt_utils import deserialize_map

from . import common
from .common import hx


def _kind(e):
    from . import c05
    return c05.kind_of(e)


# ------------------------------------------------------------------ PSBT map layer
def ser_records(recs):
    return b"".join(var_bytes.serialize(k) + var_bytes.serialize(v) for k, v in recs) + b"\x00"


def psbtmap_parse(mode: str, b: bytes) -> str:
    s = BytesIO(b)
    try:
        m = deserialize_map(s)
    except Exception as e:  # noqa: BLE001
        return "err " + _kind(e)
    rest = s.read()
    if mode == "o" and rest:
        return "err trailing"
    recs = list(m.items())
    return f"ok [{';'.join(hx(k) + '=' + hx(v) for k, v in recs)}] rest={hx(rest)} ser={hx(ser_records(recs))}"


def psbtin_reserialize(b: bytes):
    """`PsbtIn.parse(b).serialize()` under the first psbt version that reads it; None when refused."""
    last = None
    for v in (0, 2):
        try:
            return PsbtIn.parse(b, psbt_version=v, check_validity=False).serialize(psbt_version=v, check_validity=False), v
        except Exception as e:  # noqa: BLE001
            last = e
    return None, last


def psbtmap_norm(mode: str, b: bytes) -> str:
    out, v = psbtin_reserialize(b)
    if out is None:
        return "err " + _kind(v)
    return f"ok {hx(out)} rest=_"


def psbtin_reser(ver: int):
    def f(mode: str, b: bytes) -> str:
        try:
            out = PsbtIn.parse(b, psbt_version=ver, check_validity=False).serialize(psbt_version=ver, check_validity=False)
        except Exception as e:  # noqa: BLE001
            return "err refused" if common.err_class(e) in ("value", "type", "runtime") else "err " + common.err_class(e)
        return "ok " + hx(out)
    return f


def psbtout_reser(ver: int):
    def f(mode: str, b: bytes) -> str:
        try:
            out = PsbtOut.parse(b, psbt_version=ver, check_validity=False).serialize(psbt_version=ver, check_validity=False)
        except Exception as e:  # noqa: BLE001
            return "err refused" if common.err_class(e) in ("value", "type", "runtime") else "err " + common.err_class(e)
        return "ok " + hx(out)
    return f


def wrap_global(gmap: bytes) -> bytes:
    """a whole psbt around one global map: as many minimal input/output maps as the map announces"""
    from btclib.tx import Tx
    from btclib import var_int
    recs = dict(deserialize_map(BytesIO(gmap)))
    ver = next((int.from_bytes(v, "little") for k, v in recs.items() if k[:1] == b"\xfb"), 0)
    if ver == 0:
        t = Tx.parse(recs[b"\x00"], check_validity=False)
        return b"psbt\xff" + gmap + b"\x00" * (len(t.vin) + len(t.vout))
    n_in = var_int.parse(BytesIO(recs[b"\x04"]))
    n_out = var_int.parse(BytesIO(recs[b"\x05"]))
    if n_in > 50 or n_out > 50:
        raise ValueError("too many maps for a probe")
    one_in = ser_records([(b"\x0e", b"\x11" * 32), (b"\x0f", bytes(4))])
    one_out = ser_records([(b"\x03", (1000).to_bytes(8, "little")), (b"\x04", b"\x51")])
    ins = b"".join(ser_records([(b"\x0e", bytes([i + 1]) * 32), (b"\x0f", bytes(4))]) for i in range(n_in))
    return b"psbt\xff" + gmap + ins + one_out * n_out


def psbtglobal_reser(mode: str, gmap: bytes) -> str:
    try:
        whole = wrap_global(gmap)
    except Exception:  # noqa: BLE001 - no psbt can be built around it: the map itself is malformed
        return "err refused"
    try:
        out = Psbt.parse(whole, check_validity=False).serialize(check_validity=False)
    except Exception as e:  # noqa: BLE001
        return "err refused" if common.err_class(e) in ("value", "type", "runtime") else "err " + common.err_class(e)
    return "ok " + hx(split_maps(out)[0])


def _o_psbtglobal_keeps_pairs(w):
    """the global map through Psbt.parse/serialize keeps every pair but a version-0 record"""
    g = bytes.fromhex(w["b"])
    r = psbtglobal_reser("o", g)
    if not r.startswith("ok"):
        return r == "err refused", r
    before, after = records_of(g), records_of(bytes.fromhex(r[3:]))
    missing = [x for x in before if x not in after and not (x[0] == b"\xfb" and x[1] == bytes(4))]
    added = [x for x in after if x not in before]
    return not missing and not added, f"dropped {[(k.hex(), v.hex()) for k, v in missing]} added {[(k.hex(), v.hex()) for k, v in added]}"


def _reserv(cls):
    def f(ver: str, b: bytes) -> str:
        v = int(ver)
        try:
            out = cls.parse(b, psbt_version=v, check_validity=False).serialize(psbt_version=v, check_validity=False)
        except Exception as e:  # noqa: BLE001
            return "err refused" if common.err_class(e) in ("value", "type", "runtime") else "err " + common.err_class(e)
        return "ok " + hx(out)
    return f


OPS = {"psbtin.reserv": _reserv(PsbtIn), "psbtout.reserv": _reserv(PsbtOut), "psbtglobal.reser": psbtglobal_reser, "psbtmap.parse": psbtmap_parse, "psbtmap.norm": psbtmap_norm,
       "psbtin.reser0": psbtin_reser(0), "psbtin.reser2": psbtin_reser(2),
       "psbtout.reser0": psbtout_reser(0), "psbtout.reser2": psbtout_reser(2)}


def records_of(b: bytes):
    return sorted(deserialize_map(BytesIO(b)).items())


def classify_dropped(missing, b):
    """stable key for a set of records that `PsbtIn.parse(b).serialize()` did not write back"""
    recs = dict(deserialize_map(BytesIO(b)))
    finalized = any(k[:1] in (b"\x07", b"\x08") for k in recs)
    keys = set()
    for k, v in missing:
        if k[:1] == b"\x08" and v == b"\x00":
            keys.add("PsbtIn.empty_final_witness.dropped")
        elif len(v) == 0:
            keys.add("PsbtIn.empty_value.dropped")
        elif finalized and k[:1] not in (b"\x07", b"\x08"):
            keys.add("PsbtIn.finalized.dropped")
        elif k == b"\x03" and v == b"\x00" * 4:
            keys.add("psbt.sighash0.dropped")
        else:
            keys.add("PsbtIn.record.dropped." + k[:1].hex())
    return sorted(keys)


def _o_psbtin_keeps_pairs(w):
    """T5 on the real code: re-serializing a parsed input map keeps every key-value pair and is a
    fixed point after one round."""
    b = bytes.fromhex(w["b"])
    out, v = psbtin_reserialize(b)
    if out is None:
        ok = common.err_class(v) in ("value", "runtime", "type") if isinstance(v, Exception) else True
        return ok, f"refused: {type(v).__name__}: {str(v)[:80]}"
    try:
        before, after = records_of(b), records_of(out)
    except Exception as e:  # noqa: BLE001
        return False, f"re-serialization does not read back: {type(e).__name__}: {e}"
    missing = [r for r in before if r not in after]
    added = [r for r in after if r not in before]
    if missing or added:
        return False, (f"records dropped {[(k.hex(), x.hex()) for k, x in missing]} added "
                       f"{[(k.hex(), x.hex()) for k, x in added]} ({len(b)} -> {len(out)} bytes)")
    again, _ = psbtin_reserialize(out)
    return again == out, "fixed point" if again == out else "second round differs"


ORACLES = {"psbtin.keeps_pairs": _o_psbtin_keeps_pairs, "psbtglobal.keeps_pairs": _o_psbtglobal_keeps_pairs}


# ------------------------------------------------------------------ seeds
_PSBTS = None


def vendored_psbts():
    global _PSBTS
    if _PSBTS is not None:
        return _PSBTS
    cands = set()
    for d, _, fs in os.walk("/repo/tests"):
        for f in sorted(fs):
            p = os.path.join(d, f)
            if not f.endswith((".py", ".json", ".txt", ".psbt")) or os.path.getsize(p) > 3_000_000:
                continue
            try:
                txt = open(p, encoding="utf8", errors="ignore").read()
            except OSError:
                continue
            for m in re.finditer(r"cHNidP[0-9A-Za-z+/=]+", txt):
                try:
                    cands.add(base64.b64decode(m.group(0), validate=True))
                except Exception:  # noqa: BLE001
                    pass
            for m in re.finditer(r"70736274ff(?:[0-9a-fA-F]{2})+", txt):
                cands.add(bytes.fromhex(m.group(0)))
    out = []
    for b in sorted(cands, key=lambda x: (len(x), x)):
        try:
            p = Psbt.parse(b, check_validity=False)
        except Exception:  # noqa: BLE001
            continue
        out.append((b, len(p.inputs), len(p.outputs)))
    _PSBTS = out
    return out


def split_maps(b: bytes):
    """raw bytes of the consecutive maps of a psbt (after the 5-byte magic)"""
    s = BytesIO(b)
    s.read(5)
    maps = []
    while s.tell() < len(b):
        at = s.tell()
        deserialize_map(s)
        maps.append(b[at:s.tell()])
    return maps


SIGHASHES = [0, 1, 2, 3, 0x81, 0x82, 0x83]


def gen_records(rng):
    """a plausible input map as a record list (typed layer accepts most of them)"""
    recs = []
    if rng.random() < 0.5:
        recs.append((b"\x03", rng.choice(SIGHASHES).to_bytes(4, "little")))
    for t in (b"\x04", b"\x05"):
        if rng.random() < 0.4:
            recs.append((t, common.rand_bytes(rng, rng.choice([0, 1, 22, 34, 253]))))
    if rng.random() < 0.2:
        recs.append((b"\x07", common.rand_bytes(rng, rng.choice([0, 1, 72]))))
    for _ in range(rng.choice([0, 0, 1, 2, 3])):
        recs.append((b"\x0a" + common.rand_bytes(rng, 20), common.rand_bytes(rng, rng.randrange(0, 40))))
    for _ in range(rng.choice([0, 0, 1, 2])):
        recs.append((b"\x0b" + common.rand_bytes(rng, 32), common.rand_bytes(rng, rng.randrange(0, 40))))
    for _ in range(rng.choice([0, 1, 1, 2, 3])):  # unknown types, some proprietary-looking
        t = rng.choice([0x09, 0x19, 0x1f, 0x20, 0x7f, 0xfb, 0xfc, 0xfd, 0xff])
        recs.append((bytes([t]) + common.rand_bytes(rng, rng.randrange(0, 5)), common.rand_bytes(rng, rng.randrange(0, 6))))
    if rng.random() < 0.15:
        recs.append((b"\x13", common.rand_bytes(rng, 64)))
    if rng.random() < 0.15:
        recs.append((b"\x17", common.rand_bytes(rng, 32)))
    seen, out = set(), []
    for k, v in recs:
        if k not in seen:
            seen.add(k)
            out.append((k, v))
    rng.shuffle(out)
    return out


def raw_tx(rng, how="ok", template=False):
    """a legacy-serialized transaction, valid for `Tx.assert_valid` or breaking exactly one of its rules"""
    from btclib import var_int
    n_in, n_out = rng.choice([1, 1, 2, 3]), rng.choice([1, 1, 2])
    if template and rng.random() < 0.3:
        n_in, n_out = rng.choice([(0, 0), (0, 2), (1, 0), (2, 1)])
    if how == "noin":
        n_in = 0
        n_out = rng.choice([0, 2])          # (0 inputs, 1 output) reads as the marker: a different refusal
    if how == "noout":
        n_out = 0
    ops = [(common.rand_bytes(rng, 32), rng.choice([0, 1, 0xFFFFFFFF])) for _ in range(n_in)]
    if how == "dup" and n_in >= 1:
        ops.append(ops[0])
    if how == "coinbase-among" and n_in >= 1:
        ops.append((bytes(32), 0xFFFFFFFF))
    sigs = [b"" if template else common.rand_bytes(rng, rng.choice([0, 1, 72])) for _ in ops]
    if how in ("coinbase-ok", "coinbase-short", "coinbase-long"):
        ops = [(bytes(32), 0xFFFFFFFF)]
        sigs = [common.rand_bytes(rng, {"coinbase-ok": rng.choice([2, 50, 100]), "coinbase-short": rng.choice([0, 1]),
                                        "coinbase-long": 101}[how])]
    if how == "nullish" and ops:                     # half a null outpoint is an ordinary outpoint
        ops[0] = rng.choice([(bytes(32), 0), (b"\x01" + bytes(31), 0xFFFFFFFF)])
    if how == "scriptsig" and ops:
        sigs[0] = b"\x51"
    vals = [rng.choice([0, 1, 546, 5000000000, 2100000000000000]) for _ in range(n_out)]
    if how == "negative" and vals:
        vals[0] = rng.choice([-1, -2**63])
    if how == "toomuch" and vals:
        vals[0] = rng.choice([2100000000000001, 2**63 - 1])
    if how == "sum":
        vals = [2100000000000000, rng.choice([1, 2100000000000000])]
    if how == "sum-ok":
        vals = [2099999999999999, 1]
    b = rng.choice([1, 2, 0xFFFFFFFF]).to_bytes(4, "little") + var_int.serialize(len(ops))
    for (txid, vout), sg in zip(ops, sigs):
        b += txid + vout.to_bytes(4, "little") + var_bytes.serialize(sg) + rng.choice([0, 0xFFFFFFFF, 0xFFFFFFFE]).to_bytes(4, "little")
    b += var_int.serialize(len(vals))
    for v in vals:
        b += v.to_bytes(8, "little", signed=True) + var_bytes.serialize(common.rand_bytes(rng, rng.choice([0, 1, 22])))
    return b + rng.choice([0, 500000]).to_bytes(4, "little")


TX_HOWS = ["ok", "ok", "ok", "sum-ok", "nullish", "coinbase-ok", "noin", "noout", "dup", "coinbase-among", "coinbase-short",
           "coinbase-long", "negative", "toomuch", "sum"]


def gen_typed_records(rng):
    """input-map records that exercise every deserializer class of the typed layer, mostly well formed"""
    from btclib import var_int
    recs = gen_records(rng)
    bad = rng.random() < 0.25            # one structural defect somewhere
    if rng.random() < 0.3:               # non-witness utxo: `deserialize_tx` runs `Tx.assert_valid` on it
        how = rng.choice(TX_HOWS)
        recs.append((b"\x00", raw_tx(rng, how)))

    def fp_path(n=None):
        n = rng.choice([0, 1, 3, 5]) if n is None else n
        return common.rand_bytes(rng, 4) + b"".join(rng.getrandbits(32).to_bytes(4, "little") for _ in range(n))

    r = rng.random
    if r() < 0.3:
        for _ in range(rng.choice([1, 2])):
            recs.append((b"\x02" + rng.choice([b"\x02", b"\x03"]) + common.rand_bytes(rng, 32),
                         common.rand_bytes(rng, rng.choice([1, 71, 72]))))
    if r() < 0.35:
        for _ in range(rng.choice([1, 2])):
            recs.append((b"\x06" + rng.choice([b"\x02", b"\x03"]) + common.rand_bytes(rng, 32), fp_path()))
    if r() < 0.2:
        recs.append((b"\x08", rng.choice([b"\x00", b"\x01\x00", b"\x02\x01\xaa\x00", b"\x01\x02\xaa\xbb"])))
    if r() < 0.25:
        recs.append((b"\x01", rng.choice([0, 1, 5000, 2099999997690000, 2100000000000000, 2100000000000001, -1, 2**63 - 1])
                     .to_bytes(8, "little", signed=True) +
                     var_bytes.serialize(common.rand_bytes(rng, rng.choice([0, 22, 34])))))
    if r() < 0.12:                        # key origins: twice the same one / a key of a length no key has
        o = fp_path()
        ln = rng.choice([33, 33, 65, 78, 32, 34, 0])
        recs.append((b"\x06" + common.rand_bytes(rng, ln), o))
        recs.append((b"\x06" + common.rand_bytes(rng, 33), o if r() < 0.6 else fp_path()))
    if r() < 0.25:
        recs.append((b"\x15" + bytes([0xC0]) + common.rand_bytes(rng, 32 * rng.choice([1, 2])),
                     common.rand_bytes(rng, rng.choice([1, 2, 30])) ))
    if r() < 0.25:
        n = rng.choice([0, 1, 2])
        recs.append((b"\x16" + common.rand_bytes(rng, 32),
                     var_int.serialize(n) + common.rand_bytes(rng, 32 * n) + fp_path()))
    if r() < 0.2:
        recs.append((b"\x1a" + b"\x02" + common.rand_bytes(rng, 32), (b"\x03" + common.rand_bytes(rng, 32)) * rng.choice([1, 2, 3])))
    if r() < 0.2:
        recs.append((b"\x18", common.rand_bytes(rng, rng.choice([0, 32]))))
    if r() < 0.3:                         # BIP370 fields (version 2 only)
        recs.append((b"\x0e", common.rand_bytes(rng, 32)))
        recs.append((b"\x0f", rng.choice([0, 1, 2**32 - 1]).to_bytes(4, "little")))
        if r() < 0.5:
            recs.append((b"\x10", rng.choice([0, 0xFFFFFFFE]).to_bytes(4, "little")))
        if r() < 0.3:
            recs.append((b"\x11", rng.choice([0, 500000000, 1700000000]).to_bytes(4, "little")))
        if r() < 0.3:
            recs.append((b"\x12", rng.choice([0, 1, 499999999]).to_bytes(4, "little")))
    if bad and recs:
        i = rng.randrange(len(recs))
        k, v = recs[i]
        how = rng.random()
        if how < 0.3:
            recs[i] = (k, v[:-1] if v else b"\x00")          # value one byte short / spurious
        elif how < 0.5:
            recs[i] = (k, v + b"\x00")                        # one byte long
        elif how < 0.7:
            recs[i] = (k[:1] + b"\x01" + k[1:], v)            # key data where none belongs / longer key
        elif how < 0.85:
            recs[i] = (k, b"")                                # empty value
        else:
            recs[i] = (k[:1], v)                              # key data removed
    seen, out = set(), []
    for k, v in recs:
        if k not in seen:
            seen.add(k)
            out.append((k, v))
    rng.shuffle(out)
    return out


def gen_out_records(rng):
    """output-map records over every field of PsbtOut, mostly well formed"""
    from btclib import var_int
    recs = []
    r = rng.random

    def fp_path():
        return common.rand_bytes(rng, 4) + b"".join(rng.getrandbits(32).to_bytes(4, "little") for _ in range(rng.choice([0, 1, 3])))

    for t in (b"\x00", b"\x01"):
        if r() < 0.35:
            recs.append((t, common.rand_bytes(rng, rng.choice([0, 1, 22, 34]))))
    if r() < 0.35:
        recs.append((b"\x02" + rng.choice([b"\x02", b"\x03"]) + common.rand_bytes(rng, 32), fp_path()))
        if r() < 0.3:
            recs.append((b"\x02" + common.rand_bytes(rng, rng.choice([33, 65, 78, 32])), recs[-1][1] if r() < 0.6 else fp_path()))
    if r() < 0.35:
        recs.append((b"\x03", rng.choice([0, 1, 5000, -1]).to_bytes(8, "little", signed=True)))
        recs.append((b"\x04", common.rand_bytes(rng, rng.choice([0, 22, 34]))))
    if r() < 0.3:
        recs.append((b"\x05", common.rand_bytes(rng, rng.choice([0, 32]))))
    if r() < 0.35:
        tree = b"".join(bytes([rng.randrange(3), 0xC0]) + var_bytes.serialize(common.rand_bytes(rng, rng.randrange(0, 5)))
                        for _ in range(rng.choice([0, 1, 2, 3])))
        if r() < 0.15:
            tree += bytes([1])                                  # a depth with nothing after it
        recs.append((b"\x06" if r() < 0.9 else b"\x06\xaa", tree))   # key data on the tree: refused since bfff2ab9
    if r() < 0.25:
        n = rng.choice([0, 1, 2])
        recs.append((b"\x07" + common.rand_bytes(rng, 32), var_int.serialize(n) + common.rand_bytes(rng, 32 * n) + fp_path()))
    if r() < 0.2:
        recs.append((b"\x08" + b"\x02" + common.rand_bytes(rng, 32), (b"\x03" + common.rand_bytes(rng, 32)) * rng.choice([1, 2])))
    if r() < 0.2:
        recs.append((b"\x09", common.rand_bytes(rng, rng.choice([0, 66]))))
    if r() < 0.2:
        recs.append((b"\x0a", rng.choice([0, 1, 2**32 - 1]).to_bytes(4, "little")))
    for _ in range(rng.choice([0, 1, 2])):
        t = rng.choice([0x0b, 0x19, 0xfc, 0xff])
        recs.append((bytes([t]) + common.rand_bytes(rng, rng.randrange(0, 4)), common.rand_bytes(rng, rng.randrange(0, 6))))
    if r() < 0.2 and recs:
        i = rng.randrange(len(recs))
        k, v = recs[i]
        how = r()
        recs[i] = ((k, v[:-1] if v else b"\x00") if how < 0.35 else (k, v + b"\x00") if how < 0.6
                   else (k[:1] + b"\x01" + k[1:], v) if how < 0.8 else (k[:1], v))
    seen, out = set(), []
    for k, v in recs:
        if k not in seen:
            seen.add(k)
            out.append((k, v))
    rng.shuffle(out)
    return out


def gen_global_records(rng):
    from btclib import var_int
    r = rng.random
    recs = []
    v2 = r() < 0.45
    if v2:
        recs.append((b"\xfb", (2).to_bytes(4, "little")))
        recs.append((b"\x02", rng.choice([1, 2, 3]).to_bytes(4, "little")))
        recs.append((b"\x04", var_int.serialize(rng.choice([0, 1, 2]))))
        recs.append((b"\x05", var_int.serialize(rng.choice([0, 1, 2]))))
        if r() < 0.4:
            recs.append((b"\x03", rng.choice([0, 500000, 1700000000]).to_bytes(4, "little")))
        if r() < 0.4:
            recs.append((b"\x06", bytes([rng.choice([0, 1, 3, 7])])))
    else:
        n_in, n_out = rng.choice([0, 1, 1, 2]), rng.choice([0, 1, 2])
        tx = (2).to_bytes(4, "little") + var_int.serialize(n_in)
        for i in range(n_in):
            tx += bytes([i + 1]) * 32 + bytes(4) + (b"\x00" if r() < 0.93 else b"\x01\x51") + b"\xff" * 4
        tx += var_int.serialize(n_out)
        for _ in range(n_out):
            tx += (1000).to_bytes(8, "little") + b"\x01\x51"
        tx += bytes(4)
        if r() < 0.4:
            tx = raw_tx(rng, rng.choice(TX_HOWS + ["scriptsig"]), template=True)
        recs.append((b"\x00", tx))
        if r() < 0.35:
            recs.append((b"\xfb", bytes(4)))                       # an explicit version 0 record
        if r() < 0.08:
            recs.append((b"\x02", (2).to_bytes(4, "little")))      # a v2 field in a v0 psbt
    if r() < 0.3:
        recs.append((b"\x09", common.rand_bytes(rng, rng.choice([0, 1, 32]))))
    if r() < 0.25:                        # global xpubs: key origins, twice the same one now and then
        o = common.rand_bytes(rng, 4 + 4 * rng.choice([0, 1, 3]))
        recs.append((b"\x01" + common.rand_bytes(rng, rng.choice([78, 78, 33, 77])), o))
        if r() < 0.5:
            recs.append((b"\x01" + common.rand_bytes(rng, 78), o if r() < 0.5 else common.rand_bytes(rng, 8)))
    for _ in range(rng.choice([0, 1, 2])):
        t = rng.choice([0x0a, 0x19, 0xfc, 0xfa, 0xff])
        recs.append((bytes([t]) + common.rand_bytes(rng, rng.randrange(0, 4)), common.rand_bytes(rng, rng.randrange(0, 6))))
    if r() < 0.15 and recs:
        i = rng.randrange(len(recs))
        k, v = recs[i]
        how = r()
        recs[i] = ((k, v[:-1] if v else b"\x00") if how < 0.4 else (k, v + b"\x00") if how < 0.7
                   else (k[:1] + b"\x01" + k[1:], v))
    seen, out = set(), []
    for k, v in recs:
        if k not in seen:
            seen.add(k)
            out.append((k, v))
    rng.shuffle(out)
    return out


# ------------------------------------------------------------------ typed objects built by the constructors
def _reason(cls, ver, b):
    """why btclib refuses (message with the numbers and octets taken out), for the coverage histogram"""
    try:
        if cls is Psbt:
            Psbt.parse(wrap_global(b), check_validity=False)
        else:
            cls.parse(b, psbt_version=ver, check_validity=False)
    except Exception as e:  # noqa: BLE001
        return type(e).__name__ + ": " + re.sub(r"0x[0-9a-f]+|b'.*'|\d+", "#", str(e))[:60]
    return "serialize"


def _records_of_field(serialize_field, type_, value):
    return list(deserialize_map(BytesIO(serialize_field(type_, value) + b"\x00")).items())


def _origin(rng):
    from btclib.bip32 import BIP32KeyOrigin
    return BIP32KeyOrigin(common.rand_bytes(rng, 4), [rng.getrandbits(32) for _ in range(rng.choice([0, 1, 3]))])


def _bdict(rng, klen, vlens, n=(0, 0, 1, 2)):
    return {common.rand_bytes(rng, klen): common.rand_bytes(rng, rng.choice(vlens)) for _ in range(rng.choice(n))}


def _unknown(rng, known_types):
    out = {}
    for _ in range(rng.choice([0, 0, 1, 2])):
        t = rng.choice([0x09, 0x1f, 0x7f, 0xfc, 0xff] + ([rng.choice(known_types)] if rng.random() < 0.2 else []))
        out[bytes([t]) + common.rand_bytes(rng, rng.randrange(0, 4))] = common.rand_bytes(rng, rng.randrange(0, 5))
    return out


def gen_psbtin_kwargs(rng):
    from btclib.script import Witness
    from btclib.tx import Tx, TxOut
    from btclib.script import ScriptPubKey
    r = rng.random
    rb = lambda n: common.rand_bytes(rng, n)  # noqa: E731
    opt_u32 = lambda: rng.choice([None, None, 0, 1, 0xFFFFFFFF])  # noqa: E731
    kw = {}
    if r() < 0.25:
        for _ in range(20):
            try:
                kw["non_witness_utxo"] = Tx.parse(raw_tx(rng, "ok"), check_validity=True)
                break
            except Exception:  # noqa: BLE001 - the outputs add up to more than MAX_MONEY: draw again
                continue
    if r() < 0.3:
        kw["witness_utxo"] = TxOut(rng.choice([0, 1, 5000]), ScriptPubKey(rb(rng.choice([0, 22])), "mainnet", check_validity=False),
                                   check_validity=False)
    kw["partial_sigs"] = _bdict(rng, 33, [0, 1, 71])
    kw["sig_hash_type"] = rng.choice([None, None, 0, 1, 0x81])
    kw["redeem_script"] = rb(rng.choice([0, 0, 1, 22]))
    kw["witness_script"] = rb(rng.choice([0, 0, 34]))
    kw["hd_key_paths"] = {rb(rng.choice([33, 65])): _origin(rng) for _ in range(rng.choice([0, 0, 1, 2]))}
    kw["final_script_sig"] = rb(rng.choice([0, 0, 0, 1, 72]))
    kw["final_script_witness"] = rng.choice([None, None, Witness([], check_validity=False), Witness([b""], check_validity=False),
                                             Witness([rb(2), b""], check_validity=False)])
    for f in ("ripemd160_preimages", "hash160_preimages"):
        kw[f] = _bdict(rng, 20, [0, 5], (0, 0, 1))
    for f in ("sha256_preimages", "hash256_preimages"):
        kw[f] = _bdict(rng, 32, [0, 5], (0, 0, 1))
    kw["taproot_key_spend_signature"] = rb(rng.choice([0, 0, 64, 65]))
    kw["taproot_script_spend_signatures"] = _bdict(rng, 64, [64], (0, 0, 1))
    kw["taproot_leaf_scripts"] = {rb(33): (rb(rng.choice([0, 3])), rng.choice([0xC0, 0xC2])) for _ in range(rng.choice([0, 0, 1, 2]))}
    kw["taproot_hd_key_paths"] = {rb(32): ([rb(32) for _ in range(rng.choice([0, 1, 2]))], _origin(rng))
                                  for _ in range(rng.choice([0, 0, 1, 2]))}
    kw["taproot_internal_key"] = rb(rng.choice([0, 0, 32]))
    kw["taproot_merkle_root"] = rb(rng.choice([0, 0, 32]))
    kw["unknown"] = _unknown(rng, [3, 4, 7, 0x10])
    kw["previous_tx_id"] = rb(rng.choice([0, 32, 32]))
    kw["output_index"] = opt_u32()
    kw["sequence"] = opt_u32()
    kw["required_time_lock_time"] = rng.choice([None, None, 0, 500000000])
    kw["required_height_lock_time"] = rng.choice([None, None, 0, 1])
    kw["musig2_participant_pub_keys"] = {rb(33): [rb(33) for _ in range(rng.choice([1, 2]))] for _ in range(rng.choice([0, 0, 1]))}
    kw["musig2_pub_nonces"] = _bdict(rng, 66, [66], (0, 0, 1))
    kw["musig2_partial_sigs"] = _bdict(rng, 66, [32], (0, 0, 1))
    kw["sp_ecdh_shares"] = _bdict(rng, 33, [33], (0, 0, 1))
    kw["sp_dleq_proofs"] = _bdict(rng, 33, [64], (0, 0, 1))
    return kw


def typed_of_psbtin(kw):
    """(whole, keyed, unknown) record lists of a PsbtIn given by its init keywords: each value through the
    field's own serializer of `_SERIALIZED_FIELDS`, one field at a time -- the loop of `serialize` (version gate,
    finalizer rule, truthiness, order) is what is left to the model"""
    from btclib.psbt import psbt_in as M
    whole_names = {v[0] for v in M._WHOLE_VALUE_FIELDS.values()}
    w, k, u = [], [], []
    for type_, field, ser in M._SERIALIZED_FIELDS:
        value = kw.get(field)
        if value is None:
            continue
        if field == "unknown":
            u += list(value.items())
        elif field in whole_names:
            w += _records_of_field(ser, type_, value)
        else:
            k += _records_of_field(ser, type_, value)
    return w, k, u


def gen_psbtout_kwargs(rng):
    r = rng.random
    rb = lambda n: common.rand_bytes(rng, n)  # noqa: E731
    return {
        "redeem_script": rb(rng.choice([0, 0, 1, 22])), "witness_script": rb(rng.choice([0, 0, 34])),
        "hd_key_paths": {rb(rng.choice([33, 65])): _origin(rng) for _ in range(rng.choice([0, 0, 1, 2]))},
        "taproot_internal_key": rb(rng.choice([0, 0, 32])),
        "taproot_tree": [(rng.randrange(3), 0xC0, rb(rng.randrange(0, 4))) for _ in range(rng.choice([0, 0, 1, 2]))],
        "taproot_hd_key_paths": {rb(32): ([rb(32) for _ in range(rng.choice([0, 1]))], _origin(rng)) for _ in range(rng.choice([0, 0, 1]))},
        "unknown": _unknown(rng, [0, 3, 4]),
        "amount": rng.choice([None, None, 0, 1, 5000]),
        "script_pub_key": rb(rng.choice([0, 0, 1, 22])),
        "musig2_participant_pub_keys": {rb(33): [rb(33) for _ in range(rng.choice([1, 2]))] for _ in range(rng.choice([0, 0, 1]))},
        "sp_v0_info": rb(rng.choice([0, 0, 66])),
        "sp_v0_label": rng.choice([None, None, 0, 7]),
    } if r() < 2 else {}


def typed_of_psbtout(kw):
    from btclib.psbt import psbt_utils as U
    table = [("redeem_script", 0, U.serialize_bytes, True), ("witness_script", 1, U.serialize_bytes, True),
             ("hd_key_paths", 2, U.serialize_hd_key_paths, False),
             ("amount", 3, lambda t, v: U.serialize_sized_int(t, v, 8, signed=True), True),
             ("script_pub_key", 4, U.serialize_bytes, True), ("taproot_internal_key", 5, U.serialize_bytes, True),
             ("taproot_tree", 6, U.serialize_taproot_tree, True), ("taproot_hd_key_paths", 7, U.serialize_taproot_bip32, False),
             ("musig2_participant_pub_keys", 8, U.serialize_musig2_participant_pub_keys, False),
             ("sp_v0_info", 9, U.serialize_bytes, True), ("sp_v0_label", 10, lambda t, v: U.serialize_sized_int(t, v, 4), True)]
    w, k = [], []
    for field, ty, ser, whole in table:
        if kw.get(field) is None:
            continue
        (w if whole else k).extend(_records_of_field(ser, bytes([ty]), kw[field]))
    return w, k, list(kw["unknown"].items())


def gen_psbt_global(rng):
    """a Psbt built by the constructor (maps as small as `Psbt.tx` needs them) and its global fields"""
    r = rng.random
    rb = lambda n: common.rand_bytes(rng, n)  # noqa: E731
    n_in, n_out = rng.choice([0, 1, 2]), rng.choice([0, 1, 2])
    if n_in == 0 and n_out == 1:
        n_out = 2                                  # known finding psbt.v0.noinputs.marker: not this stream's business
    ins = [PsbtIn(previous_tx_id=bytes([i + 1]) * 32, output_index=rng.choice([0, 3]), sequence=rng.choice([None, 0, 0xFFFFFFFE]),
                  check_validity=False) for i in range(n_in)]
    outs = [PsbtOut(amount=rng.choice([0, 1000]), script_pub_key=rb(rng.choice([1, 22])), check_validity=False) for _ in range(n_out)]
    kw = {"tx_version": rng.choice([1, 2, 0xFFFFFFFF]), "inputs": ins, "outputs": outs,
          "version": rng.choice([0, 0, 2, 2, 1, 3]),
          "hd_key_paths": {rb(78): _origin(rng) for _ in range(rng.choice([0, 0, 1, 2]))},
          "unknown": _unknown(rng, [0, 2, 0xfb]),
          "fallback_lock_time": rng.choice([None, None, 0, 500000]),
          "tx_modifiable": rng.choice([None, None, 0, 3]),
          "signed_message": rng.choice([None, None, b"", rb(5)]),
          "sp_ecdh_shares": _bdict(rng, 33, [33], (0, 0, 1)), "sp_dleq_proofs": _bdict(rng, 33, [64], (0, 0, 1))}
    return kw


def typed_of_global(p):
    from btclib import var_int
    from btclib.psbt import psbt_utils as U
    w = _records_of_field(U.serialize_bytes, b"\x00", p.tx.serialize(include_witness=False, check_validity=False))
    w += _records_of_field(lambda t, v: U.serialize_sized_int(t, v, 4), b"\x02", p.tx_version)
    if p.fallback_lock_time is not None:
        w += _records_of_field(lambda t, v: U.serialize_sized_int(t, v, 4), b"\x03", p.fallback_lock_time)
    w += _records_of_field(U.serialize_count, b"\x04", len(p.inputs))
    w += _records_of_field(U.serialize_count, b"\x05", len(p.outputs))
    if p.tx_modifiable is not None:
        w += _records_of_field(lambda t, v: U.serialize_sized_int(t, v, 1), b"\x06", p.tx_modifiable)
    if p.signed_message is not None:
        w += _records_of_field(U.serialize_bytes, b"\x09", p.signed_message)
    if 0 <= p.version < 2**32:
        w += _records_of_field(lambda t, v: U.serialize_sized_int(t, v, 4), b"\xfb", p.version)
    k = _records_of_field(U.serialize_hd_key_paths, b"\x01", p.hd_key_paths)
    k += _records_of_field(U.serialize_dict_bytes_bytes, b"\x07", p.sp_ecdh_shares)
    k += _records_of_field(U.serialize_dict_bytes_bytes, b"\x08", p.sp_dleq_proofs)
    return w, k, list(p.unknown.items())


def _o_object_roundtrip(w):
    """T1 of the typed layer on the real code: an object the constructor validates (check_validity=True)
    parses back from its own serialization to an equal object"""
    cls = {"PsbtIn": PsbtIn, "PsbtOut": PsbtOut}[w["cls"]]
    kw = {k: (bytes.fromhex(v) if isinstance(v, str) else v) for k, v in w["kw"].items()}
    if "unknown" in kw:
        kw["unknown"] = {bytes.fromhex(k): bytes.fromhex(v) for k, v in kw["unknown"].items()}
    try:
        x = cls(**kw)                       # validated
        b = x.serialize(psbt_version=w["ver"])
    except Exception as e:  # noqa: BLE001
        return common.err_class(e) in ("value", "type", "runtime"), f"not a valid object: {type(e).__name__}"
    try:
        y = cls.parse(b, psbt_version=w["ver"])
    except Exception as e:  # noqa: BLE001
        return False, f"{w['cls']}(…).serialize() = {b.hex()} is refused by parse: {type(e).__name__}: {e}"
    return y == x, f"{w['cls']}: serialize() = {b.hex()[:80]} parses back to an {'equal' if y == x else 'UNEQUAL'} object"


ORACLES["psbt.object_roundtrip"] = _o_object_roundtrip


def object_roundtrip_case(rng):
    """a small valid PsbtIn / PsbtOut given by json-able keywords; now and then `unknown` holds a key whose
    type byte is one of the class's own fields"""
    cls = rng.choice(["PsbtIn", "PsbtOut"])
    ver = rng.choice([0, 2])
    kw = {}
    if rng.random() < 0.5:
        kw["redeem_script"] = common.rand_bytes(rng, rng.choice([1, 22])).hex()
    if rng.random() < 0.5:
        kw["witness_script"] = common.rand_bytes(rng, rng.choice([1, 34])).hex()
    unk = {}
    for _ in range(rng.choice([0, 1, 2])):
        unk[(bytes([rng.choice([0x3f, 0x7f, 0xfc, 0xff])]) + common.rand_bytes(rng, rng.randrange(0, 3))).hex()] = \
            common.rand_bytes(rng, rng.randrange(0, 4)).hex()
    key = None
    if rng.random() < 0.15:                    # a known type byte filed under `unknown`
        t = rng.choice([0x00, 0x01]) if cls == "PsbtOut" else rng.choice([0x04, 0x05])
        unk[bytes([t]).hex()] = common.rand_bytes(rng, 2).hex()
        key = f"{cls}.unknown.known_type_key"
    if unk:
        kw["unknown"] = unk
    w = {"cls": cls, "ver": ver, "kw": kw}
    ok, detail = _o_object_roundtrip(w)
    return ok, detail, (key if not ok else None), w


def torecs_line(op, ver, w, k, u, rng):
    for l in (w, k, u):
        rng.shuffle(l)
    return f"{op} {ver} {hx(ser_records(w))},{hx(ser_records(k))},{hx(ser_records(u))}"


def _impl_ser(f):
    try:
        return "ok " + hx(f())
    except Exception as e:  # noqa: BLE001
        return "err refused" if common.err_class(e) in ("value", "type", "runtime") else "err " + common.err_class(e)


def typed_object_cases(rng, n):
    """{stream: [(op line, btclib's answer)]}: objects built through the constructors (no parser involved),
    serialized by btclib; the model runs its serialize loop on the same fields"""
    out = {"psbtin.torecs": [], "psbtout.torecs": [], "psbtglobal.torecs": []}
    for _ in range(n):
        kw = gen_psbtin_kwargs(rng)
        x = PsbtIn(**kw, check_validity=False)
        w, k, u = typed_of_psbtin(kw)
        for ver in (0, 2) + ((rng.choice([1, 3, 4, 2**32]),) if rng.random() < 0.3 else ()):
            out["psbtin.torecs"].append((torecs_line("psbtin.torecs", ver, w, k, u, rng),
                                         _impl_ser(lambda: x.serialize(psbt_version=ver, check_validity=False))))
        kw = gen_psbtout_kwargs(rng)
        y = PsbtOut(**kw, check_validity=False)
        w, k, u = typed_of_psbtout(kw)
        for ver in (0, 2) + ((rng.choice([1, 3]),) if rng.random() < 0.3 else ()):
            out["psbtout.torecs"].append((torecs_line("psbtout.torecs", ver, w, k, u, rng),
                                          _impl_ser(lambda: y.serialize(psbt_version=ver, check_validity=False))))
        kw = gen_psbt_global(rng)
        p = Psbt(**kw, check_validity=False)
        w, k, u = typed_of_global(p)
        def global_map(p=p):
            whole = p.serialize(check_validity=False)
            tail = b"".join(i.serialize(psbt_version=p.version, check_validity=False) for i in p.inputs)
            tail += b"".join(o.serialize(psbt_version=p.version, check_validity=False) for o in p.outputs)
            assert whole.endswith(tail) and whole[:5] == b"psbt\xff"
            return whole[5:len(whole) - len(tail)]
        out["psbtglobal.torecs"].append((torecs_line("psbtglobal.torecs", p.version, w, k, u, rng), _impl_ser(global_map)))
    return out


def mutate_map(recs, rng) -> bytes:
    b = ser_records(recs)
    r = rng.random()
    if r < 0.2 and recs:  # duplicate a key (same or different value)
        k, v = rng.choice(recs)
        extra = var_bytes.serialize(k) + var_bytes.serialize(rng.choice([v, v + b"\x01"]))
        return b[:-1] + extra + b"\x00"
    if r < 0.35:  # unterminated / truncated
        return b[:rng.randrange(len(b))]
    if r < 0.45:  # empty key in the middle == early terminator
        k = rng.randrange(len(recs) + 1)
        return ser_records(recs[:k])[:-1] + b"\x00" + ser_records(recs[k:])
    if r < 0.6 and recs:  # non-minimal key length
        k, v = recs[0]
        return b"\xfd" + len(k).to_bytes(2, "little") + k + var_bytes.serialize(v) + ser_records(recs[1:])
    if r < 0.75 and b:
        k = rng.randrange(len(b))
        return b[:k] + bytes([rng.choice([0, 1, 0xFC, 0xFD, 0xFF, b[k] ^ 1])]) + b[k + 1:]
    return b + common.rand_bytes(rng, rng.randrange(1, 4))


def run(ctx):
    rng = ctx.rng
    # ---- map layer: deserialize_map against the model
    lines = []
    maps_in = []
    maps_out = []
    maps_global = []
    for b, n_in, _n_out in vendored_psbts():
        try:
            maps = split_maps(b)
        except Exception:  # noqa: BLE001
            continue
        for m in maps:
            lines.append(f"psbtmap.parse o {hx(m)}")
            ctx.count("c05.input_class", "psbtmap:vendored")
        maps_global.append(maps[0])
        maps_in += maps[1:1 + n_in]
        maps_out += maps[1 + n_in:1 + n_in + _n_out]
    for _ in range(ctx.n(600, 8000)):
        recs = gen_records(rng)
        r = rng.random()
        if r < 0.45:
            b, cls = ser_records(recs), "valid"
            if rng.random() < 0.3:
                maps_in.append(b)
        elif r < 0.55:
            b, cls = ser_records(recs) + common.rand_bytes(rng, rng.randrange(1, 4)), "valid+rest"
        else:
            b, cls = mutate_map(recs, rng), "mutated"
        lines.append(f"psbtmap.parse {rng.choice('so')} {hx(b)}")
        ctx.count("c05.input_class", "psbtmap:" + cls)
    lines.append("psbtmap.parse o _")
    lines.append("psbtmap.parse o 010301ff")  # a record, then the end of the data: unterminated
    ctx.stream("psbtmap.parse", lines)

    # ---- typed layer on input maps: every pair kept (oracle), then the order (stream vs model norm)
    # explicit constructions of the falsy-but-present values
    base = [m for m in maps_in if b"\x01\x03\x04" not in m][:ctx.n(40, 400)]
    crafted = []
    for m in base:
        crafted.append(b"\x01\x03\x04\x00\x00\x00\x00" + m)            # PSBT_IN_SIGHASH_TYPE = 0
        crafted.append(b"\x01\x03\x04\x01\x00\x00\x00" + m)            # = SIGHASH_ALL (control)
    crafted.append(b"\x01\x03\x04\x00\x00\x00\x00\x00")
    crafted.append(b"\x01\x04\x00\x00")                                # empty redeem script record
    norm_lines = []
    seen = set()
    for m in maps_in[:ctx.n(700, 6000)] + crafted:
        if m in seen:
            continue
        seen.add(m)
        out, v = psbtin_reserialize(m)
        if out is None:
            ctx.count("psbtin.typed", "refused")
            continue
        try:
            missing = [r for r in records_of(m) if r not in records_of(out)]
        except Exception:  # noqa: BLE001
            missing = []
        keys = classify_dropped(missing, m) if missing else [None]
        w = {"b": m.hex()}
        ok, detail = _o_psbtin_keeps_pairs(w)
        # one stream per finding key, so that the per-stream cap on recorded findings cannot hide a key
        ctx.oracle("psbtin.keeps_pairs" + ("" if ok or not keys[0] else ":" + keys[0]), ok, detail, key=keys[0],
                   witness={"oracle": "psbtin.keeps_pairs", "witness": w})
        ctx.count("psbtin.typed", "kept" if ok else "dropped:" + str(keys[0]))
        if ok:
            norm_lines.append(f"psbtmap.norm o {hx(m)}")
    ctx.stream("psbtmap.norm", norm_lines)

    # ---- typed layer against the model on EVERY input map, dropped records included.  One-sided where
    # the refusal is semantic (Tx.assert_valid, MoneyRange, duplicate key origins …): the model does not
    # carry those, so a case the model accepts and btclib refuses is counted and left out.
    pool = list(dict.fromkeys(maps_in[:ctx.n(300, 3000)] + crafted))
    for _ in range(ctx.n(500, 8000)):
        pool.append(ser_records(gen_typed_records(rng)))
    lines = [f"psbtin.reser{v} o {hx(m)}" for m in pool for v in (0, 2)]
    cases = []
    for i, ln in enumerate(lines):
        t = ln.split(" ")
        b = bytes.fromhex(t[2]) if t[2] != "_" else b""
        im = OPS[t[0]]("o", b)
        # every refusal is compared (the model carries the checks that run whatever check_validity says:
        # Tx.assert_valid, MoneyRange, key lengths, duplicated key origins); the reason is counted for coverage
        ctx.count("psbtin.reser.class", "refused" if im.startswith("err") else
                  ("kept all" if len(im) - 3 == len(t[2]) else "normalised (records dropped)"))
        if im.startswith("err"):
            ctx.count("psbtin.refusal", _reason(PsbtIn, int(t[0][-1]), b))
        cases.append((ln, im))
    ctx.correspond("psbtin.reser", ctx.harness.EXE, cases)
    # version numbers other than 0 and 2: refused by parse and by serialize, whatever the map
    vlines = [f"psbtin.reserv {rng.choice([1, 3, 4, 255, 2**32 - 1, 2**32, 0, 2])} {hx(m)}" for m in pool[:ctx.n(60, 600)]]
    ctx.stream("psbtin.reserv", vlines)

    # ---- the same for output maps
    pool = list(dict.fromkeys(maps_out[:ctx.n(200, 2000)]))
    pool.append(bytes.fromhex("0206aa0400c0015100"))             # regression: tap tree with key data (bfff2ab9)
    for _ in range(ctx.n(400, 6000)):
        pool.append(ser_records(gen_out_records(rng)))
    lines = [f"psbtout.reser{v} o {hx(m)}" for m in pool for v in (0, 2)]
    cases = []
    for i, ln in enumerate(lines):
        t = ln.split(" ")
        b = bytes.fromhex(t[2]) if t[2] != "_" else b""
        im = OPS[t[0]]("o", b)
        ctx.count("psbtout.reser.class", "refused" if im.startswith("err") else
                  ("kept all" if len(im) - 3 == len(t[2]) else "normalised (records dropped)"))
        if im.startswith("err"):
            ctx.count("psbtout.refusal", _reason(PsbtOut, int(t[0][-1]), b))
        cases.append((ln, im))
    ctx.correspond("psbtout.reser", ctx.harness.EXE, cases)
    vlines = [f"psbtout.reserv {rng.choice([1, 3, 4, 2**32, 0, 2])} {hx(m)}" for m in pool[:ctx.n(60, 600)]]
    ctx.stream("psbtout.reserv", vlines)

    # ---- and for the global map (wrapped into a whole psbt on the implementation side)
    pool = list(dict.fromkeys(maps_global[:ctx.n(150, 1500)]))
    for _ in range(ctx.n(400, 6000)):
        pool.append(ser_records(gen_global_records(rng)))
    # Psbt.global_version.key_data_ignored: a version record with key data after a proper one
    crafted_g = bytes.fromhex("01000a0200000000000000000001fb040000000002fb0101aa00")
    ok_, detail = _o_psbtglobal_keeps_pairs({"b": crafted_g.hex()})
    ctx.oracle("psbtglobal.keeps_pairs" + ("" if ok_ else ":Psbt.global_version.key_data_ignored"), ok_, detail,
               key=None if ok_ else "Psbt.global_version.key_data_ignored",
               witness={"oracle": "psbtglobal.keeps_pairs", "witness": {"b": crafted_g.hex()}})
    lines = [f"psbtglobal.reser o {hx(m)}" for m in pool]
    cases = []
    for i, ln in enumerate(lines):
        t = ln.split(" ")
        g = bytes.fromhex(t[2]) if t[2] != "_" else b""
        im = psbtglobal_reser("o", g)
        if im.startswith("err"):
            ctx.count("psbtglobal.refusal", _reason(Psbt, 0, g))
        ctx.count("psbtglobal.reser.class", "refused" if im.startswith("err") else
                  ("kept all" if len(im) - 3 == len(t[2]) else "normalised (records dropped)"))
        if im.startswith("ok"):
            ctx.check("psbtglobal.keeps_pairs", {"b": g.hex()})
        cases.append((ln, im))
    ctx.correspond("psbtglobal.reser", ctx.harness.EXE, cases)

    # ---- typed objects built through the constructors (no parser on the implementation side): the serialize
    # loop of the model (version gate, finalizer rule, truthiness, order) against `X(**fields).serialize(ver)`
    for name, cs in typed_object_cases(rng, ctx.n(150, 2500)).items():
        for _ln, im in cs:
            ctx.count(name + ".class", "refused (version)" if im.startswith("err") else "written")
        ctx.correspond(name, ctx.harness.EXE, cs)
    # the property's own oracle on the same kind of object: a VALID object parses back from its serialization
    for _ in range(ctx.n(150, 2500)):
        ok, detail, key, w = object_roundtrip_case(rng)
        ctx.oracle("psbt.object_roundtrip" + ("" if ok or not key else ":" + key), ok, detail, key=key,
                   witness={"oracle": "psbt.object_roundtrip", "witness": w})
