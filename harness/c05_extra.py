"""C05: PSBT map layer, p2p envelope, BIP32 key data — implementation side, oracles and streams."""
from __future__ import annotations

import base64
import os
import re
from io import BytesIO

from btclib import var_bytes
from btclib.psbt import Psbt, PsbtIn, PsbtOut
from btclib.psbt.psbt_utils import deserialize_map

from . import common
from .common import hx


def _kind(e):
    from . import c05
    return c05.kind_of(e)


# ------------------------------------------------------------------ PSBT map layer
def ser_records(recs):
    return b"".join(var_bytes.serialize(k) + var_bytes.serialize(v) for k, v in recs) + b"\x00"


def psbtmap_parse(mode: str, b: bytes) -> str:
    s = BytesIO(b)
    try:
        m = deserialize_map(s)
    except Exception as e:  # noqa: BLE001
        return "err " + _kind(e)
    rest = s.read()
    if mode == "o" and rest:
        return "err trailing"
    recs = list(m.items())
    return f"ok [{';'.join(hx(k) + '=' + hx(v) for k, v in recs)}] rest={hx(rest)} ser={hx(ser_records(recs))}"


def psbtin_reserialize(b: bytes):
    """`PsbtIn.parse(b).serialize()` under the first psbt version that reads it; None when refused."""
    last = None
    for v in (0, 2):
        try:
            return PsbtIn.parse(b, psbt_version=v, check_validity=False).serialize(psbt_version=v, check_validity=False), v
        except Exception as e:  # noqa: BLE001
            last = e
    return None, last


def psbtmap_norm(mode: str, b: bytes) -> str:
    out, v = psbtin_reserialize(b)
    if out is None:
        return "err " + _kind(v)
    return f"ok {hx(out)} rest=_"


def psbtin_reser(ver: int):
    def f(mode: str, b: bytes) -> str:
        try:
            out = PsbtIn.parse(b, psbt_version=ver, check_validity=False).serialize(psbt_version=ver, check_validity=False)
        except Exception as e:  # noqa: BLE001
            return "err refused" if common.err_class(e) in ("value", "type", "runtime") else "err " + common.err_class(e)
        return "ok " + hx(out)
    return f


def psbtout_reser(ver: int):
    def f(mode: str, b: bytes) -> str:
        try:
            out = PsbtOut.parse(b, psbt_version=ver, check_validity=False).serialize(psbt_version=ver, check_validity=False)
        except Exception as e:  # noqa: BLE001
            return "err refused" if common.err_class(e) in ("value", "type", "runtime") else "err " + common.err_class(e)
        return "ok " + hx(out)
    return f


def wrap_global(gmap: bytes) -> bytes:
    """a whole psbt around one global map: as many minimal input/output maps as the map announces"""
    from btclib.tx import Tx
    from btclib import var_int
    recs = dict(deserialize_map(BytesIO(gmap)))
    ver = next((int.from_bytes(v, "little") for k, v in recs.items() if k[:1] == b"\xfb"), 0)
    if ver == 0:
        t = Tx.parse(recs[b"\x00"], check_validity=False)
        return b"psbt\xff" + gmap + b"\x00" * (len(t.vin) + len(t.vout))
    n_in = var_int.parse(BytesIO(recs[b"\x04"]))
    n_out = var_int.parse(BytesIO(recs[b"\x05"]))
    if n_in > 50 or n_out > 50:
        raise ValueError("too many maps for a probe")
    one_in = ser_records([(b"\x0e", b"\x11" * 32), (b"\x0f", bytes(4))])
    one_out = ser_records([(b"\x03", (1000).to_bytes(8, "little")), (b"\x04", b"\x51")])
    ins = b"".join(ser_records([(b"\x0e", bytes([i + 1]) * 32), (b"\x0f", bytes(4))]) for i in range(n_in))
    return b"psbt\xff" + gmap + ins + one_out * n_out


def psbtglobal_reser(mode: str, gmap: bytes) -> str:
    try:
        whole = wrap_global(gmap)
    except Exception:  # noqa: BLE001 - no psbt can be built around it: the map itself is malformed
        return "err refused"
    try:
        out = Psbt.parse(whole, check_validity=False).serialize(check_validity=False)
    except Exception as e:  # noqa: BLE001
        return "err refused" if common.err_class(e) in ("value", "type", "runtime") else "err " + common.err_class(e)
    return "ok " + hx(split_maps(out)[0])


def _o_psbtglobal_keeps_pairs(w):
    """the global map through Psbt.parse/serialize keeps every pair but a version-0 record"""
    g = bytes.fromhex(w["b"])
    r = psbtglobal_reser("o", g)
    if not r.startswith("ok"):
        return r == "err refused", r
    before, after = records_of(g), records_of(bytes.fromhex(r[3:]))
    missing = [x for x in before if x not in after and not (x[0] == b"\xfb" and x[1] == bytes(4))]
    added = [x for x in after if x not in before]
    return not missing and not added, f"dropped {[(k.hex(), v.hex()) for k, v in missing]} added {[(k.hex(), v.hex()) for k, v in added]}"


OPS = {"psbtglobal.reser": psbtglobal_reser, "psbtmap.parse": psbtmap_parse, "psbtmap.norm": psbtmap_norm,
       "psbtin.reser0": psbtin_reser(0), "psbtin.reser2": psbtin_reser(2),
       "psbtout.reser0": psbtout_reser(0), "psbtout.reser2": psbtout_reser(2)}


def records_of(b: bytes):
    return sorted(deserialize_map(BytesIO(b)).items())


def classify_dropped(missing, b):
    """stable key for a set of records that `PsbtIn.parse(b).serialize()` did not write back"""
    recs = dict(deserialize_map(BytesIO(b)))
    finalized = any(k[:1] in (b"\x07", b"\x08") for k in recs)
    keys = set()
    for k, v in missing:
        if k[:1] == b"\x08" and v == b"\x00":
            keys.add("PsbtIn.empty_final_witness.dropped")
        elif len(v) == 0:
            keys.add("PsbtIn.empty_value.dropped")
        elif finalized and k[:1] not in (b"\x07", b"\x08"):
            keys.add("PsbtIn.finalized.dropped")
        elif k == b"\x03" and v == b"\x00" * 4:
            keys.add("psbt.sighash0.dropped")
        else:
            keys.add("PsbtIn.record.dropped." + k[:1].hex())
    return sorted(keys)


def _o_psbtin_keeps_pairs(w):
    """T5 on the real code: re-serializing a parsed input map keeps every key-value pair and is a
    fixed point after one round."""
    b = bytes.fromhex(w["b"])
    out, v = psbtin_reserialize(b)
    if out is None:
        ok = common.err_class(v) in ("value", "runtime", "type") if isinstance(v, Exception) else True
        return ok, f"refused: {type(v).__name__}: {str(v)[:80]}"
    try:
        before, after = records_of(b), records_of(out)
    except Exception as e:  # noqa: BLE001
        return False, f"re-serialization does not read back: {type(e).__name__}: {e}"
    missing = [r for r in before if r not in after]
    added = [r for r in after if r not in before]
    if missing or added:
        return False, (f"records dropped {[(k.hex(), x.hex()) for k, x in missing]} added "
                       f"{[(k.hex(), x.hex()) for k, x in added]} ({len(b)} -> {len(out)} bytes)")
    again, _ = psbtin_reserialize(out)
    return again == out, "fixed point" if again == out else "second round differs"


ORACLES = {"psbtin.keeps_pairs": _o_psbtin_keeps_pairs, "psbtglobal.keeps_pairs": _o_psbtglobal_keeps_pairs}


# ------------------------------------------------------------------ seeds
_PSBTS = None


def vendored_psbts():
    global _PSBTS
    if _PSBTS is not None:
        return _PSBTS
    cands = set()
    for d, _, fs in os.walk("/repo/tests"):
        for f in sorted(fs):
            p = os.path.join(d, f)
            if not f.endswith((".py", ".json", ".txt", ".psbt")) or os.path.getsize(p) > 3_000_000:
                continue
            try:
                txt = open(p, encoding="utf8", errors="ignore").read()
            except OSError:
                continue
            for m in re.finditer(r"cHNidP[0-9A-Za-z+/=]+", txt):
                try:
                    cands.add(base64.b64decode(m.group(0), validate=True))
                except Exception:  # noqa: BLE001
                    pass
            for m in re.finditer(r"70736274ff(?:[0-9a-fA-F]{2})+", txt):
                cands.add(bytes.fromhex(m.group(0)))
    out = []
    for b in sorted(cands, key=lambda x: (len(x), x)):
        try:
            p = Psbt.parse(b, check_validity=False)
        except Exception:  # noqa: BLE001
            continue
        out.append((b, len(p.inputs), len(p.outputs)))
    _PSBTS = out
    return out


def split_maps(b: bytes):
    """raw bytes of the consecutive maps of a psbt (after the 5-byte magic)"""
    s = BytesIO(b)
    s.read(5)
    maps = []
    while s.tell() < len(b):
        at = s.tell()
        deserialize_map(s)
        maps.append(b[at:s.tell()])
    return maps


SIGHASHES = [0, 1, 2, 3, 0x81, 0x82, 0x83]


def gen_records(rng):
    """a plausible input map as a record list (typed layer accepts most of them)"""
    recs = []
    if rng.random() < 0.5:
        recs.append((b"\x03", rng.choice(SIGHASHES).to_bytes(4, "little")))
    for t in (b"\x04", b"\x05"):
        if rng.random() < 0.4:
            recs.append((t, common.rand_bytes(rng, rng.choice([0, 1, 22, 34, 253]))))
    if rng.random() < 0.2:
        recs.append((b"\x07", common.rand_bytes(rng, rng.choice([0, 1, 72]))))
    for _ in range(rng.choice([0, 0, 1, 2, 3])):
        recs.append((b"\x0a" + common.rand_bytes(rng, 20), common.rand_bytes(rng, rng.randrange(0, 40))))
    for _ in range(rng.choice([0, 0, 1, 2])):
        recs.append((b"\x0b" + common.rand_bytes(rng, 32), common.rand_bytes(rng, rng.randrange(0, 40))))
    for _ in range(rng.choice([0, 1, 1, 2, 3])):  # unknown types, some proprietary-looking
        t = rng.choice([0x09, 0x19, 0x1f, 0x20, 0x7f, 0xfb, 0xfc, 0xfd, 0xff])
        recs.append((bytes([t]) + common.rand_bytes(rng, rng.randrange(0, 5)), common.rand_bytes(rng, rng.randrange(0, 6))))
    if rng.random() < 0.15:
        recs.append((b"\x13", common.rand_bytes(rng, 64)))
    if rng.random() < 0.15:
        recs.append((b"\x17", common.rand_bytes(rng, 32)))
    seen, out = set(), []
    for k, v in recs:
        if k not in seen:
            seen.add(k)
            out.append((k, v))
    rng.shuffle(out)
    return out


def gen_typed_records(rng):
    """input-map records that exercise every deserializer class of the typed layer, mostly well formed"""
    from btclib import var_int
    recs = gen_records(rng)
    bad = rng.random() < 0.25            # one structural defect somewhere

    def fp_path(n=None):
        n = rng.choice([0, 1, 3, 5]) if n is None else n
        return common.rand_bytes(rng, 4) + b"".join(rng.getrandbits(32).to_bytes(4, "little") for _ in range(n))

    r = rng.random
    if r() < 0.3:
        for _ in range(rng.choice([1, 2])):
            recs.append((b"\x02" + rng.choice([b"\x02", b"\x03"]) + common.rand_bytes(rng, 32),
                         common.rand_bytes(rng, rng.choice([1, 71, 72]))))
    if r() < 0.35:
        for _ in range(rng.choice([1, 2])):
            recs.append((b"\x06" + rng.choice([b"\x02", b"\x03"]) + common.rand_bytes(rng, 32), fp_path()))
    if r() < 0.2:
        recs.append((b"\x08", rng.choice([b"\x00", b"\x01\x00", b"\x02\x01\xaa\x00", b"\x01\x02\xaa\xbb"])))
    if r() < 0.25:
        recs.append((b"\x01", rng.choice([0, 1, 5000, 2099999997690000]).to_bytes(8, "little") +
                     var_bytes.serialize(common.rand_bytes(rng, rng.choice([0, 22, 34])))))
    if r() < 0.25:
        recs.append((b"\x15" + bytes([0xC0]) + common.rand_bytes(rng, 32 * rng.choice([1, 2])),
                     common.rand_bytes(rng, rng.choice([1, 2, 30])) ))
    if r() < 0.25:
        n = rng.choice([0, 1, 2])
        recs.append((b"\x16" + common.rand_bytes(rng, 32),
                     var_int.serialize(n) + common.rand_bytes(rng, 32 * n) + fp_path()))
    if r() < 0.2:
        recs.append((b"\x1a" + b"\x02" + common.rand_bytes(rng, 32), (b"\x03" + common.rand_bytes(rng, 32)) * rng.choice([1, 2, 3])))
    if r() < 0.2:
        recs.append((b"\x18", common.rand_bytes(rng, rng.choice([0, 32]))))
    if r() < 0.3:                         # BIP370 fields (version 2 only)
        recs.append((b"\x0e", common.rand_bytes(rng, 32)))
        recs.append((b"\x0f", rng.choice([0, 1, 2**32 - 1]).to_bytes(4, "little")))
        if r() < 0.5:
            recs.append((b"\x10", rng.choice([0, 0xFFFFFFFE]).to_bytes(4, "little")))
        if r() < 0.3:
            recs.append((b"\x11", rng.choice([0, 500000000, 1700000000]).to_bytes(4, "little")))
        if r() < 0.3:
            recs.append((b"\x12", rng.choice([0, 1, 499999999]).to_bytes(4, "little")))
    if bad and recs:
        i = rng.randrange(len(recs))
        k, v = recs[i]
        how = rng.random()
        if how < 0.3:
            recs[i] = (k, v[:-1] if v else b"\x00")          # value one byte short / spurious
        elif how < 0.5:
            recs[i] = (k, v + b"\x00")                        # one byte long
        elif how < 0.7:
            recs[i] = (k[:1] + b"\x01" + k[1:], v)            # key data where none belongs / longer key
        elif how < 0.85:
            recs[i] = (k, b"")                                # empty value
        else:
            recs[i] = (k[:1], v)                              # key data removed
    seen, out = set(), []
    for k, v in recs:
        if k not in seen:
            seen.add(k)
            out.append((k, v))
    rng.shuffle(out)
    return out


def gen_out_records(rng):
    """output-map records over every field of PsbtOut, mostly well formed"""
    from btclib import var_int
    recs = []
    r = rng.random

    def fp_path():
        return common.rand_bytes(rng, 4) + b"".join(rng.getrandbits(32).to_bytes(4, "little") for _ in range(rng.choice([0, 1, 3])))

    for t in (b"\x00", b"\x01"):
        if r() < 0.35:
            recs.append((t, common.rand_bytes(rng, rng.choice([0, 1, 22, 34]))))
    if r() < 0.35:
        recs.append((b"\x02" + rng.choice([b"\x02", b"\x03"]) + common.rand_bytes(rng, 32), fp_path()))
    if r() < 0.35:
        recs.append((b"\x03", rng.choice([0, 1, 5000, -1]).to_bytes(8, "little", signed=True)))
        recs.append((b"\x04", common.rand_bytes(rng, rng.choice([0, 22, 34]))))
    if r() < 0.3:
        recs.append((b"\x05", common.rand_bytes(rng, rng.choice([0, 32]))))
    if r() < 0.35:
        tree = b"".join(bytes([rng.randrange(3), 0xC0]) + var_bytes.serialize(common.rand_bytes(rng, rng.randrange(0, 5)))
                        for _ in range(rng.choice([0, 1, 2, 3])))
        if r() < 0.15:
            tree += bytes([1])                                  # a depth with nothing after it
        recs.append((b"\x06" if r() < 0.9 else b"\x06\xaa", tree))   # key data on the tree: refused since bfff2ab9
    if r() < 0.25:
        n = rng.choice([0, 1, 2])
        recs.append((b"\x07" + common.rand_bytes(rng, 32), var_int.serialize(n) + common.rand_bytes(rng, 32 * n) + fp_path()))
    if r() < 0.2:
        recs.append((b"\x08" + b"\x02" + common.rand_bytes(rng, 32), (b"\x03" + common.rand_bytes(rng, 32)) * rng.choice([1, 2])))
    if r() < 0.2:
        recs.append((b"\x09", common.rand_bytes(rng, rng.choice([0, 66]))))
    if r() < 0.2:
        recs.append((b"\x0a", rng.choice([0, 1, 2**32 - 1]).to_bytes(4, "little")))
    for _ in range(rng.choice([0, 1, 2])):
        t = rng.choice([0x0b, 0x19, 0xfc, 0xff])
        recs.append((bytes([t]) + common.rand_bytes(rng, rng.randrange(0, 4)), common.rand_bytes(rng, rng.randrange(0, 6))))
    if r() < 0.2 and recs:
        i = rng.randrange(len(recs))
        k, v = recs[i]
        how = r()
        recs[i] = ((k, v[:-1] if v else b"\x00") if how < 0.35 else (k, v + b"\x00") if how < 0.6
                   else (k[:1] + b"\x01" + k[1:], v) if how < 0.8 else (k[:1], v))
    seen, out = set(), []
    for k, v in recs:
        if k not in seen:
            seen.add(k)
            out.append((k, v))
    rng.shuffle(out)
    return out


def gen_global_records(rng):
    from btclib import var_int
    r = rng.random
    recs = []
    v2 = r() < 0.45
    if v2:
        recs.append((b"\xfb", (2).to_bytes(4, "little")))
        recs.append((b"\x02", rng.choice([1, 2, 3]).to_bytes(4, "little")))
        recs.append((b"\x04", var_int.serialize(rng.choice([0, 1, 2]))))
        recs.append((b"\x05", var_int.serialize(rng.choice([0, 1, 2]))))
        if r() < 0.4:
            recs.append((b"\x03", rng.choice([0, 500000, 1700000000]).to_bytes(4, "little")))
        if r() < 0.4:
            recs.append((b"\x06", bytes([rng.choice([0, 1, 3, 7])])))
    else:
        n_in, n_out = rng.choice([0, 1, 1, 2]), rng.choice([0, 1, 2])
        tx = (2).to_bytes(4, "little") + var_int.serialize(n_in)
        for i in range(n_in):
            tx += bytes([i + 1]) * 32 + bytes(4) + (b"\x00" if r() < 0.93 else b"\x01\x51") + b"\xff" * 4
        tx += var_int.serialize(n_out)
        for _ in range(n_out):
            tx += (1000).to_bytes(8, "little") + b"\x01\x51"
        tx += bytes(4)
        recs.append((b"\x00", tx))
        if r() < 0.35:
            recs.append((b"\xfb", bytes(4)))                       # an explicit version 0 record
        if r() < 0.08:
            recs.append((b"\x02", (2).to_bytes(4, "little")))      # a v2 field in a v0 psbt
    if r() < 0.3:
        recs.append((b"\x09", common.rand_bytes(rng, rng.choice([0, 1, 32]))))
    for _ in range(rng.choice([0, 1, 2])):
        t = rng.choice([0x0a, 0x19, 0xfc, 0xfa, 0xff])
        recs.append((bytes([t]) + common.rand_bytes(rng, rng.randrange(0, 4)), common.rand_bytes(rng, rng.randrange(0, 6))))
    if r() < 0.15 and recs:
        i = rng.randrange(len(recs))
        k, v = recs[i]
        how = r()
        recs[i] = ((k, v[:-1] if v else b"\x00") if how < 0.4 else (k, v + b"\x00") if how < 0.7
                   else (k[:1] + b"\x01" + k[1:], v))
    seen, out = set(), []
    for k, v in recs:
        if k not in seen:
            seen.add(k)
            out.append((k, v))
    rng.shuffle(out)
    return out


def mutate_map(recs, rng) -> bytes:
    b = ser_records(recs)
    r = rng.random()
    if r < 0.2 and recs:  # duplicate a key (same or different value)
        k, v = rng.choice(recs)
        extra = var_bytes.serialize(k) + var_bytes.serialize(rng.choice([v, v + b"\x01"]))
        return b[:-1] + extra + b"\x00"
    if r < 0.35:  # unterminated / truncated
        return b[:rng.randrange(len(b))]
    if r < 0.45:  # empty key in the middle == early terminator
        k = rng.randrange(len(recs) + 1)
        return ser_records(recs[:k])[:-1] + b"\x00" + ser_records(recs[k:])
    if r < 0.6 and recs:  # non-minimal key length
        k, v = recs[0]
        return b"\xfd" + len(k).to_bytes(2, "little") + k + var_bytes.serialize(v) + ser_records(recs[1:])
    if r < 0.75 and b:
        k = rng.randrange(len(b))
        return b[:k] + bytes([rng.choice([0, 1, 0xFC, 0xFD, 0xFF, b[k] ^ 1])]) + b[k + 1:]
    return b + common.rand_bytes(rng, rng.randrange(1, 4))


def run(ctx):
    rng = ctx.rng
    # ---- map layer: deserialize_map against the model
    lines = []
    maps_in = []
    maps_out = []
    maps_global = []
    for b, n_in, _n_out in vendored_psbts():
        try:
            maps = split_maps(b)
        except Exception:  # noqa: BLE001
            continue
        for m in maps:
            lines.append(f"psbtmap.parse o {hx(m)}")
            ctx.count("c05.input_class", "psbtmap:vendored")
        maps_global.append(maps[0])
        maps_in += maps[1:1 + n_in]
        maps_out += maps[1 + n_in:1 + n_in + _n_out]
    for _ in range(ctx.n(600, 8000)):
        recs = gen_records(rng)
        r = rng.random()
        if r < 0.45:
            b, cls = ser_records(recs), "valid"
            if rng.random() < 0.3:
                maps_in.append(b)
        elif r < 0.55:
            b, cls = ser_records(recs) + common.rand_bytes(rng, rng.randrange(1, 4)), "valid+rest"
        else:
            b, cls = mutate_map(recs, rng), "mutated"
        lines.append(f"psbtmap.parse {rng.choice('so')} {hx(b)}")
        ctx.count("c05.input_class", "psbtmap:" + cls)
    lines.append("psbtmap.parse o _")
    lines.append("psbtmap.parse o 010301ff")  # a record, then the end of the data: unterminated
    ctx.stream("psbtmap.parse", lines)

    # ---- typed layer on input maps: every pair kept (oracle), then the order (stream vs model norm)
    # explicit constructions of the falsy-but-present values
    base = [m for m in maps_in if b"\x01\x03\x04" not in m][:ctx.n(40, 400)]
    crafted = []
    for m in base:
        crafted.append(b"\x01\x03\x04\x00\x00\x00\x00" + m)            # PSBT_IN_SIGHASH_TYPE = 0
        crafted.append(b"\x01\x03\x04\x01\x00\x00\x00" + m)            # = SIGHASH_ALL (control)
    crafted.append(b"\x01\x03\x04\x00\x00\x00\x00\x00")
    crafted.append(b"\x01\x04\x00\x00")                                # empty redeem script record
    norm_lines = []
    seen = set()
    for m in maps_in[:ctx.n(700, 6000)] + crafted:
        if m in seen:
            continue
        seen.add(m)
        out, v = psbtin_reserialize(m)
        if out is None:
            ctx.count("psbtin.typed", "refused")
            continue
        try:
            missing = [r for r in records_of(m) if r not in records_of(out)]
        except Exception:  # noqa: BLE001
            missing = []
        keys = classify_dropped(missing, m) if missing else [None]
        w = {"b": m.hex()}
        ok, detail = _o_psbtin_keeps_pairs(w)
        # one stream per finding key, so that the per-stream cap on recorded findings cannot hide a key
        ctx.oracle("psbtin.keeps_pairs" + ("" if ok or not keys[0] else ":" + keys[0]), ok, detail, key=keys[0],
                   witness={"oracle": "psbtin.keeps_pairs", "witness": w})
        ctx.count("psbtin.typed", "kept" if ok else "dropped:" + str(keys[0]))
        if ok:
            norm_lines.append(f"psbtmap.norm o {hx(m)}")
    ctx.stream("psbtmap.norm", norm_lines)

    # ---- typed layer against the model on EVERY input map, dropped records included.  One-sided where
    # the refusal is semantic (Tx.assert_valid, MoneyRange, duplicate key origins …): the model does not
    # carry those, so a case the model accepts and btclib refuses is counted and left out.
    pool = list(dict.fromkeys(maps_in[:ctx.n(300, 3000)] + crafted))
    for _ in range(ctx.n(500, 8000)):
        pool.append(ser_records(gen_typed_records(rng)))
    lines = [f"psbtin.reser{v} o {hx(m)}" for m in pool for v in (0, 2)]
    outs = ctx.model(ctx.harness.EXE, lines)
    cases = []
    for i, ln in enumerate(lines):
        im = OPS[ln.split(" ")[0]]("o", bytes.fromhex(ln.split(" ")[2]) if ln.split(" ")[2] != "_" else b"")
        if outs is not None and im == "err refused" and outs[i].startswith("ok"):
            ctx.count("psbtin.reser.class", "semantic refusal (not modelled)")
            continue
        ctx.count("psbtin.reser.class", "refused" if im.startswith("err") else
                  ("kept all" if len(im) - 3 == len(ln.split(" ")[2]) else "normalised (records dropped)"))
        cases.append((ln, im))
    ctx.correspond("psbtin.reser", ctx.harness.EXE, cases)

    # ---- the same for output maps
    pool = list(dict.fromkeys(maps_out[:ctx.n(200, 2000)]))
    pool.append(bytes.fromhex("0206aa0400c0015100"))             # regression: tap tree with key data (bfff2ab9)
    for _ in range(ctx.n(400, 6000)):
        pool.append(ser_records(gen_out_records(rng)))
    lines = [f"psbtout.reser{v} o {hx(m)}" for m in pool for v in (0, 2)]
    outs = ctx.model(ctx.harness.EXE, lines)
    cases = []
    for i, ln in enumerate(lines):
        t = ln.split(" ")
        im = OPS[t[0]]("o", bytes.fromhex(t[2]) if t[2] != "_" else b"")
        if outs is not None and im == "err refused" and outs[i].startswith("ok"):
            ctx.count("psbtout.reser.class", "semantic refusal (not modelled)")
            continue
        ctx.count("psbtout.reser.class", "refused" if im.startswith("err") else
                  ("kept all" if len(im) - 3 == len(t[2]) else "normalised (records dropped)"))
        cases.append((ln, im))
    ctx.correspond("psbtout.reser", ctx.harness.EXE, cases)

    # ---- and for the global map (wrapped into a whole psbt on the implementation side)
    pool = list(dict.fromkeys(maps_global[:ctx.n(150, 1500)]))
    for _ in range(ctx.n(400, 6000)):
        pool.append(ser_records(gen_global_records(rng)))
    # Psbt.global_version.key_data_ignored: a version record with key data after a proper one
    crafted_g = bytes.fromhex("01000a0200000000000000000001fb040000000002fb0101aa00")
    ok_, detail = _o_psbtglobal_keeps_pairs({"b": crafted_g.hex()})
    ctx.oracle("psbtglobal.keeps_pairs" + ("" if ok_ else ":Psbt.global_version.key_data_ignored"), ok_, detail,
               key=None if ok_ else "Psbt.global_version.key_data_ignored",
               witness={"oracle": "psbtglobal.keeps_pairs", "witness": {"b": crafted_g.hex()}})
    lines = [f"psbtglobal.reser o {hx(m)}" for m in pool]
    outs = ctx.model(ctx.harness.EXE, lines)
    cases = []
    for i, ln in enumerate(lines):
        t = ln.split(" ")
        g = bytes.fromhex(t[2]) if t[2] != "_" else b""
        im = psbtglobal_reser("o", g)
        if outs is not None and im == "err refused" and outs[i].startswith("ok"):
            ctx.count("psbtglobal.reser.class", "semantic refusal (not modelled)")
            continue
        ctx.count("psbtglobal.reser.class", "refused" if im.startswith("err") else
                  ("kept all" if len(im) - 3 == len(t[2]) else "normalised (records dropped)"))
        if im.startswith("ok"):
            ctx.check("psbtglobal.keeps_pairs", {"b": g.hex()})
        cases.append((ln, im))
    ctx.correspond("psbtglobal.reser", ctx.harness.EXE, cases)
